"""Native replay / bounded search for C16 on the real code (bounded stand-in, never counted as proof): the ten
statistics variables of dtml-in against independently computed values (python's statistics module / plain formulas)."""
import itertools
import math
import statistics as st

STATS = ['total', 'count', 'min', 'max', 'median', 'mean', 'variance', 'variance-n', 'standard-deviation', 'standard-deviation-n']
POOL = [1, 2, 2, 5, 0.5, 0.7, 1.25, -3, None, 'a', 'b']


class Obj:
    def __init__(self, x):
        self.x = x


def close(a, b, abs_tol=1e-9):
    # floating-point rounding is outside the claim (DESIGN.md: reals assumed); the square root of a rounding error of
    # 1e-16 is 1e-8, hence the wider tolerance for standard deviations
    return math.isclose(float(a), float(b), rel_tol=1e-9, abs_tol=abs_tol)


def check(vals, mapping):
    from DocumentTemplate.DT_HTML import HTML
    body = ''.join('%s=<dtml-var %s-x>;' % (s, s) for s in STATS)
    src = '<dtml-in seq%s><dtml-if sequence-end>%s</dtml-if></dtml-in>' % (' mapping' if mapping else '', body)
    seq = [dict(x=v) for v in vals] if mapping else [Obj(v) for v in vals]
    try:
        out = HTML(src)(seq=seq)
    except Exception as e:  # noqa
        return dict(source=src, values=repr(vals), raised=repr(e))
    got = dict(c.split('=', 1) for c in out.split(';') if c)
    nums = [v for v in vals if isinstance(v, (int, float))]
    strs = [v for v in vals if isinstance(v, str)]
    def bad(name, want):  # noqa
        return dict(source=src, values=repr(vals), variable=name + '-x', got=got.get(name), want=repr(want))
    if nums:
        n = len(nums)
        if not strs and int(got['count']) != n:
            return bad('count', n)
        if not close(got['total'], sum(nums)):
            return bad('total', sum(nums))
        if not close(got['mean'], sum(nums) / n):
            return bad('mean', sum(nums) / n)
        if not close(got['variance-n'], st.pvariance(nums)):
            return bad('variance-n', st.pvariance(nums))
        if not close(got['standard-deviation-n'], st.pstdev(nums), 1e-6):
            return bad('standard-deviation-n', st.pstdev(nums))
        if n > 1:
            if not close(got['variance'], st.variance(nums)):
                return bad('variance', st.variance(nums))
            if not close(got['standard-deviation'], st.stdev(nums), 1e-6):
                return bad('standard-deviation', st.stdev(nums))
        elif got['variance'] != '' or got['standard-deviation'] != '':
            return bad('variance', '')
        if not strs:
            if not close(got['min'], min(nums)) or not close(got['max'], max(nums)):
                return bad('min/max', (min(nums), max(nums)))
            s = sorted(nums)
            m = float(got['median'])
            if n % 2:
                if not close(m, s[n // 2]):
                    return bad('median', s[n // 2])
            elif not (s[n // 2 - 1] - 1e-9 <= m <= s[n // 2] + 1e-9):
                return bad('median', 'between %r and %r' % (s[n // 2 - 1], s[n // 2]))
    else:
        for k in ('total', 'mean', 'variance', 'variance-n', 'standard-deviation', 'standard-deviation-n'):
            if got[k] != '':
                return bad(k, '')
        if int(got['count']) != len(strs):
            return bad('count', len(strs))
        if strs:
            if got['min'] != min(strs) or got['max'] != max(strs):
                return bad('min/max', (min(strs), max(strs)))
            s = sorted(strs)
            n = len(s)
            if n % 2:
                if got['median'] != s[n // 2]:
                    return bad('median', s[n // 2])
            elif n > 1 and not (s[n // 2] in got['median'] and s[n // 2 - 1] in got['median']):
                return bad('median', 'text naming %r and %r' % (s[n // 2 - 1], s[n // 2]))
    return None


def search(big=False):
    n = 0
    maxlen = 4 if big else 3
    for L in range(1, maxlen + 1):
        for vals in itertools.product(POOL, repeat=L):
            if sum(isinstance(v, str) for v in vals) and sum(isinstance(v, (int, float)) for v in vals):
                continue        # mixes of numbers and strings are not defined by the documentation
            for mapping in (False, True):
                n += 1
                f = check(list(vals), mapping)
                if f:
                    return n, f
    for vals in ([1, 2, 3, 4, 5, 6, 7, 8, 9, 10], [0.1 * i for i in range(10)], [3, None, 3, None, 4, 1.5, 2.25, 7, 7, 7]):
        n += 1
        f = check(vals, False)
        if f:
            return n, f
    # equal (and nearly equal) floats: the computed variance is 0 up to rounding, possibly a tiny negative number; the
    # statistics must still be produced (values compared with the tolerance of close())
    for v in (0.1, 0.7, 1.1, 1e9 + 0.1, 2.675):
        for k in (2, 3, 4, 7):
            n += 1
            f = check([v] * k, False)
            if f:
                return n, f
    # the statistics do not depend on how the loop is sorted / reversed / batched: median-x under a sort on the same
    # variable with a comparison function that disagrees with <
    from DocumentTemplate.DT_HTML import HTML

    class O:
        def __init__(self, x):
            self.x = x
    for vals, want in ((['B', 'a', 'c'], 'a'), ([1, 30, 12, 9, 2], '9'), ([3, 1, 2], '2')):
        for opts in ('sort=x/nocase', 'sort=x/nocase reverse', 'sort=x/cmp/desc', 'sort=x', 'reverse', 'sort=x/nocase size=10'):
            if opts.startswith('sort=x/nocase') and not isinstance(vals[0], str):
                continue
            n += 1
            src = '<dtml-in seq %s><dtml-if sequence-end><dtml-var median-x></dtml-if></dtml-in>' % opts
            try:
                out = HTML(src)(seq=[O(v) for v in vals])
            except Exception as e:  # noqa
                out = 'RAISED:' + type(e).__name__
            if out != want:
                return n, dict(source=src, values=vals, output=out, expected=want, what='median-x is not the middle value')
    return n, None


def native_for(oid, model):
    n, fail = search()
    if fail:
        return dict(holds=False, inputs=fail, observed='a statistics variable differs from the independently computed value', cases_tried=n)
    return dict(holds=True, cases_tried=n, note='bounded native search found no failing input')


if __name__ == '__main__':
    print(search())
