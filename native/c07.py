"""Native replay / bounded search for C07 on the real code (bounded stand-in, never counted as proof): abstract templates
printed in the three syntaxes compile to the same blocks and render alike."""
import itertools


def norm(b):
    """structural normal form of compiled blocks"""
    if isinstance(b, (str, bytes, int, float, type(None))):
        return b
    if isinstance(b, (tuple, list)):
        return tuple(norm(x) for x in b)
    if hasattr(b, '__self__') and hasattr(b, '__func__'):        # bound render method of a tag object
        return ('method', b.__func__.__name__, norm(b.__self__))
    if hasattr(b, 'expr') and hasattr(b, 'eval') and isinstance(getattr(b, 'expr', None), str):
        return ('Eval', b.expr)
    d = getattr(b, '__dict__', None)
    if d is not None:
        return (type(b).__name__,) + tuple((k, norm(v)) for k, v in sorted(d.items(), key=lambda kv: str(kv[0]))
                                           if not k.startswith('_v_') and k not in ('globals', '_vars', 'encoding', 'raw', '__name__'))
    return repr(type(b))


# abstract template: list of ('text', s) | ('tag', name, args) | ('block', name, args, [sections: (contname, contargs, body)])
def show(t, syn):
    out = ''
    for it in t:
        if it[0] == 'text':
            out += it[1]
        elif it[0] == 'tag':
            name, args = it[1], it[2]
            a = (' ' + args) if args else ''
            out += {'dtml': '<dtml-%s%s>', 'ssi': '<!--#%s%s-->', 'epfs': '%%(%s%s)s' if name == 'var' else '%%(%s%s)['}[syn] % (name, a)
            if syn == 'epfs' and name != 'var':
                raise ValueError
        else:
            name, args, secs = it[1], it[2], it[3]
            a = (' ' + args) if args else ''
            out += {'dtml': '<dtml-%s%s>', 'ssi': '<!--#%s%s-->', 'epfs': '%%(%s%s)['}[syn] % (name, a)
            for i, (cn, ca, body) in enumerate(secs):
                if i:
                    ca2 = (' ' + ca) if ca else ''
                    out += {'dtml': '<dtml-%s%s>', 'ssi': '<!--#%s%s-->', 'epfs': '%%(%s%s)['}[syn] % (cn, ca2)
                out += show(body, syn)
            out += {'dtml': '</dtml-%s>', 'ssi': '<!--#/%s-->', 'epfs': '%%(%s)]'}[syn] % name
    return out


TEMPLATES = [
    [('text', 'a '), ('tag', 'var', 'x'), ('text', ' b')],
    [('tag', 'var', 'x upper'), ('tag', 'var', 'y null="n" html_quote')],
    [('tag', 'var', 'y null=n/'), ('tag', 'var', 'nosuch missing=/'), ('tag', 'var', 'x missing=-'), ('tag', 'var', 'y null=a/b fmt=%s/')],
    [('block', 'if', 'c', [(None, None, [('text', 'T'), ('tag', 'var', 'x')]), ('else', '', [('text', 'F')])])],
    [('block', 'if', 'c', [(None, None, [('text', '1')]), ('elif', 'd', [('text', '2')]), ('else', '', [('text', '3')])]), ('text', '!')],
    [('block', 'in', 's', [(None, None, [('text', '['), ('tag', 'var', 'sequence-item'), ('text', ']')]), ('else', '', [('text', 'E')])])],
    [('block', 'with', 'o mapping', [(None, None, [('tag', 'var', 'k')])])],
    [('block', 'let', 'z=x', [(None, None, [('tag', 'var', 'z lower')])])],
    [('block', 'try', '', [(None, None, [('tag', 'var', 'missing_name')]), ('except', 'KeyError', [('text', 'caught')])])],
    [('block', 'unless', 'c', [(None, None, [('text', 'U')])]), ('block', 'in', 's size=1', [(None, None, [('tag', 'var', 'sequence-index')])])],
    [('block', 'if', 'c', [(None, None, [('block', 'in', 's', [(None, None, [('tag', 'var', 'sequence-item')])])]), ('else', '', [('text', 'no')])])],
]
NAMESPACES = [dict(x='<Xy>', y=None, c=1, d=0, s=[1, 2], o={'k': 'K'}), dict(x='', y='v', c=0, d=1, s=[], o={'k': 'k2'})]


def search(big=False):
    from DocumentTemplate.DT_HTML import HTML
    from DocumentTemplate.DT_String import String
    n = 0
    for t in TEMPLATES:
        variants = []
        for syn, cls in (('dtml', HTML), ('ssi', HTML), ('epfs', String)):
            try:
                src = show(t, syn)
            except ValueError:
                continue
            variants.append((syn, src, cls(src)))
        for (s1, src1, t1), (s2, src2, t2) in itertools.combinations(variants, 2):
            n += 1
            cooked = []
            for tt in (t1, t2):
                try:
                    tt.cook()
                    cooked.append(('ok', norm(tt._v_blocks)))
                except Exception as e:  # noqa
                    cooked.append(('raise', type(e).__name__))
            if cooked[0] != cooked[1]:
                return n, dict(a=src1, b=src2, what='the two syntaxes compile to different programs',
                               outcomes=[c if c[0] == 'raise' else 'compiled' for c in cooked])
            if cooked[0][0] == 'raise':
                continue
            for ns in NAMESPACES:
                n += 1
                r = []
                for tt in (t1, t2):
                    try:
                        r.append(('ok', tt(**ns)))
                    except Exception as e:  # noqa
                        r.append(('raise', type(e).__name__))
                if r[0] != r[1]:
                    return n, dict(a=src1, b=src2, namespace=repr(ns), results=r)
    # entity forms
    for ent, tag in (('&dtml-x;', '<dtml-var x html_quote>'), ('&dtml.upper-x;', '<dtml-var x upper>'), ('&dtml.url_quote.lower-x;', '<dtml-var x url_quote lower>'),
                     ('a&dtml-x;b', 'a<dtml-var x html_quote>b')):
        n += 1
        a, b = HTML(ent), HTML(tag)
        a.cook()
        b.cook()
        if norm(a._v_blocks) != norm(b._v_blocks):
            return n, dict(a=ent, b=tag, what='entity form compiles differently')
        for x in ('<V a="1">', "it's", ''):
            if a(x=x) != b(x=x):
                return n, dict(a=ent, b=tag, x=x, results=[a(x=x), b(x=x)])
    # whitespace / quoting variations and optional end-tag arguments
    for v1, v2 in (('<dtml-var   x   upper >', '<dtml-var x upper>'), ('<dtml-if c>1</dtml-if c>', '<dtml-if c>1</dtml-if>'),
                   ('<dtml-var name="x">', '<dtml-var x>'), ('<!--#if c-->1<!--#endif-->', '<!--#if c-->1<!--#/if-->'),
                   ('<dtml-var x size="3">', '<dtml-var x size=3>'),
                   ('<dtml-if c>1</dtml-if ">">2', '<dtml-if c>1</dtml-if>2'), ('<dtml-var x null=">">y', '<dtml-var x null="&gt;">y'.replace('&gt;', '>'))):
        n += 1
        a, b = HTML(v1), HTML(v2)
        a.cook()
        b.cook()
        if norm(a._v_blocks) != norm(b._v_blocks):
            return n, dict(a=v1, b=v2, what='spelling variants compile differently')
    return n, None


def native_for(oid, model):
    n, fail = search()
    if fail:
        return dict(holds=False, inputs=fail, observed='syntaxes disagree', cases_tried=n)
    return dict(holds=True, cases_tried=n, note='bounded native search found no failing input')


if __name__ == '__main__':
    print(search())
