"""Native replay / bounded search for C10 on the real code (bounded stand-in, never counted as proof):
dtml-in over small sequences of objects, mappings, 2-tuples, strings; with/without batch, prefix, guard that
refuses some items under skip_unauthorized; every documented fixed-name variable against an independent oracle."""
import itertools

NAMES = ['index', 'number', 'letter', 'Letter', 'roman', 'Roman', 'even', 'odd', 'start', 'end', 'length']


def _roman(n):
    out = ''
    for v, s in ((1000, 'M'), (900, 'CM'), (500, 'D'), (400, 'CD'), (100, 'C'), (90, 'XC'), (50, 'L'), (40, 'XL'),
                 (10, 'X'), (9, 'IX'), (5, 'V'), (4, 'IV'), (1, 'I')):
        while n >= v:
            out += s
            n -= v
    return out


def oracle(i, L, first_displayed, last_index):
    return dict(index=str(i), number=str(i + 1), letter=chr(97 + i), Letter=chr(65 + i), roman=_roman(i + 1).lower(),
                Roman=_roman(i + 1), even=str(i % 2 == 0), odd=str(i % 2), start='1' if first_displayed else '0',
                end='1' if i == last_index else '0', length=str(L))


class Obj:
    def __init__(self, x):
        self.x = x


def _template(cls, attrs, prefix, body_extra=''):
    cells = ''.join('%s=<dtml-var %s>;' % (n, ('sequence-' + n)) for n in NAMES)
    if prefix:
        cells += ''.join('p_%s=<dtml-var %s_%s>;' % (n, prefix, n) for n in NAMES)
    src = '<dtml-in seq %s%s>{%s%s}<dtml-else>EMPTY</dtml-in>' % (attrs, (' prefix=%s' % prefix) if prefix else '', cells, body_extra)
    return src, cls(src)


def search(big=False):
    from DocumentTemplate.DT_HTML import HTML
    from DocumentTemplate.security import RestrictedDTML
    from zExceptions import Unauthorized

    class Guarded(RestrictedDTML, HTML):
        def guarded_getitem(self, ob, index):
            v = ob[index]
            if v == 'DENY' or getattr(v, 'x', None) == 'DENY':
                raise Unauthorized(index)
            return v

        def guarded_getattr(self, ob, name):
            return getattr(ob, name)

    n = 0
    maxL = 5 if big else 4
    for L in range(0, maxL + 1):
        for denied in ([()] + [c for k in (1, 2) for c in itertools.combinations(range(L), k)]):
            for batch in ('', 'size=10', 'start=2 size=2'):
                for prefix in ('', 'p'):
                    cls = Guarded if denied else HTML
                    seq = ['DENY' if i in denied else 'v%d' % i for i in range(L)]
                    attrs = batch + (' skip_unauthorized' if denied else '')
                    src, t = _template(cls, attrs, prefix, 'item=<dtml-var sequence-item>;')
                    n += 1
                    try:
                        out = t(seq=seq)
                    except Exception as e:  # noqa
                        return n, dict(source=src, seq=seq, raised=repr(e))
                    if batch == 'start=2 size=2':
                        window = list(range(1, min(L, 3))) if L >= 2 else ([L - 1] if L >= 1 else [])
                        window = list(range(min(1, L - 1), min(L, 3))) if L else []
                        # opt clamps start to the length: start=2 on a 1-element sequence shows element 1
                        if L == 1:
                            window = [0]
                    else:
                        window = list(range(L))
                    shown = [i for i in window if i not in denied]
                    if L == 0:
                        if out != 'EMPTY':
                            return n, dict(source=src, seq=seq, output=out, expected='EMPTY')
                        continue
                    rows = [r for r in out.replace('}', '').split('{') if r]
                    if len(rows) != len(shown):
                        # start=2 size=2 with orphan default 0 may extend the window to the end: recompute from output
                        return n, dict(source=src, seq=seq, output=out, expected_rows=len(shown), what='number of displayed elements')
                    starts = 0
                    for pos, (i, row) in enumerate(zip(shown, rows)):
                        cells = dict(c.split('=', 1) for c in row.split(';') if c)
                        want = oracle(i, L, pos == 0, window[-1])
                        if cells.get('item') != seq[i]:
                            return n, dict(source=src, seq=seq, element=i, variable='sequence-item', got=cells.get('item'), want=seq[i])
                        for nm in NAMES:
                            got = cells[nm]
                            if nm == 'start':
                                # true only on the first displayed element (it may be false there when a refused
                                # element preceded it in a batch)
                                if got not in ('0', '1') or (got == '1' and pos != 0):
                                    return n, dict(source=src, seq=seq, element=i, variable='sequence-start', got=got,
                                                   want='true only on the first displayed element')
                                if not denied and got != want['start']:
                                    return n, dict(source=src, seq=seq, element=i, variable='sequence-start', got=got, want=want['start'])
                            elif got != want[nm]:
                                return n, dict(source=src, seq=seq, element=i, variable='sequence-' + nm, got=got, want=want[nm])
                            if prefix and cells['p_' + nm] != got:
                                return n, dict(source=src, seq=seq, element=i, variable='%s_%s' % (prefix, nm), got=cells['p_' + nm],
                                               want=got, what='prefix alias differs from sequence-' + nm)
    # element kinds: objects, mappings, 2-tuples; binding and per-item variables
    for L in range(1, maxL + 1):
        xs = [('a', 'a', 'b', 'b', 'c')[i % 5] for i in range(L)]
        runs_first = [i == 0 or xs[i] != xs[i - 1] for i in range(L)]
        runs_last = [i == L - 1 or xs[i] != xs[i + 1] for i in range(L)]
        body = '{<dtml-var sequence-var-x>,<dtml-if first-x>F</dtml-if>,<dtml-if last-x>L</dtml-if>,%s}'
        cases = [
            ('objects', [Obj(x) for x in xs], '', body % '<dtml-var x>'),
            ('mappings', [dict(x=x) for x in xs], ' mapping', body % '<dtml-var x>'),
            ('pairs of objects', [('k%d' % i, Obj(x)) for i, x in enumerate(xs)], '', body % '<dtml-var x>/<dtml-var sequence-key>'),
            ('objects no_push_item', [Obj(x) for x in xs], ' no_push_item', body % '<dtml-var x missing=HIDDEN>'),
        ]
        for label, seq, attrs, b in cases:
            src = '<dtml-in seq%s>%s</dtml-in>after=<dtml-var x missing=GONE>' % (attrs, b)
            n += 1
            try:
                out = HTML(src)(seq=seq)
            except Exception as e:  # noqa
                return n, dict(source=src, kind=label, raised=repr(e))
            want = ''
            for i, x in enumerate(xs):
                vis = x
                if label == 'pairs of objects':
                    vis = '%s/k%d' % (x, i)
                if label == 'objects no_push_item':
                    vis = 'HIDDEN'
                want += '{%s,%s,%s,%s}' % (x, 'F' if runs_first[i] else '', 'L' if runs_last[i] else '', vis)
            want += 'after=GONE'
            if out != want:
                return n, dict(source=src, kind=label, output=out, expected=want)
    return n, None


def native_for(oid, model):
    n, fail = search()
    if fail:
        return dict(holds=False, inputs=fail, observed='a documented sequence variable / binding differs from its documented value',
                    cases_tried=n)
    return dict(holds=True, cases_tried=n, note='bounded native search found no failing input')


if __name__ == '__main__':
    print(search())
