"""Native replay / bounded search for C12 on the real code (bounded stand-in, never counted as proof):
batched dtml-in over counting iterators (bounded and unbounded)."""
import itertools


class PullLimit(BaseException):
    """an unbounded producer was asked for far more elements than any window needs (BaseException so that
    no ``except Exception`` of the code under test swallows it)"""


LIMIT = 400


class Counting:
    def __init__(self, n=None):
        self.n = n
        self.pulled = []

    def __iter__(self):
        i = 0
        while self.n is None or i < self.n:
            i += 1
            if self.n is None and i > LIMIT:
                raise PullLimit(i)
            self.pulled.append(i)
            yield i


def search():
    from DocumentTemplate.DT_HTML import HTML
    n = 0
    for L in (None, 3, 7, 20):
        for start, size, orphan in itertools.product((None, 1, 2, 5), (None, 1, 3), (None, 0, 1, 2)):
            if start is None and size is None:
                continue
            attrs = ' '.join('%s=%d' % (k, v) for k, v in (('start', start), ('size', size), ('orphan', orphan)) if v is not None)
            src = '<dtml-in seq %s>[<dtml-var sequence-item>]</dtml-in>' % attrs
            c = Counting(L)
            n += 1
            try:
                out = HTML(src)(seq=iter(c))
            except PullLimit:
                return n, dict(source=src, length=L, pulled='more than %d elements of an unbounded producer' % LIMIT)
            except Exception as e:  # noqa
                return n, dict(source=src, length=L, raised=repr(e))
            shown = [int(x) for x in out.replace('[', ' ').replace(']', ' ').split()]
            sz = size if size else 7
            end = shown[-1] if shown else 0
            bound = end + sz + (orphan or 0)
            if c.pulled != list(range(1, len(c.pulled) + 1)) or (len(c.pulled) > bound and (L is None or len(c.pulled) < L or bound < L)):
                if not (L is not None and len(c.pulled) <= L and len(c.pulled) <= max(bound, 0) + 0):
                    if len(c.pulled) > bound:
                        return n, dict(source=src, length=L, pulled=len(c.pulled), bound=bound, shown=shown)
    # unbatched: each element exactly once
    c = Counting(9)
    n += 1
    HTML('<dtml-in seq><dtml-var sequence-item></dtml-in>')(seq=iter(c))
    if c.pulled != list(range(1, 10)):
        return n, dict(source='unbatched', pulled=c.pulled)
    # name form: the body sees the same memoising wrapper
    c = Counting(None)
    n += 1
    try:
        out = HTML('<dtml-in seq size=2 orphan=0>[<dtml-var sequence-item>:<dtml-in seq size=1 orphan=0><dtml-var sequence-item></dtml-in>]</dtml-in>')(seq=iter(c))
    except PullLimit:
        return n, dict(source='nested by name', pulled='more than %d elements of an unbounded producer' % LIMIT)
    if len(c.pulled) > 2 + 2 + 0 or out != '[1:1][2:1]':
        return n, dict(source='nested by name', pulled=len(c.pulled), output=out)
    # previous-batches is not an excepted request: a non-first batch of a lazy producer that lists them
    for L in (None, 40):
        for start, size, orphan, overlap in ((4, 3, 0, 0), (7, 3, 1, 1), (5, 2, 0, 1)):
            src = ('<dtml-in seq start=%d size=%d orphan=%d overlap=%d>[<dtml-var sequence-item>]<dtml-if sequence-start>'
                   '<dtml-in previous-batches mapping>(<dtml-var batch-start-index>-<dtml-var batch-end-index>)</dtml-in>'
                   '</dtml-if></dtml-in>' % (start, size, orphan, overlap))
            c = Counting(L)
            n += 1
            try:
                HTML(src)(seq=iter(c))
            except PullLimit:
                return n, dict(source=src, length=L, pulled='more than %d elements of an unbounded producer' % LIMIT)
            bound = start + size - 1 + size + orphan
            if len(c.pulled) > bound:
                return n, dict(source=src, length=L, pulled=len(c.pulled), bound=bound)
    return n, None


def native_for(oid, model):
    n, fail = search()
    if fail:
        return dict(holds=False, inputs=fail, observed='more elements pulled than the window plus one look-ahead batch', cases_tried=n)
    return dict(holds=True, cases_tried=n, note='bounded native search found no failing input')


if __name__ == '__main__':
    print(search())
