"""Native replay / bounded search for C17 on the real code (bounded stand-in, never counted as proof): histories of
{render with namespace i, pickle round trip, deep copy, munge to source j, cook} against a freshly built template."""
import copy
import itertools
import pickle

SOURCES = [
    'A<dtml-var x>B<dtml-in seq sort_expr="key" mapping>[<dtml-var a><dtml-var b>]</dtml-in><dtml-if y>Y<dtml-else>N</dtml-if>',
    '<dtml-let z="x"><dtml-var z upper></dtml-let><dtml-in seq start=s size=2 mapping>(<dtml-var a>)</dtml-in><dtml-var d missing="-">',
]


def namespaces():
    return [dict(x='one', y=1, key='a', s=1, seq=[dict(a=2, b=1), dict(a=1, b=2), dict(a=3, b=0)]),
            dict(x='two', y=0, key='b', s=2, seq=[dict(a=2, b=1), dict(a=1, b=2), dict(a=3, b=0)]),
            dict(x='', y=None, key='a', s=3, seq=[])]


def fresh(src, defaults):
    from DocumentTemplate.DT_HTML import HTML
    return HTML(src, dict(defaults), d='dflt') if defaults is not None else HTML(src)


def render(t, i):
    ns = namespaces()[i]
    keep = copy.deepcopy(ns)
    mapping = {'m': 1}
    out = t(None, mapping, **ns)
    if ns != keep or mapping != {'m': 1}:
        return None, 'the rendering modified its arguments: %r' % (ns,)
    return out, None


def search(big=False):
    from DocumentTemplate.DT_HTML import HTML
    ops = ['r0', 'r1', 'r2', 'pickle', 'deepcopy', 'munge0', 'munge1', 'cook']
    n = 0
    maxlen = 4 if big else 3
    for L in range(1, maxlen + 1):
        for hist in itertools.product(ops, repeat=L):
            n += 1
            defaults = {'d': 'mapping-default', 'e': 1}
            t = fresh(SOURCES[0], defaults)
            cur = 0
            for op in hist:
                if op[0] == 'r':
                    out, err = render(t, int(op[1]))
                    if err:
                        return n, dict(history=hist, what=err)
                    want, _ = render(fresh(SOURCES[cur], defaults), int(op[1]))
                    if out != want:
                        return n, dict(history=hist, operation=op, output=out, expected=want, what='differs from a freshly built template')
                elif op == 'pickle':
                    state = pickle.dumps(t)
                    if b'_v_blocks' in state or b'_v_cooked' in state:
                        return n, dict(history=hist, what='compiled data in the pickle')
                    t = pickle.loads(state)
                elif op == 'deepcopy':
                    t = copy.deepcopy(t)
                elif op.startswith('munge'):
                    cur = int(op[5])
                    t.munge(SOURCES[cur])
                elif op == 'cook':
                    t.cook()
                if t.globals.get('d') != 'dflt' or dict(defaults) != {'d': 'mapping-default', 'e': 1}:
                    return n, dict(history=hist, what='defaults modified', globals=dict(t.globals))
    # munge with an (empty) mapping replaces the defaults like construction does
    n += 1
    t = HTML('<dtml-var d missing="-">', {'d': 'old'})
    t.munge(None, {})
    if t() != HTML('<dtml-var d missing="-">', {})():
        return n, dict(what='munge with an empty mapping keeps the old defaults', output=t())
    # file-based template pickles its name
    import os
    import tempfile
    from DocumentTemplate.DT_HTML import HTMLFile
    with tempfile.NamedTemporaryFile('w', suffix='.dtml', delete=False) as fh:
        fh.write('file <dtml-var x>')
        path = fh.name
    try:
        n += 1
        f = HTMLFile(path)
        f(x=1)
        st = pickle.dumps(f)
        if b'file <dtml' in st or path.encode() not in st:
            return n, dict(what='file template pickled its content / not its name')
        if pickle.loads(st)(x=2) != 'file 2':
            return n, dict(what='unpickled file template renders differently')
    finally:
        os.unlink(path)
    return n, None


def cross_template_search():
    """what one template renders does not depend on which OTHER templates were compiled or rendered before it"""
    from DocumentTemplate.DT_HTML import HTML
    from DocumentTemplate.DT_String import String
    n = 0
    # (compiled first, then this class, source, what the second must render: the source is plain text for it)
    for first, second, src in ((HTML, String, 'Dear <dtml-var v>, c17a'), (String, HTML, 'Dear %(v)s, c17b'),
                               (HTML, String, '<dtml-if t>y</dtml-if> c17c'), (String, HTML, '%(if t)[y%(if)] c17d')):
        n += 1
        try:
            first(src)(v='V', t=1)
        except Exception:
            pass
        try:
            after = second(src)(v='V', t=1)
        except Exception as e:  # noqa
            after = 'EXC ' + type(e).__name__
        if after != src:
            return n, dict(source=src, cls=second.__name__, other_template_compiled_first=first.__name__, output=after, expected=src)
    return n, None


def native_for(oid, model):
    n, fail = cross_template_search()
    if fail:
        return dict(holds=False, inputs=fail, observed='a fresh template renders differently after another template was compiled', cases_tried=n)
    n, fail = search()
    if fail:
        return dict(holds=False, inputs=fail, observed='a history of operations changes what the template renders', cases_tried=n)
    return dict(holds=True, cases_tried=n, note='bounded native search found no failing input')


if __name__ == '__main__':
    print(search())
