"""Native replay / bounded search for C09 on the real code: every if/elif/else chain of 1..N named
conditions (with empty and non-empty bodies), every truth assignment over {True, 0, None, '', undefined},
counting callables; plus unless and call.  Bounded stand-in, never counted as proof."""
import itertools


def search(max_conds=3):
    from DocumentTemplate.DT_HTML import HTML
    n = 0
    vals = [('T', 1), ('Z', 0), ('N', None), ('E', ''), ('U', 'undefined')]
    for nc in range(1, max_conds + 1):
        for has_else in (0, 1):
            for empties in itertools.product((0, 1), repeat=nc):
                parts = []
                for i in range(nc):
                    tag = 'if' if i == 0 else 'elif'
                    body = '' if empties[i] else '[b%d:<dtml-var c%d>:<dtml-if c%d>y<dtml-else>n</dtml-if><dtml-unless c%d>u</dtml-unless><dtml-call c%d>:<dtml-var c%d>]' % (i, i, i, i, i, i)
                    parts.append('<dtml-%s c%d>%s' % (tag, i, body))
                if has_else:
                    parts.append('<dtml-else>[else:' + ''.join('<dtml-var c%d missing="">' % i for i in range(nc)) + ']')
                src = ''.join(parts) + '</dtml-if>'
                t = HTML(src)
                for assign in itertools.product(vals, repeat=nc):
                    calls = [0] * nc
                    ns = {}
                    for i, (tag, v) in enumerate(assign):
                        if tag == 'U':
                            continue

                        def f(i=i, v=v):
                            calls[i] += 1
                            return v
                        ns['c%d' % i] = f
                    n += 1
                    try:
                        out = t(**ns) if ns else t()
                    except Exception as e:  # noqa
                        out = 'EXC:%r' % (e,)
                    first = next((i for i, (tag, v) in enumerate(assign) if tag == 'T'), None)
                    if first is not None:
                        want = '' if empties[first] else '[b%d:1:y:1]' % first
                        want_calls = [1 if (i <= first and assign[i][0] != 'U') else 0 for i in range(nc)]
                    else:
                        if has_else:
                            want = '[else:' + ''.join('' if assign[i][0] in ('U', 'E') else str(assign[i][1])
                                                       for i in range(nc)) + ']'
                        else:
                            want = ''
                        want_calls = [0 if assign[i][0] == 'U' else 1 for i in range(nc)]
                    if out != want or calls != want_calls:
                        return n, dict(source=src, values=[a[0] for a in assign], output=out, expected=want,
                                       calls=calls, expected_calls=want_calls)
    # unless / call
    for tag, v in vals:
        calls = [0]

        def g(v=v):
            calls[0] += 1
            return v
        ns = {} if tag == 'U' else {'c': g}
        n += 1
        out = HTML('<dtml-unless c>U<dtml-var c missing="m"></dtml-unless>|<dtml-call c>')(**ns) if tag != 'U' else None
        if tag == 'U':
            out = HTML('<dtml-unless c>U</dtml-unless>')()
            if out != 'U':
                return n, dict(source='unless undefined', output=out)
            continue
        want = '|' if tag == 'T' else ('U' + ('' if v == '' else str(v)) + '|')
        if out != want or calls[0] != 2:
            return n, dict(source='unless/call', value=tag, output=out, expected=want, calls=calls[0], expected_calls=2)
    return n, None


def native_for(oid, model):
    n, fail = search(3)
    if fail:
        return dict(holds=False, inputs=fail, observed='conditional rendered / evaluated differently from the property', cases_tried=n)
    return dict(holds=True, cases_tried=n, note='bounded native search found no failing input')


if __name__ == '__main__':
    print(search(3))
