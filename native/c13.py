"""Native replay / bounded search for C13 on the real code (bounded stand-in, never counted as proof): dtml-in with
sort / sort_expr / reverse over small lists, keys of several types, against an independent oracle (sorted() with the
property's key rules)."""
import datetime
import decimal
import functools
import itertools


class Obj:
    def __init__(self, ident, **kw):
        self.ident = ident
        self.__dict__.update(kw)

    def __repr__(self):
        return 'Obj(%s)' % self.ident


class Meth(Obj):
    def __init__(self, ident, val):
        self.ident = ident
        self._val = val

    def k(self):
        return self._val


def _first(x):
    """None / missing first (mutual order unspecified -> we only use at most one None per key type set)"""
    return (0, 0) if x is None else (1, x)


def oracle(items, getkeys, specs):
    """specs: list of (nocase, desc) per key"""
    def cmp(a, b):
        for (nocase, desc), x, y in zip(specs, getkeys(a), getkeys(b)):
            if x is None or y is None:
                c = (x is not None) - (y is not None)
            else:
                if nocase:
                    x, y = x.lower(), y.lower()
                c = (x > y) - (x < y)
            if c:
                return -c if desc else c
        return 0
    return sorted(items, key=functools.cmp_to_key(cmp))


KEYSETS = {
    'int': [3, 1, 2, 1, None],
    'str': ['b', 'a', 'B', 'a', None],
    'float': [0.5, 0.25, 0.75, 0.25, None],
    'bool': [True, False, True, False],
    'date': [datetime.date(2020, 1, 3), datetime.date(2020, 1, 1), datetime.date(2020, 1, 2), datetime.date(2020, 1, 1)],
    'Decimal': [decimal.Decimal(3), decimal.Decimal(1), decimal.Decimal(2), decimal.Decimal(1)],
}


def search(big=False):
    from DocumentTemplate.DT_HTML import HTML
    n = 0
    for tname, keys in KEYSETS.items():
        for L in range(0, len(keys) + 1):
            for perm in ([tuple(range(L))] if not big else list(itertools.permutations(range(L)))[:24]):
                vals = [keys[i] for i in perm]
                for mapping in (False, True):
                    for reverse in (False, True):
                        for form in ('attr', 'callable') if not mapping else ('attr',):
                            if form == 'callable':
                                objs = [Meth(i, v) for i, v in enumerate(vals)]
                            else:
                                objs = [Obj(i, k=v) for i, v in enumerate(vals)]
                            seq = [dict(ident=o.ident, k=o.k) for o in objs] if mapping else list(objs)
                            before = list(seq)
                            src = '<dtml-in seq sort=k%s%s>[<dtml-var ident>]</dtml-in>' % (' mapping' if mapping else '', ' reverse' if reverse else '')
                            n += 1
                            try:
                                out = HTML(src)(seq=seq)
                            except Exception as e:  # noqa
                                return n, dict(source=src, keys=repr(vals), raised=repr(e))
                            want = oracle(list(range(len(vals))), lambda i: (vals[i],), [(False, False)])
                            if reverse:
                                want = want[::-1]
                            exp = ''.join('[%d]' % i for i in want)
                            if out != exp:
                                return n, dict(source=src, key_type=tname, keys=repr(vals), form=form, output=out, expected=exp)
                            if seq != before or any(a is not b for a, b in zip(seq, before)):
                                return n, dict(source=src, keys=repr(vals), what="the caller's list was modified")
    # two keys, comparison functions and directions; sort_expr; 2-tuples; empty sort
    A = ['x', 'X', 'y', 'x']
    B = [2, 1, 1, 1]
    objs = [Obj(i, a=a, b=b) for i, (a, b) in enumerate(zip(A, B))]
    cases = [
        ('a,b', [(False, False), (False, False)]), ('a/nocase,b', [(True, False), (False, False)]),
        ('a/nocase,b/cmp/desc', [(True, False), (False, True)]), ('a/cmp/desc,b', [(False, True), (False, False)]),
        ('b,a/nocase/desc', None),
    ]
    for spec, sp in cases:
        for reverse in (False, True):
            src = '<dtml-in seq sort="%s"%s>[<dtml-var ident>]</dtml-in>' % (spec, ' reverse' if reverse else '')
            n += 1
            try:
                out = HTML(src)(seq=list(objs))
            except Exception as e:  # noqa
                return n, dict(source=src, raised=repr(e))
            if sp is None:
                want = oracle(list(range(4)), lambda i: (B[i], A[i]), [(False, False), (True, True)])
            else:
                want = oracle(list(range(4)), lambda i: (A[i], B[i]), sp)
            if reverse:
                want = want[::-1]
            exp = ''.join('[%d]' % i for i in want)
            if out != exp:
                return n, dict(source=src, output=out, expected=exp)
    for src, seq, exp in (
            ('<dtml-in seq sort=sequence-item>[<dtml-var sequence-item>]</dtml-in>', [3, 1, 2], '[1][2][3]'),
            ('<dtml-in seq sort>[<dtml-var sequence-key>=<dtml-var sequence-item>]</dtml-in>', [('b', 1), ('a', 2)], '[a=2][b=1]'),
            ('<dtml-in seq sort_expr="which" mapping>[<dtml-var k>]</dtml-in>', None, None),
            ('<dtml-in seq reverse>[<dtml-var sequence-item>]</dtml-in>', [3, 1, 2], '[2][1][3]'),
            ('<dtml-in seq sort=sequence-item reverse size=2>[<dtml-var sequence-item>]</dtml-in>', [3, 1, 2], '[3][2]')):
        n += 1
        if seq is None:
            seq = [dict(k=2, j=1), dict(k=1, j=2)]
            out = HTML(src)(seq=seq, which='k') + HTML(src)(seq=seq, which='j')
            exp = '[1][2][2][1]'
        else:
            keep = list(seq)
            out = HTML(src)(seq=seq)
            if seq != keep:
                return n, dict(source=src, what="the caller's list was modified")
        if out != exp:
            return n, dict(source=src, output=out, expected=exp)
    return n, None


def native_for(oid, model):
    n, fail = search()
    if fail:
        return dict(holds=False, inputs=fail, observed='order shown differs from the stable key order the property describes', cases_tried=n)
    return dict(holds=True, cases_tried=n, note='bounded native search found no failing input')


if __name__ == '__main__':
    print(search())
