"""Native replay / bounded search for C03 on the real code (bounded stand-in, never counted as proof): every single code
point and strings over an alphabet dense in & < > " ' through every insertion form."""
import html
import itertools


def forms():
    from DocumentTemplate.DT_HTML import HTML
    return [('&dtml-x;', HTML('&dtml-x;')), ('<dtml-var x html_quote>', HTML('<dtml-var x html_quote>')),
            ('<dtml-var x html_quote null="">', HTML('<dtml-var x html_quote null="">')),
            ('<dtml-var x fmt=html-quote>', HTML('<dtml-var x fmt=html-quote>')),
            ('<!--#var x html_quote-->', HTML('<!--#var x html_quote-->'))]


def search(big=False):
    from DocumentTemplate.DT_HTML import HTML
    fs = forms()
    plain = HTML('<dtml-var x>')
    n = 0

    def one(v):
        want = html.escape(v, 1)
        for src, t in fs:
            out = t(x=v)
            if out != want:
                return dict(source=src, value=repr(v), output=repr(out), expected=repr(want))
            if html.unescape(out) != v:
                return dict(source=src, value=repr(v), what='unescaping the output does not give the value back')
            for ch in '<>"\'':
                if ch in out:
                    return dict(source=src, value=repr(v), what='%r reaches the output unescaped' % ch)
        if plain(x=v) != v:
            return dict(source='<dtml-var x>', value=repr(v), output=repr(plain(x=v)))
        return None
    step = 1 if big else 1
    for cp in range(0, 0x110000, step):
        if 0xD800 <= cp <= 0xDFFF:
            continue
        if not big and cp > 0x3000 and cp % 97:
            continue
        n += 1
        f = one(chr(cp))
        if f:
            return n, f
    alpha = ['&', '<', '>', '"', "'", 'a', 'é', '\U0001F600', ';', '#']
    for L in range(0, 5 if big else 4):
        for t in itertools.product(alpha, repeat=L):
            n += 1
            f = one(''.join(t))
            if f:
                return n, f
    # bytes in the template's encoding
    for v in ('é<b>', "it's", 'plain'):
        n += 1
        out = HTML('&dtml-x;', encoding='utf-8')(x=v.encode('utf-8'))
        out = out.decode('utf-8') if isinstance(out, bytes) else out
        if out != html.escape(v, 1):
            return n, dict(source='&dtml-x; (bytes value, utf-8 template)', value=repr(v), output=repr(out), expected=html.escape(v, 1))
    return n, None


def native_for(oid, model):
    n, fail = search()
    if fail:
        return dict(holds=False, inputs=fail, observed='inserted text differs from html.escape(value, quote=True)', cases_tried=n)
    return dict(holds=True, cases_tried=n, note='bounded native search found no failing input')


if __name__ == '__main__':
    print(search())
