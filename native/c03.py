"""Native replay / bounded search for C03 on the real code (bounded stand-in, never counted as proof): every single code
point and strings over an alphabet dense in & < > " ' through every insertion form."""
import html
import itertools


def forms(x='x'):
    from DocumentTemplate.DT_HTML import HTML
    return [(f, HTML(f)) for f in ('&dtml-%s;' % x, '<dtml-var %s html_quote>' % x, '<dtml-var %s html_quote null="">' % x,
                                   '<dtml-var %s fmt=html-quote>' % x, '<!--#var %s html_quote-->' % x)]


def name_search(name):
    """the forms with another variable name (taken from a solver counter-model): a small value set"""
    import re
    from DocumentTemplate.DT_HTML import HTML
    from DocumentTemplate.DT_String import String
    if not re.fullmatch(r'[A-Za-z][A-Za-z0-9_]*', name or ''):
        return 0, None
    n = 0
    plains = [(src, cls(src)) for cls, src in ((HTML, '<dtml-var %s>' % name), (HTML, '<dtml-var name="%s">' % name),
                                               (HTML, '<!--#var %s-->' % name), (String, '%%(%s)s' % name))]
    for v in ('a<b', 'x&y', '"q"', "it's", 'plain', ''):
        want = html.escape(v, 1)
        for src, t in forms(name):
            n += 1
            out = t(**{name: v})
            if out != want:
                return n, dict(source=src, value=repr(v), output=repr(out), expected=repr(want))
        for src, t in plains:
            n += 1
            out = t(**{name: v})
            if out != v:
                return n, dict(source=src, value=repr(v), output=repr(out), expected=repr(v), what='plain insertion altered an ordinary string')
    return n, None


def search(big=False):
    from DocumentTemplate.DT_HTML import HTML
    fs = forms()
    plain = HTML('<dtml-var x>')
    n = 0

    def one(v):
        want = html.escape(v, 1)
        for src, t in fs:
            out = t(x=v)
            if out != want:
                return dict(source=src, value=repr(v), output=repr(out), expected=repr(want))
            if html.unescape(out) != v:
                return dict(source=src, value=repr(v), what='unescaping the output does not give the value back')
            for ch in '<>"\'':
                if ch in out:
                    return dict(source=src, value=repr(v), what='%r reaches the output unescaped' % ch)
        if plain(x=v) != v:
            return dict(source='<dtml-var x>', value=repr(v), output=repr(plain(x=v)))
        return None
    step = 1 if big else 1
    for cp in range(0, 0x110000, step):
        if 0xD800 <= cp <= 0xDFFF:
            continue
        if not big and cp > 0x3000 and cp % 97:
            continue
        n += 1
        f = one(chr(cp))
        if f:
            return n, f
    alpha = ['&', '<', '>', '"', "'", 'a', 'é', '\U0001F600', ';', '#']
    for L in range(0, 5 if big else 4):
        for t in itertools.product(alpha, repeat=L):
            n += 1
            f = one(''.join(t))
            if f:
                return n, f
    # bytes in the template's encoding
    for v in ('é<b>', "it's", 'plain'):
        n += 1
        out = HTML('&dtml-x;', encoding='utf-8')(x=v.encode('utf-8'))
        out = out.decode('utf-8') if isinstance(out, bytes) else out
        if out != html.escape(v, 1):
            return n, dict(source='&dtml-x; (bytes value, utf-8 template)', value=repr(v), output=repr(out), expected=html.escape(v, 1))
    return n, None


def native_for(oid, model):
    n, fail = 0, None
    nm = (model or {}).get('varname')
    if isinstance(nm, str):
        n, fail = name_search(nm.strip('"'))
    if not fail:
        k, fail = search()
        n += k
    if fail:
        return dict(holds=False, inputs=fail, observed='inserted text differs from html.escape(value, quote=True)', cases_tried=n)
    return dict(holds=True, cases_tried=n, note='bounded native search found no failing input')


if __name__ == '__main__':
    print(search())
