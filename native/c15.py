"""Native replay / bounded search for C15 on the real code (bounded stand-in, never counted as proof)."""
import itertools
import urllib.parse


def search(big=False):
    from DocumentTemplate.DT_HTML import HTML
    from DocumentTemplate import DT_Var
    n = 0
    # 1. modifier order is independent of the written order; each applied once
    mods = ['lower', 'upper', 'capitalize', 'spacify', 'url_quote', 'url_unquote', 'sql_quote', 'thousands_commas', 'newline_to_br']
    table = ['url_quote', 'url_quote_plus', 'url_unquote', 'url_unquote_plus', 'newline_to_br', 'lower', 'upper', 'capitalize',
             'spacify', 'thousands_commas', 'sql_quote']
    fun = dict(lower=str.lower, upper=str.upper, capitalize=str.capitalize, spacify=lambda s: s.replace('_', ' '),
               url_quote=urllib.parse.quote, url_unquote=urllib.parse.unquote,
               sql_quote=lambda s: s.replace('\x00', '').replace('\x1a', '').replace('\r', '').replace("'", "''"),
               newline_to_br=lambda s: s.replace('\r', '').replace('\n', '<br />\n'),
               thousands_commas=DT_Var.thousands_commas)
    values = ["it's A_b %2541\n1234567.5", 'x_y Z', '%25']
    for k in (1, 2, 3):
        for combo in itertools.combinations(mods, k):
            for perm in itertools.permutations(combo):
                for v in values:
                    src = '<dtml-var x %s>' % ' '.join(perm)
                    n += 1
                    try:
                        out = HTML(src)(x=v)
                    except Exception as e:  # noqa
                        return n, dict(source=src, value=v, raised=repr(e))
                    want = v
                    for m in table:
                        if m in combo:
                            want = fun[m](want)
                    if out != want:
                        return n, dict(source=src, value=v, output=out, expected=want, what='fixed modifier order / each modifier once')
                if not big and k == 3:
                    break
    # 2. truncation
    for v in ('', 'abc', 'hello world', 'a b c d e f', 'no_blanks_here', 'x ' * 6, ' lead'):
        for size in range(0, len(v) + 3):
            for etc in (None, '', '...', '>>'):
                src = '<dtml-var x size=%d%s>' % (size, '' if etc is None else ' etc="%s"' % etc)
                n += 1
                out = HTML(src)(x=v)
                e = '...' if etc is None else etc
                if len(v) <= size:
                    want = v
                else:
                    cut = v[:size]
                    pos = cut.rfind(' ')
                    if pos > size / 2:
                        cut = cut[:pos + 1]
                    want = cut + e
                if out != want:
                    return n, dict(source=src, value=v, output=out, expected=want, what='size/etc truncation')
    # 3. null / missing
    for v, shown in ((None, 'N'), ('', 'N'), ([], 'N'), (0, '0'), (0.0, '0.0'), ('a', 'a'), (False, 'False')):   # False == 0: 'false but not 0' does not apply
        n += 1
        out = HTML('<dtml-var x null="N">')(x=v)
        if out != shown:
            return n, dict(source='<dtml-var x null="N">', value=repr(v), output=out, expected=shown)
    n += 1
    if HTML('<dtml-var nope missing="M">')() != 'M':
        return n, dict(source='<dtml-var nope missing="M">', what='missing=')
    # 4. sql_quote: no NUL / Ctrl-Z / CR, every quote doubled (quote runs even)
    alpha = ["'", 'a', '\x00', '\r', '\x1a']
    for L in range(0, 6 if big else 5):
        for t in itertools.product(alpha, repeat=L):
            s = ''.join(t)
            n += 1
            r = DT_Var.sql_quote(s)
            runs = [len(x) for x in r.replace('a', ' ').split() if x]
            if any(c in r for c in '\x00\r\x1a') or any(k % 2 for k in runs) or r.replace("''", "'") != s.replace('\x00', '').replace('\r', '').replace('\x1a', ''):
                return n, dict(function='sql_quote', value=repr(s), output=repr(r))
    # 5. thousands_commas groups the digits of the integer part
    for i in list(range(0, 3000, 7)) + [10 ** k + d for k in range(3, 13) for d in (-1, 0, 1)]:
        for suffix in ('', '.5', '.25'):
            n += 1
            r = DT_Var.thousands_commas(str(i) + suffix)
            if r != '{:,}'.format(i) + suffix:
                return n, dict(function='thousands_commas', value=str(i) + suffix, output=r, expected='{:,}'.format(i) + suffix)
    # 5b. thousands_commas only inserts commas: deleting them gives the original text back (any text, not only numbers)
    for t in ('1234567.', 'Hello.', '.', '1.2.3', '1234..5', '.5', 'x1234.5y', 'Total: 12000.', '', '1000', '-1000.', '1000.0.', 'a.b.'):
        n += 1
        r = DT_Var.thousands_commas(t)
        if r.replace(',', '') != t:
            return n, dict(function='thousands_commas', value=t, output=r, what='characters other than commas were added or removed')
        out = HTML('<dtml-var x thousands_commas>')(x=t)
        if out != r:
            return n, dict(source='<dtml-var x thousands_commas>', value=t, output=out, expected=r)
    # 6. unquote inverts quote through the tag
    for v in ('%41', 'a b+c', '100%', 'x/y?z=1&w=2', 'é<>'):
        n += 1
        q = urllib.parse.quote(v)
        if HTML('<dtml-var q url_unquote>')(q=q) != v:
            return n, dict(source='<dtml-var q url_unquote>', value=q, expected=v, output=HTML('<dtml-var q url_unquote>')(q=q))
        qp = urllib.parse.quote_plus(v)
        if HTML('<dtml-var q url_unquote_plus>')(q=qp) != v:
            return n, dict(source='<dtml-var q url_unquote_plus>', value=qp, expected=v)
    return n, None


def native_for(oid, model):
    n, fail = search()
    if fail:
        return dict(holds=False, inputs=fail, observed='dtml-var output differs from the documented pipeline', cases_tried=n)
    return dict(holds=True, cases_tried=n, note='bounded native search found no failing input')


if __name__ == '__main__':
    print(search())
