"""Native replay / bounded search for C02 on the real code (bounded stand-in, never counted as proof):
all 63 non-empty subsets of the six sources defining a name; scoping blocks; called vs uncalled."""
import itertools


class Client:
    pass


def search():
    from DocumentTemplate.DT_HTML import HTML
    n = 0
    # precedence: kw > _vars > client(last of tuple first) > mapping > ctor kw > ctor mapping
    order = ['kw', 'vars', 'client2', 'client1', 'mapping', 'ckw', 'cmap']
    for r in range(1, len(order) + 1):
        for subset in itertools.combinations(order, r):
            ckw = {'x': 'ckw'} if 'ckw' in subset else {}
            cmap = {'x': 'cmap'} if 'cmap' in subset else {}
            t = HTML('<dtml-var x>', cmap, **ckw)
            if 'vars' in subset:
                t.var(x='vars')
            c1, c2 = Client(), Client()
            if 'client1' in subset:
                c1.x = 'client1'
            if 'client2' in subset:
                c2.x = 'client2'
            mapping = {'x': 'mapping'} if 'mapping' in subset else {}
            kw = {'x': 'kw'} if 'kw' in subset else {}
            n += 1
            out = t((c1, c2), mapping, **kw)
            want = next(s for s in order if s in subset)
            if out != want:
                return n, dict(sources=list(subset), output=out, expected=want)
    cases = [
        ('<dtml-let x="1"><dtml-with w><dtml-var x></dtml-with><dtml-var x></dtml-let><dtml-var x>', 'w1o'),
        ('<dtml-in seq><dtml-var x></dtml-in><dtml-var x>', 'abo'),
        ('<dtml-if c><dtml-var c></dtml-if>', '1'),
        ('<dtml-try><dtml-raise KeyError>m</dtml-raise><dtml-except><dtml-var error_type></dtml-try><dtml-var error_type missing="-">', 'KeyError-'),
        ('<dtml-with w only><dtml-var x><dtml-var y missing="-"></dtml-with><dtml-var y>', 'w-Y'),
        ('<dtml-let a=f b="f"><dtml-var a><dtml-var "b()"></dtml-let>', 'FF'),
        ('<dtml-let a="1" b="a+1"><dtml-var b></dtml-let>', '2'),
    ]
    calls = []

    def f():
        calls.append(1)
        return 'F'

    class W:
        x = 'w'

    class I:
        def __init__(self, v):
            self.x = v
    for src, want in cases:
        n += 1
        cnt = [0]

        def c():
            cnt[0] += 1
            return 1
        out = HTML(src)(x='o', y='Y', w=W(), seq=[I('a'), I('b')], c=c, f=f)
        if out != want:
            return n, dict(source=src, output=out, expected=want)
    # sub-template sees caller's namespace with its own defaults on top
    inner = HTML('<dtml-var a>/<dtml-var b>', b='innerdefault')
    n += 1
    out = HTML('<dtml-let a="1"><dtml-var inner></dtml-let>')(inner=inner, b='outer')
    if out != '1/innerdefault':
        return n, dict(source='subtemplate', output=out, expected='1/innerdefault')
    # ... also when the template invoked by name is the one being rendered (recursion): its defaults go on top again
    node = HTML('[<dtml-var label><dtml-in kids mapping>(<dtml-var label>)<dtml-var node></dtml-in>]', label='D')
    n += 1
    out = node(node=node, kids=[{'label': 'a', 'kids': [{'label': 'a1', 'kids': []}]}, {'label': 'b', 'kids': []}])
    if out != '[D(a)[D(a1)[D]](b)[D]]':
        return n, dict(source='recursive subtemplate with defaults', output=out, expected='[D(a)[D(a1)[D]](b)[D]]')
    ta = HTML('A:<dtml-var v>;<dtml-if go><dtml-var B></dtml-if>', v='Ad')
    tb = HTML('B:<dtml-var v>;<dtml-let v="\'let\'" go="0"><dtml-var A></dtml-let>', v='Bd')
    n += 1
    out = ta(A=ta, B=tb, go=1)
    if out != 'A:Ad;B:Bd;A:Ad;':
        return n, dict(source='indirectly recursive subtemplates', output=out, expected='A:Ad;B:Bd;A:Ad;')
    return n, None


def native_for(oid, model):
    n, fail = search()
    if fail:
        return dict(holds=False, inputs=fail, observed='name resolved differently from the documented precedence/scoping', cases_tried=n)
    return dict(holds=True, cases_tried=n, note='bounded native search found no failing input')


if __name__ == '__main__':
    print(search())
