"""Native replay / bounded search for C04 on the real code (bounded stand-in, never counted as proof): tainted values
through every subset of modifiers (up to 3), every special format, C formats, truncation."""
import itertools

MODS = ['html_quote', 'url_quote', 'url_quote_plus', 'url_unquote', 'url_unquote_plus', 'newline_to_br', 'lower', 'upper', 'capitalize',
        'spacify', 'thousands_commas', 'sql_quote']
# recorded known findings: a sanitising modifier followed by its inverse re-creates the raw text after the taint mark is gone
KNOWN = [{'url_quote', 'url_unquote'}, {'url_quote_plus', 'url_unquote_plus'}, {'url_quote', 'url_unquote_plus'}, {'url_quote_plus', 'url_unquote'}]
FORMATS = ['whole-dollars', 'dollars-and-cents', 'collection-length', 'sql-quote', 'html-quote', 'url-quote', 'url-quote-plus', 'url-unquote',
           'url-unquote-plus', 'multi-line', 'comma-numeric', 'dollars-with-commas', 'dollars-and-cents-with-commas']


def leaks(out, marker='<x'):
    return marker in out


def search(big=False):
    from DocumentTemplate.DT_HTML import HTML
    from AccessControl.tainted import TaintedString as T
    n = 0
    values = ['<x>1000', 'a <x y', '%3C<x_', "'<x\n2", 'aaaa <x b c']
    for k in range(0, 4 if big else 3):
        for combo in itertools.combinations(MODS, k):
            if any(kn <= set(combo) for kn in KNOWN):
                continue
            for v in values:
                for extra in ('', ' size=4', ' size=8', ' null="N"', ' fmt="%s"'):
                    for form in ('<dtml-var x %s%s>', '<dtml-var expr="x" %s%s>'):
                        src = form % (' '.join(combo), extra)
                        n += 1
                        try:
                            out = HTML(src)(x=T(v))
                        except Exception:
                            continue        # a rejected value inserts nothing
                        if leaks(out):
                            return n, dict(source=src, value=v, output=out)
    for f in FORMATS:
        for v in values:
            n += 1
            try:
                out = HTML('<dtml-var x fmt=%s>' % f)(x=T(v))
            except Exception:
                continue
            if leaks(out):
                return n, dict(source='<dtml-var x fmt=%s>' % f, value=v, output=out)
    for v in values:
        for src in ('&dtml-x;', '<dtml-var x>', '<!--#var x-->', '&dtml.upper-x;'):
            n += 1
            out = HTML(src)(x=T(v))
            if leaks(out) or ('&amp;lt;' in out):
                return n, dict(source=src, value=v, output=out, what='unescaped or doubly escaped')
        for cf in ('10s', '-10s', 's'):
            n += 1
            from DocumentTemplate.DT_String import String
            out = String('%(x)' + cf)(x=T(v))
            if leaks(out):
                return n, dict(source='%(x)' + cf, value=v, output=out)
    return n, None


def witness(w):
    from DocumentTemplate.DT_HTML import HTML
    from AccessControl.tainted import TaintedString as T
    out = HTML(w['source'])(x=T(w['value']))
    if w.get('kind') == 'double':
        return dict(holds='&amp;lt;' not in out, output=out)
    return dict(holds=not leaks(out, '<'), output=out)


def native_for(oid, model):
    n, fail = search()
    if fail:
        return dict(holds=False, inputs=fail, observed="an unescaped '<' of a tainted value reaches the output", cases_tried=n)
    return dict(holds=True, cases_tried=n, note='bounded native search found no failing input')


if __name__ == '__main__':
    print(search())
    print(witness(dict(source='<dtml-var x url_quote url_unquote>', value='<b>')))
