"""Native replay / bounded search for C18 on the real code (bounded stand-in, never counted as proof): two threads
render one shared template with different inputs; thread A is preempted once, systematically at every line it executes
inside the package, and thread B runs to completion in the gap (all single preemptions at line granularity).  Also the
race to compile: both threads start on an uncooked template."""
import sys
import threading

PKG = ('DocumentTemplate', 'TreeDisplay')
SRC = ('<dtml-in seq sort_expr="key" reverse_expr="rev" mapping>[<dtml-var a><dtml-var b>]</dtml-in>'
       '<dtml-if flag><dtml-var x upper><dtml-else><dtml-var x lower></dtml-if>'
       '<dtml-let y="x + x"><dtml-var y></dtml-let><dtml-with ns mapping><dtml-var z></dtml-with>'
       '<dtml-try><dtml-var expr="1/d"><dtml-except>E</dtml-try><dtml-in seq2 start=s size=2>(<dtml-var sequence-item>)</dtml-in>')


def inputs(i):
    seq = [dict(a=2, b=1), dict(a=1, b=3), dict(a=3, b=2)]
    return [dict(seq=seq, key='a', rev=0, flag=1, x='Ab', ns={'z': 'n1'}, d=1, seq2=[1, 2, 3, 4], s=1),
            dict(seq=seq, key='b', rev=1, flag=0, x='Cd', ns={'z': 'n2'}, d=0, seq2=[5, 6, 7, 8], s=3)][i]


def one_schedule(k, cooked):
    """A is stopped before its k-th package line until B has finished; returns (outA, outB, lines_of_A)"""
    from DocumentTemplate.DT_HTML import HTML
    t = HTML(SRC)
    if cooked:
        t.cook()
    res = {}
    b_done = threading.Event()
    count = [0]

    def run_b():
        try:
            res['B'] = t(**inputs(1))
        except Exception as e:  # noqa
            res['B'] = 'RAISED ' + repr(e)
        b_done.set()

    def tracer(frame, event, arg):
        if event == 'call':
            fn = frame.f_code.co_filename
            return line if any('/%s/' % p in fn for p in PKG) else None
        return None

    def line(frame, event, arg):
        if event == 'line':
            count[0] += 1
            if count[0] == k:
                tb = threading.Thread(target=run_b)
                tb.start()
                b_done.wait(0.3)
        return line

    def run_a():
        sys.settrace(tracer)
        try:
            res['A'] = t(**inputs(0))
        except Exception as e:  # noqa
            res['A'] = 'RAISED ' + repr(e)
        finally:
            sys.settrace(None)
    ta = threading.Thread(target=run_a)
    ta.start()
    ta.join(60)
    if k > count[0]:
        run_b()             # A finished before its k-th line: B simply runs after it
    b_done.wait(30)
    return res.get('A'), res.get('B'), count[0]


def search(big=False):
    from DocumentTemplate.DT_HTML import HTML
    want = [HTML(SRC)(**inputs(0)), HTML(SRC)(**inputs(1))]
    n = 0
    for cooked in (True, False):
        _, _, total = one_schedule(10 ** 9, cooked)
        step = 1 if big else max(1, total // 100)
        for k in range(1, total + 1, step):
            n += 1
            a, b, _ = one_schedule(k, cooked)
            if a != want[0] or b != want[1]:
                return n, dict(preempt_A_before_its_line=k, template_compiled_before=cooked, A=a, A_alone=want[0], B=b, B_alone=want[1])
    return n, None


def native_for(oid, model):
    n, fail = search()
    if fail:
        return dict(holds=False, inputs=fail, observed='a thread obtained a result it would not obtain alone', cases_tried=n)
    return dict(holds=True, cases_tried=n, note='no failing single-preemption schedule found')


if __name__ == '__main__':
    print(search())
