"""Native replay / bounded search for C14 on the real code (bounded stand-in, never counted as proof)."""
import itertools


class Top(Exception):
    pass


class Mid(Top):
    pass


class Leaf(Mid):
    pass


class Other(Exception):
    pass


CLASSES = [Top, Mid, Leaf, Other]


def _raiser(cls, log):
    def f():
        log.append('raise ' + cls.__name__)
        raise cls('boom')
    return f


def search():
    from DocumentTemplate.DT_HTML import HTML
    n = 0
    names = ['Top', 'Mid', 'Leaf', 'Other', '']
    # handler selection: every list of 1..3 distinct handler names x raised class
    for k in (1, 2, 3):
        for hs in itertools.permutations(names, k):
            src = '<dtml-try>B<dtml-call r>' + ''.join(
                '<dtml-except %s>H%d:<dtml-var error_type>' % (h, i) for i, h in enumerate(hs)) + '</dtml-try>|<dtml-var error_type missing="-">'
            for cls in CLASSES:
                log = []
                n += 1
                want = None
                for i, h in enumerate(hs):
                    if h == '' or h in [c.__name__ for c in cls.__mro__ if c.__name__ in names]:
                        want = 'H%d:%s|-' % (i, cls.__name__)
                        break
                try:
                    out = HTML(src)(r=_raiser(cls, log))
                except Exception as e:  # noqa
                    out = 'EXC:' + type(e).__name__
                if want is None:
                    want = 'EXC:' + cls.__name__
                if out != want:
                    return n, dict(source=src, raised=cls.__name__, output=out, expected=want)
    # else / finally / return / raise
    cases = [
        ('<dtml-try>B<dtml-except>H<dtml-else>E</dtml-try>', {}, 'BE'),
        ('<dtml-try>B<dtml-call r><dtml-except>H<dtml-else>E</dtml-try>', {'r': Top}, 'H'),
        ('<dtml-try>B<dtml-except Top>H<dtml-else>E<dtml-call r></dtml-try>', {'r': Top}, 'EXC:Top'),
        ('<dtml-try>B<dtml-call r><dtml-except Top>H<dtml-call q></dtml-try>', {'r': Top, 'q': Other}, 'EXC:Other'),
        ('<dtml-try>B<dtml-finally>F<dtml-call c></dtml-try>', {}, 'BF', 1),
        ('<dtml-try>B<dtml-call r><dtml-finally>F<dtml-call c></dtml-try>', {'r': Top}, 'EXC:Top', 1),
        ('<dtml-try>B<dtml-return x><dtml-finally>F<dtml-call c></dtml-try>', {}, ('ret', 42), 1),
        ('<dtml-try><dtml-return x><dtml-except>H</dtml-try>', {}, ('ret', 42)),
        ('<dtml-try><dtml-try><dtml-return x><dtml-except>H</dtml-try><dtml-except>H2</dtml-try>', {}, ('ret', 42)),
        ('<dtml-in seq><dtml-with w><dtml-let a=x><dtml-if a><dtml-return x></dtml-if></dtml-let></dtml-with></dtml-in>after', {}, ('ret', 42)),
        ('<dtml-raise KeyError><dtml-return x></dtml-raise>after', {}, ('ret', 42)),
        ('<dtml-try><dtml-raise ValueError>msg<dtml-var x></dtml-raise><dtml-except ValueError><dtml-var error_value></dtml-try>', {}, 'msg42'),
        ('<dtml-raise Other>m</dtml-raise>', {}, 'EXC:RuntimeError'),
        ('<dtml-raise KeyError>m</dtml-raise>', {}, 'EXC:KeyError'),
    ]
    for case in cases:
        src, inj, want = case[0], case[1], case[2]
        fin = case[3] if len(case) > 3 else None
        log = []
        cnt = [0]

        def c():
            cnt[0] += 1
        ns = dict(x=42, c=c, seq=[1, 2], w={'k': 1})
        ns.update({k: _raiser(v, log) for k, v in inj.items()})
        n += 1
        try:
            out = HTML(src)(**ns)
            if not isinstance(out, str):
                out = ('ret', out)
        except Exception as e:  # noqa
            out = 'EXC:' + type(e).__name__
        if out != want or (fin is not None and cnt[0] != fin):
            return n, dict(source=src, injected={k: v.__name__ for k, v in inj.items()}, output=out, expected=want,
                           finally_renderings=cnt[0], expected_finally=fin)
    return n, None


def native_for(oid, model):
    n, fail = search()
    if fail:
        return dict(holds=False, inputs=fail, observed='control flow differs from the property', cases_tried=n)
    return dict(holds=True, cases_tried=n, note='bounded native search found no failing input')


if __name__ == '__main__':
    print(search())
