"""Native replay / bounded search for C01 on the real code (bounded stand-in, never counted as proof)."""
import itertools
import random

FRAGS = ['<', '<d', '<dtml', '<!--', '<!--#', '&', '&dt', '&dtml', '&dtml-', '%', '%(', '"', '\n', ' \n', '\t\n', '\r\n', '>', '-->', ';', 'x', ' ', '</', ']', ')s']


def search(big=False):
    from DocumentTemplate.DT_HTML import HTML
    from DocumentTemplate.DT_String import String
    rnd = random.Random(1)
    n = 0
    # 1. sources without tags render to themselves (all sequences of up to 3 fragments, plus random longer ones)
    seqs = [''.join(t) for k in range(0, 4 if big else 3) for t in itertools.product(FRAGS, repeat=k)]
    seqs += [''.join(rnd.choice(FRAGS) for _ in range(rnd.randint(4, 12))) for _ in range(600 if big else 200)]
    for src in seqs:
        for cls in (HTML, String):
            n += 1
            try:
                t = cls(src)
                blocks = t.parse(src) if False else None
                out = t()
            except Exception:
                continue            # the fragments happened to form a (malformed) tag: C06's business
            t.cook()
            if all(isinstance(b, str) for b in t._v_blocks) and out != src:
                return n, dict(source=src, cls=cls.__name__, output=out, what='a source without tags does not render to itself')
    # 1b. what is a tag depends on the template class: text that is a tag in the other syntax is plain text here, also
    #     when a template of the other class with the very same source was compiled before (and the other way round)
    for src_h, src_s in (('Dear <dtml-var v>,\n', 'Dear %(v)s,\n'), ('<dtml-if t>y</dtml-if>', '%(if t)[y%(if)]')):
        for first, second, src, want_second in ((HTML, String, src_h, src_h), (String, HTML, src_s, src_s)):
            n += 1
            first(src)(v='V', t=1)
            out = second(src)(v='V', t=1)
            if out != want_second:
                return n, dict(source=src, cls=second.__name__, compiled_before_as=first.__name__, output=out,
                               what='text without tags (for this template class) does not render to itself')
    # 2. literal text around and inside tags: verbatim, in order; only one blank run + newline after block tags is dropped
    lits = ['a<b', ' x ', 'l1\nl2', '&amp;', '%d', '"q"', '  \n', 'é']
    for a, b, c in itertools.product(lits, repeat=3):
        n += 1
        src = '%s<dtml-var v>%s<dtml-if t>%s</dtml-if>%s' % (a, b, c, a)
        out = HTML(src)(v='V', t=1)
        cc = c
        import re
        m = re.match('[ \t]*\n', cc)
        if m:
            cc = cc[m.end():]
        m2 = re.match('[ \t]*\n', a)
        aa = a[m2.end():] if m2 else a
        want = a + 'V' + b + cc + aa
        if out != want:
            return n, dict(source=src, output=out, expected=want)
    # 3. concatenation of well-formed templates
    parts = ['plain ', '<dtml-var v>', '<dtml-if t>yes<dtml-else>no</dtml-if>', 'x\n', '<dtml-in s>[<dtml-var sequence-item>]</dtml-in>', '&dtml-v;', ' <',
             '<dtml-comment>c</dtml-comment>']
    ns = dict(v='<V>', t=0, s=[1, 2])
    for a, b in itertools.product(parts, repeat=2):
        n += 1
        ra, rb, rab = HTML(a)(**ns), HTML(b)(**ns), HTML(a + b)(**ns)
        import re
        if re.match('[ \t]*\n', b) and a.endswith('>'):
            continue
        if rab != ra + rb:
            return n, dict(a=a, b=b, output=rab, expected=ra + rb, what='render(A+B) != render(A)+render(B)')
    return n, None


def native_for(oid, model):
    n, fail = search()
    if fail:
        return dict(holds=False, inputs=fail, observed='literal text altered, dropped or duplicated', cases_tried=n)
    return dict(holds=True, cases_tried=n, note='bounded native search found no failing input')


if __name__ == '__main__':
    print(search())
