"""Native bounded stand-ins for C20 on the real code (never counted as proof): codec round trips for every length up to a
bound; apply_diff against an abstract set-of-paths model; click histories on small trees through the real dtml-tree
renderer (links followed as generated, rows and cookie compared with the model)."""
import itertools
import random
import re
import urllib.parse


def codec_search(big=False):
    from TreeDisplay import TreeTag as T
    rnd = random.Random(3)
    n = 0
    for L in range(0, 400 if big else 200):
        data = bytes(rnd.randrange(256) for _ in range(L))
        n += 1
        enc = T.encode_str(data)
        if b'+' in enc or b'=' in enc or b'\n' in enc:
            return n, dict(function='encode_str', length=L, what='output contains + = or newline', output=repr(enc[:60]))
        # encode_str is decoded by the same base64 path as decode_seq (without the compression layer)
        s = enc.translate(T.tminus)
        s += b'=' * (-len(s) % 4)
        import binascii
        try:
            back = b''.join(binascii.a2b_base64(s[i:i + 76]) for i in range(0, len(s), 76)) if s else b''
        except Exception as e:  # noqa
            return n, dict(function='encode_str', length=L, what='output is not base64 text: %r' % (e,))
        if back != data:
            return n, dict(function='encode_str', length=L, what='base64 text does not decode to the input')
    ids = ['a', 'B', 'id with space', 'é', '日本', 'x' * 40, 'AAAAAAAAAAE=', '/', '+-=']
    for depth in range(0, 5):
        for width in (1, 2, 5, 30 if big else 12):
            def mk(d):
                return [[rnd.choice(ids) + str(i), mk(d - 1)] if d > 0 else [rnd.choice(ids) + str(i)] for i in range(width if d == depth else 2)]
            state = mk(depth)
            n += 1
            try:
                enc = T.encode_seq(state)
                T.decode_seq(enc)
            except Exception as e:  # noqa
                return n, dict(function='encode_seq/decode_seq', state=repr(state)[:120], raised=repr(e))
            if not isinstance(enc, str) or re.search(r'[^A-Za-z0-9/\-]', enc):
                return n, dict(function='encode_seq', what='cookie text outside the URL-safe base64 alphabet', output=enc[:80])
            if T.decode_seq(enc) != state:
                return n, dict(function='encode_seq/decode_seq', state=repr(state)[:200], what='state does not survive the round trip')
            if T.decode_seq(enc.encode('ascii')) != state:
                return n, dict(function='decode_seq(bytes)', what='bytes form decodes differently')
    return n, None


def model_apply(open_paths, path, expand):
    """abstract model: the state is the set of expanded id-paths"""
    path = tuple(path)
    if expand:
        return open_paths | {path[:i] for i in range(1, len(path) + 1)}
    return {p for p in open_paths if p[:len(path)] != path}


def to_paths(state, prefix=()):
    out = set()
    for sub in state:
        p = prefix + (sub[0],)
        out.add(p)
        if len(sub) == 2:
            out |= to_paths(sub[1], p)
    return out


def diff_search(big=False):
    from TreeDisplay import TreeTag as T
    import copy
    n = 0
    ids = ['a', 'b', 'c']
    paths = [p for k in (1, 2, 3) for p in itertools.product(ids, repeat=k)]
    rnd = random.Random(4)
    for _ in range(3000 if big else 800):
        state = [['r', []]]
        model = {('r',)}
        for step in range(rnd.randint(1, 6)):
            p = ('r',) + rnd.choice(paths)
            expand = rnd.random() < 0.6
            if not expand and p not in model:
                continue
            T.apply_diff(state, list(p), 1 if expand else 0)
            model = model_apply(model, p, expand)
            n += 1
            got = to_paths([s if len(s) == 2 else [s[0], []] for s in state])
            if got != model:
                return n, dict(function='apply_diff', path=p, expand=expand, state=repr(state), expected=sorted(model))
            if T.tpStateLevel(state) != max(len(x) for x in got):
                return n, dict(function='tpStateLevel', state=repr(state), got=T.tpStateLevel(state), expected=max(len(x) for x in got))
    return n, None


class Node:
    def __init__(self, ident, kids=()):
        self.ident = ident
        self.kids = list(kids)

    def tpValues(self):
        return self.kids

    def tpId(self):
        return self.ident

    def tpURL(self):
        return self.ident


class Resp:
    def __init__(self):
        self.cookies = {}

    def setCookie(self, name, value, **kw):
        self.cookies[name] = value


def trees():
    return [
        Node('r', [Node('a'), Node('b')]),
        Node('r', [Node('a', [Node('a1'), Node('a2')]), Node('b', [Node('b1')])]),
        Node('r', [Node('a', [Node('a1', [Node('x')])]), Node('b'), Node('c', [Node('c1')])]),
        Node('r', [Node('é', [Node('日本', [Node('z')])]), Node('b b', [Node('k')])]),
    ]


def expected_rows(node, open_paths, path):
    rows = []
    for k in node.kids:
        rows.append(k.ident)
        p = path + (k.ident,)
        if p in open_paths and k.kids:
            rows += expected_rows(k, open_paths, p)
    return rows


def render(root, cookie, click, opts=''):
    from DocumentTemplate.DT_HTML import HTML
    t = HTML('<dtml-tree expr="root"%s>[<dtml-var ident>]</dtml-tree>' % opts)
    resp = Resp()
    kw = dict(root=root, URL='http://h/doc', RESPONSE=resp)
    if cookie:
        kw['tree-s'] = cookie
    kw.update(click)
    out = t(**kw)
    rows = re.findall(r'\[([^\]]*)\]', out)
    links = re.findall(r'<a name="([^"]*)" href="[^"?]*\?(tree-[ce])=([^"#&]*)', out)
    return rows, links, resp.cookies.get('tree-s')


def _path_of(root, ident, node=None, path=('r',)):
    node = node or root
    for k in node.kids:
        p = path + (k.ident,)
        if k.ident == ident:
            return p
        r = _path_of(root, ident, k, p)
        if r:
            return r
    return None


def click_search(big=False):
    from TreeDisplay import TreeTag as T
    n = 0
    maxlen = 4 if big else 3
    # tag options: the links of a node WITH children must behave the same under assume_children; under that option a
    # childless node also carries an expand link (the tag cannot know), which is followed too: it must change nothing
    # else (rows of the other nodes, their links, the cookie entries of the other nodes)
    for opts in ('', ' assume_children'):
      for root in trees():
        # breadth-first over click histories: a click is a link of the page last rendered
        frontier = [((), None, {('r',)})]
        for depth in range(maxlen + 1):
            nxt = []
            for hist, cookie, model in frontier:
                last_click = hist[-1] if hist else {}
                n += 1
                try:
                    rows, links, newcookie = render(root, cookie, last_click if isinstance(last_click, dict) else {}, opts)
                except Exception as e:  # noqa
                    return n, dict(tree=root.ident, options=opts, history=repr(hist), raised=repr(e))
                want = expected_rows(root, model, ('r',))
                if rows != want:
                    return n, dict(options=opts, history=[repr(h) for h in hist], rows=rows, expected=want, what='rows shown differ from the model')
                st = T.decode_seq(newcookie) if newcookie else []
                got = to_paths([s if len(s) == 2 else [s[0], []] for s in st])
                got_k = {p for p in got if p != ('r',) and _has_kids(root, p)}
                exp_k = {p for p in model if p != ('r',) and _has_kids(root, p)}
                if got_k != exp_k:
                    return n, dict(options=opts, history=[repr(h) for h in hist], cookie_state=sorted(got), expected=sorted(model), what='cookie describes another set')
                if depth == maxlen:
                    continue
                # one toggle link per node with children, each toggling exactly that node
                nodes_with_kids = [p for p in _shown_paths(root, model) if _has_kids(root, p)]
                by_node = {}
                for name, kind, val in links:
                    by_node.setdefault(_path_of(root, name), []).append((kind, val))
                for p in nodes_with_kids:
                    if len(by_node.get(p, [])) != 1:
                        return n, dict(options=opts, history=[repr(h) for h in hist], node=p, links=by_node.get(p), what='not exactly one link for a node with children')
                if not opts and len(links) != len(nodes_with_kids):
                    return n, dict(history=[repr(h) for h in hist], links=len(links), nodes_with_children=len(nodes_with_kids), what='not exactly one link per node with children')
                for p, lst in by_node.items():
                    if p is None:
                        return n, dict(options=opts, history=[repr(h) for h in hist], what='link for a node that is not shown', links=links)
                    for kind, val in lst:
                        expand = kind == 'tree-e'
                        if _has_kids(root, p):
                            if expand == (p in model):
                                return n, dict(options=opts, history=[repr(h) for h in hist], node=p, link=kind, what='link does not toggle the node')
                            m2 = model_apply(model, p, expand)
                        else:
                            m2 = model      # a childless node has nothing to show or forget: no other node may be affected
                        nxt.append((hist + ({kind: urllib.parse.unquote(val)},), newcookie, m2))
            frontier = nxt[:400 if big else 150]
    return n, None


def _has_kids(root, path):
    node = root
    for ident in path[1:]:
        node = [k for k in node.kids if k.ident == ident][0]
    return bool(node.kids)


def _shown_paths(root, model, node=None, path=('r',)):
    node = node or root
    out = []
    for k in node.kids:
        p = path + (k.ident,)
        out.append(p)
        if p in model and k.kids:
            out += _shown_paths(root, model, k, p)
    return out


def search(big=False):
    n = 0
    for f in (codec_search, diff_search, click_search):
        k, fail = f(big)
        n += k
        if fail:
            return n, fail
    return n, None


def native_for(oid, model):
    n, fail = search()
    if fail:
        return dict(holds=False, inputs=fail, observed='tree state codec / click tracking differs from the model', cases_tried=n)
    return dict(holds=True, cases_tried=n, note='bounded native search found no failing input')


if __name__ == '__main__':
    print(codec_search())
    print(diff_search())
    print(click_search())
