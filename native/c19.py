"""Native replay / bounded search for C19 on the real code (bounded stand-in, never counted as proof)."""
TEXTS = ['héllo', 'naïve café', '日本語', 'emoji \U0001F600', 'plain', 'ÿþ<b>&']
ENCODINGS = ['utf-8', 'latin-1', 'cp1252', 'utf-16']


def _enc(s, e):
    try:
        return s.encode(e)
    except UnicodeEncodeError:
        return None


def search(big=False):
    from DocumentTemplate.DT_HTML import HTML
    import html
    n = 0
    # forms for which the property holds on this tree (the full dtml-var path with html_quote and dtml-tree are recorded known findings)
    forms = [
        ('A<dtml-var x>B', lambda s: 'A%sB' % s),
        ('A&dtml-x;B', lambda s: 'A%sB' % html.escape(s, 1)),
        ('A<dtml-var x html_quote>B', lambda s: 'A%sB' % html.escape(s, 1)),
        ('<dtml-in seq>[<dtml-var x>]</dtml-in>', lambda s: '[%s][%s]' % (s, s)),
        ('<dtml-in seq size=5>[&dtml-x;]</dtml-in>', lambda s: '[%s][%s]' % (html.escape(s, 1), html.escape(s, 1))),
        ('<dtml-if x>Y<dtml-var x>Z</dtml-if>', lambda s: 'Y%sZ' % s),
        ('<dtml-with ns>-<dtml-var x>-</dtml-with>', lambda s: '-%s-' % s),
        ('<dtml-let y=x>(<dtml-var y>)</dtml-let>', lambda s: '(%s)' % s),
        ('<dtml-try>T<dtml-var x><dtml-except>E</dtml-try>', lambda s: 'T%s' % s),
    ]
    # renderings that consist of inserted values only (no literal text between them)
    for e in ENCODINGS:
        for a, b in (('café', 'é'), ('€ uro', '日本'), ('x', 'y')):
            ea, eb = _enc(a, e), _enc(b, e)
            if ea is None or eb is None:
                continue
            for src, want in (('<dtml-var a><dtml-var b>', a + b), ('<dtml-in seq><dtml-var a></dtml-in>', a + a),
                              ('&dtml-a;&dtml-b;&dtml-a;', html.escape(a + b + a, 1))):
                n += 1
                out = HTML(src, encoding=e)(a=ea, b=eb, seq=[1, 2])
                if out != want or not isinstance(out, str):
                    return n, dict(source=src, encoding=e, values=[a, b], output=repr(out), expected=want)
    for e in ENCODINGS:
        for s in TEXTS:
            b = _enc(s, e)
            if b is None:
                continue
            for src, want in forms:
                n += 1
                t = HTML(src, encoding=e)
                try:
                    out = t(x=b, seq=[1, 2], ns={'x': b})
                except Exception as ex:  # noqa
                    return n, dict(source=src, encoding=e, text=s, raised=repr(ex))
                if not isinstance(out, str):
                    return n, dict(source=src, encoding=e, text=s, what='a rendering of several pieces is not text', output=repr(out))
                if out != want(s):
                    return n, dict(source=src, encoding=e, text=s, output=out, expected=want(s))
                if t(x=s, seq=[1, 2], ns={'x': s}) != out:
                    return n, dict(source=src, encoding=e, text=s, what='inserting s.encode(encoding) differs from inserting s')
    # non-string values and exceptions
    from DocumentTemplate.ustr import ustr

    class Weird:
        def __str__(self):
            return 'weird'

    class Bad:
        def __str__(self):
            return 42
    for v, want in ((1, '1'), (1.5, '1.5'), (None, 'None'), ([1], '[1]'), (Weird(), 'weird'), (ValueError(), ''), (ValueError('m'), 'm'),
                    (ValueError('a', 'b'), "('a', 'b')"), (KeyError('k'), 'k'), (ValueError(b'raw'), b'raw'), (ValueError(5), '5')):
        n += 1
        got = ustr(v)
        if got != want:
            return n, dict(function='ustr', value=repr(v), output=repr(got), expected=repr(want))
    n += 1
    try:
        ustr(Bad())
        return n, dict(function='ustr', value='object whose __str__ returns 42', what='no ValueError')
    except ValueError:
        pass
    return n, None


def witness(w):
    """replay of a recorded known finding; holds=False while the defect is present"""
    from DocumentTemplate.DT_HTML import HTML
    src, enc, text = w['source'], w['encoding'], w['text']
    out = HTML(src, encoding=enc)(x=text.encode(enc), **w.get('extra', {}))
    return dict(holds=(w['expected'] in out), output=out, expected_substring=w['expected'])


def native_for(oid, model):
    n, fail = search()
    if fail:
        return dict(holds=False, inputs=fail, observed='bytes not decoded with the template encoding / unsafe string conversion', cases_tried=n)
    return dict(holds=True, cases_tried=n, note='bounded native search found no failing input')


if __name__ == '__main__':
    print(search())
    print(witness(dict(source='<dtml-var x html_quote null="">', encoding='utf-8', text='héllo', expected='héllo')))
    print(witness(dict(source='<dtml-var x fmt=html-quote>', encoding='utf-8', text='héllo', expected='héllo')))
