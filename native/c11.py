"""Native replay / bounded search for C11 on the real code (bounded stand-in, never counted as proof):
batched dtml-in over small parameter ranges, literal and variable parameters."""
import itertools


def expected_window(L, start, end, size, orphan):
    """the property's window, independent re-statement"""
    if size < 1:
        size = end + 1 - start if (start > 0 and end > 0 and end >= start) else 7
    if start > 0:
        s = min(start, L)
        if end > 0:
            e = min(max(end, s), L)
        else:
            e = s + size - 1
            if e + orphan > L:
                e = L
    elif end > 0:
        e = min(end, L)
        s = e + 1 - size
        if s - 1 < orphan:
            s = 1
    else:
        s = 1
        e = s + size - 1
        if e + orphan > L:
            e = L
    return s, e, size


def render(L, params, via_vars=False):
    from DocumentTemplate.DT_HTML import HTML
    attrs = []
    ns = {}
    for k, v in params.items():
        if v is None:
            continue
        if via_vars:
            attrs.append('%s=p_%s' % (k, k))
            ns['p_' + k] = v
        else:
            attrs.append('%s=%d' % (k, v))
    src = ('<dtml-in seq %s>[<dtml-var sequence-item>'
           '<dtml-if previous-sequence>P<dtml-var previous-sequence-start-number>-<dtml-var previous-sequence-end-number></dtml-if>'
           '<dtml-if next-sequence>N<dtml-var next-sequence-start-number>-<dtml-var next-sequence-end-number></dtml-if>]'
           '<dtml-else>EMPTY</dtml-in>') % ' '.join(attrs)
    return src, HTML(src)(seq=list(range(1, L + 1)), **ns)


def check_one(L, start, end, size, orphan, overlap, via_vars=False):
    params = dict(start=start, end=end, size=size, orphan=orphan, overlap=overlap)
    try:
        src, out = render(L, params, via_vars)
    except Exception as e:  # noqa
        return dict(L=L, params=params, via_vars=via_vars, raised=repr(e))
    if L == 0:
        return None if out == 'EMPTY' else dict(L=L, params=params, output=out, expected='EMPTY')
    s, e, sz = expected_window(L, start or 0, end or 0, size or 0, orphan or 0)
    items = out.strip('[]').split('][') if out else []
    shown = []
    for it in items:
        num = ''
        for ch in it:
            if ch.isdigit():
                num += ch
            else:
                break
        shown.append(int(num))
    if shown != list(range(s, e + 1)):
        return dict(L=L, params=params, via_vars=via_vars, shown=shown, expected=list(range(s, e + 1)), source=src)
    first, last = items[0], items[-1]
    if ('P' in first) != (s > 1) or ('N' in last) != (e < L):
        return dict(L=L, params=params, via_vars=via_vars, output=out, note='previous/next flags wrong')
    ov = overlap or 0
    if 'N' in last and ov <= e:
        ns_ = int(last.split('N')[1].split('-')[0])
        if ns_ != min(e + 1 - ov, L):
            return dict(L=L, params=params, output=out, note='next batch start %d != end+1-overlap' % ns_)
    if 'P' in first and ov >= 0:
        pe = int(first.split('P')[1].split('N')[0].split('-')[1])
        if pe != min(s - 1 + ov, L):
            return dict(L=L, params=params, output=out, note='previous batch end %d != start-1+overlap' % pe)
    return None


def search(big=False):
    n = 0
    Ls = range(0, 9 if big else 6)
    for L in Ls:
        for start, end in itertools.product([None] + list(range(-1, (11 if big else 8))), repeat=2):
            for size in ([None, -1, 0, 1, 2, 3, 5] if big else [None, 0, 1, 3]):
                for orphan in ([0, 1, 2, 4] if big else [0, 2]):
                    for overlap in ([0, 1, 2] if big else [0, 1]):
                        if start is None and end is None and size is None:
                            continue
                        n += 1
                        bad = check_one(L, start, end, size, orphan, overlap)
                        if bad:
                            return n, bad
    for L, start, size in itertools.product(range(1, 6), range(1, 5), range(1, 4)):
        n += 1
        bad = check_one(L, start, None, size, 1, 1, via_vars=True)
        if bad:
            return n, bad
    return n, None


def native_for(oid, model):
    n, fail = search()
    if fail:
        return dict(holds=False, inputs=fail, observed='batch window / links differ from the property', cases_tried=n)
    return dict(holds=True, cases_tried=n, note='bounded native search found no failing input')


if __name__ == '__main__':
    import sys
    print(search('big' in sys.argv))
