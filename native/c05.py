"""Native replay / bounded search for C05 on the real code (bounded stand-in, never counted as proof): a template class
with a recording guard that refuses the attribute / item named ``secret`` (and everything of objects marked denied)."""
SECRET = 'S3CR3T'


class Obj:
    def __init__(self, **kw):
        self.__dict__.update(kw)


class _Resp:
    def setCookie(self, *a, **k):
        pass


class Node:
    accessed = []

    def __init__(self, ident, kids=(), **kw):
        self.ident = ident
        self.kids = list(kids)
        self.__dict__.update(kw)

    def tpValues(self):
        return self.kids

    def tpId(self):
        return self.ident

    def tpURL(self):
        return self.ident


class OidNode:
    """no tpId: the tree falls back to the persistence id attribute ``_p_oid``"""
    accessed = []

    def __init__(self, kids=()):
        self.kids = list(kids)

    def tpValues(self):
        return self.kids

    @property
    def _p_oid(self):
        OidNode.accessed.append('_p_oid')
        return b'oid-' + str(id(self)).encode()


def _tree_kw(root):
    return dict(root=root, expand_all=1, URL='u', RESPONSE=_Resp())


def make_class():
    from DocumentTemplate.DT_HTML import HTML
    from DocumentTemplate.security import RestrictedDTML
    from zExceptions import Unauthorized

    class Guarded(RestrictedDTML, HTML):
        log = []

        def guarded_getattr(self, ob, name, *default):
            type(self).log.append(('attr', name))
            if name == 'secret' or getattr(ob, '_denied', False):
                raise Unauthorized(name)
            return getattr(ob, name, *default)

        def guarded_getitem(self, ob, index):
            type(self).log.append(('item', index))
            v = ob[index]
            if index == 'secret' or getattr(v, '_denied', False):
                raise Unauthorized(index)
            return v
    return Guarded


def _render(src, **kw):
    G = make_class()
    try:
        return G(src)(**kw)
    except Exception as e:  # noqa
        return 'RAISED:' + type(e).__name__


# channels for which the property holds on this tree
def search(big=False):
    n = 0
    o = Obj(secret=SECRET, public='P', _private=SECRET)
    cases = [
        ('<dtml-var secret>', dict(client=o)),
        ('<dtml-var _private missing="M">', dict(client=o)),
        ('<dtml-with o><dtml-var secret></dtml-with>', dict(o=o)),
        ('<dtml-with o only><dtml-var secret missing="M"></dtml-with>', dict(o=o)),
        ('<dtml-var expr="o.secret">', dict(o=o)),
        ('<dtml-var expr="o._private">', dict(o=o)),
        ('<dtml-var expr="_.getattr(o, \'secret\')">', dict(o=o)),
        ('<dtml-var expr="d[\'secret\']">', dict(d={'secret': SECRET})),
        ('<dtml-in seq><dtml-var secret missing="M"></dtml-in>', dict(seq=[o])),
        ('<dtml-in seq><dtml-var sequence-item></dtml-in>', dict(seq=[Obj(_denied=True, __str__=None, secret=SECRET)])),
        ('<dtml-in seq skip_unauthorized>[<dtml-var x>]</dtml-in>', dict(seq=[Obj(_denied=True, x=SECRET), Obj(x='ok')])),
        ('<dtml-in seq size=5 skip_unauthorized>[<dtml-var x>]</dtml-in>', dict(seq=[Obj(_denied=True, x=SECRET), Obj(x='ok')])),
        ('<dtml-var o fmt=secret>', dict(o=Obj(secret=lambda: SECRET))),
        ('<dtml-let y="o.secret"><dtml-var y></dtml-let>', dict(o=o)),
        ('<dtml-if "o.secret">yes</dtml-if>', dict(o=o)),
        ('<dtml-var expr="o.__dict__">', dict(o=o)),
    ]
    for src, kw in cases:
        n += 1
        client = kw.pop('client', None)
        G = make_class()
        try:
            out = G(src)(client, **kw) if client is not None else G(src)(**kw)
        except Exception as e:  # noqa
            out = 'RAISED:' + type(e).__name__
        if SECRET in out:
            return n, dict(source=src, output=out, what='data the guard refuses (or an underscore name) reached the output')
    # items iterated by dtml-in go through the guard whatever kind of sequence is given (list, tuple, iterator, generator),
    # batched or not: a refused item is never shown, and skip_unauthorized skips exactly the refused ones
    def mk():
        return [Obj(x='ok1'), Obj(_denied=True, x=SECRET), Obj(x='ok2')]
    makers = [('list', lambda: mk()), ('tuple', lambda: tuple(mk())), ('iterator', lambda: iter(mk())),
              ('generator', lambda: (x_ for x_ in mk()))]
    for kind, make in makers:
        for attrs in ('', ' size=5', ' start=1 size=2 orphan=0'):
            for skip in ('', ' skip_unauthorized'):
                n += 1
                G = make_class()
                src = '<dtml-in seq%s%s>[<dtml-var x>]</dtml-in>' % (attrs, skip)
                try:
                    out = G(src)(seq=make())
                except Exception as e:  # noqa
                    out = 'RAISED:' + type(e).__name__
                if SECRET in out or (skip and attrs != ' start=1 size=2 orphan=0' and out != '[ok1][ok2]'):
                    return n, dict(source=src, sequence_kind=kind, output=out,
                                   what='an item the guard refuses was displayed / skip_unauthorized did not skip exactly the refused items')
    # dtml-tree with skip_unauthorized: no refused branch is shown, every allowed one is
    import itertools
    for k in (3, 4):
        for denied in itertools.chain.from_iterable(itertools.combinations(range(k), r) for r in (1, 2, 3)):
            if len(denied) >= k:
                continue
            n += 1
            kids = [Node('n%d' % i, _denied=(i in denied)) for i in range(k)]
            G = make_class()
            try:
                out = G('<dtml-tree expr="root" skip_unauthorized>[<dtml-var ident>]</dtml-tree>')(**_tree_kw(Node('r', kids)))
            except Exception as e:  # noqa
                return n, dict(source='dtml-tree skip_unauthorized', denied=denied, raised=repr(e))
            shown = [i for i in range(k) if '[n%d]' % i in out]
            want = [i for i in range(k) if i not in denied]
            if shown != want:
                return n, dict(source='<dtml-tree expr="root" skip_unauthorized>', children=k, refused=list(denied), shown=shown, expected=want)
    return n, None


# recorded known findings: reads of client data that bypass the guard (one witness per call site)
WITNESSES = {
    'DT_InSV.value.getattr': ('<dtml-in seq><dtml-var sequence-var-secret></dtml-in>', lambda: dict(seq=[Obj(secret=SECRET)])),
    'DT_InSV.value.item': ('<dtml-in seq mapping><dtml-var sequence-var-secret></dtml-in>', lambda: dict(seq=[{'secret': SECRET}])),
    'DT_InSV.statistics.getattr': ('<dtml-in seq><dtml-var max-secret></dtml-in>', lambda: dict(seq=[Obj(secret=SECRET)])),
    'DT_InSV.statistics.item': ('<dtml-in seq mapping><dtml-var max-secret></dtml-in>', lambda: dict(seq=[{'secret': SECRET}])),
    'DT_In.sort_sequence.getattr': ('<dtml-in seq sort=secret><dtml-var n></dtml-in>',
                                    lambda: dict(seq=[Obj(secret=2, n='b'), Obj(secret=1, n='a')]), 'ab'),
    'DT_In.sort_sequence.get': ('<dtml-in seq sort=secret mapping><dtml-var n></dtml-in>',
                                lambda: dict(seq=[{'secret': 2, 'n': 'b'}, {'secret': 1, 'n': 'a'}]), 'ab'),
    'DT_In.sort_sequence.getattr.multi': ('<dtml-in seq sort="secret,n"><dtml-var n></dtml-in>',
                                          lambda: dict(seq=[Obj(secret=2, n='b'), Obj(secret=1, n='a')]), 'ab'),
    'DT_In.sort_sequence.get.multi': ('<dtml-in seq sort="secret,n" mapping><dtml-var n></dtml-in>',
                                      lambda: dict(seq=[{'secret': 2, 'n': 'b'}, {'secret': 1, 'n': 'a'}]), 'ab'),
    'DT_Var.render.absolute_url': ('<dtml-var o url>', lambda: dict(o=Obj(absolute_url=lambda: SECRET, _denied=True))),
    'DT_Var.render.absolute_url.expr': ('<dtml-var expr="o" url>', lambda: dict(o=Obj(absolute_url=lambda: SECRET, _denied=True))),
}


WITNESSES.update({
    'TreeTag.tpRenderTABLE.sort': ('<dtml-tree expr="root" sort=secret>[<dtml-var ident>]</dtml-tree>',
                                   lambda: _tree_kw(Node('r', [Node('b', secret=2), Node('a', secret=1)])), '[a]'),
    'TreeTag.try_call_attr': ('<dtml-tree expr="root" url=secret>[<dtml-var tree-item-url>]</dtml-tree>',
                              lambda: _tree_kw(Node('r', [Node('a', secret=SECRET)]))),
})


def witness_oid(w):
    G = make_class()
    G.log = []
    OidNode.accessed = []
    try:
        G('<dtml-tree expr="root">x</dtml-tree>')(**_tree_kw(OidNode([OidNode()])))
    except Exception as e:  # noqa
        return dict(holds=True, raised=repr(e))
    asked = [x for x in G.log if x[1] == '_p_oid']
    return dict(holds=not (OidNode.accessed and not asked), private_attribute_read=bool(OidNode.accessed), guard_consulted=bool(asked))


def witness(w):
    if w['site'] == 'TreeTag.extract_id._p_oid':
        return witness_oid(w)
    """holds=False while the guard is still bypassed at this site"""
    src, mk = WITNESSES[w['site']][:2]
    leak = WITNESSES[w['site']][2] if len(WITNESSES[w['site']]) > 2 else SECRET
    G = make_class()
    G.log = []
    try:
        out = G(src)(**mk())
    except Exception as e:  # noqa
        out = 'RAISED:' + type(e).__name__
    asked = [x for x in G.log if x[1] == 'secret']
    return dict(holds=not (leak in out and not asked), output=out, guard_consulted_for_secret=bool(asked), source=src)


def native_for(oid, model):
    n, fail = search()
    if fail:
        return dict(holds=False, inputs=fail, observed='guard bypassed', cases_tried=n)
    return dict(holds=True, cases_tried=n, note='bounded native search found no failing input')


if __name__ == '__main__':
    print(search())
    for k in list(WITNESSES) + ['TreeTag.extract_id._p_oid']:
        print(k, witness(dict(site=k)))
