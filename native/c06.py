"""Native replay / bounded search for C06 on the real code (bounded stand-in, never counted as proof)."""
import random
import time

VALID = [
    '<dtml-var x>', '<dtml-if a>1<dtml-elif b>2<dtml-else>3</dtml-if>', '<dtml-in s sort=k size=3 start=q>x<dtml-else>e</dtml-in>',
    '<dtml-with o only>w</dtml-with>', '<dtml-let a=b c="1+1">l</dtml-let>', '<dtml-try>t<dtml-except KeyError>e<dtml-else>o</dtml-try>',
    '<dtml-try>t<dtml-finally>f</dtml-try>', '<dtml-raise KeyError>m</dtml-raise>', '<dtml-return x>', '<dtml-call "f()">', '<dtml-comment>c</dtml-comment>',
    '&dtml-x;', '&dtml.url_quote-x;', '<!--#var x--><!--#if y-->1<!--#/if-->', '<dtml-unless u>n</dtml-unless>',
    '<dtml-var x fmt="%s" null="" size=3 etc="..">', '<dtml-var expr="x+1" html_quote>', 'a\n<dtml-if x>\n b\n</dtml-if>\nc',
]
EPFS = ['%(x)s', '%(if a)[1%(else)[2%(if)]', '%(in s)[x%(in)]', '%(var x upper)s', '%(x)10.2f']
ALLOWED = ('ParseError', 'SyntaxError')


def compile_(cls, src):
    t0 = time.perf_counter()
    try:
        cls(src).cook()
        return None, time.perf_counter() - t0
    except Exception as e:  # noqa
        return e, time.perf_counter() - t0


def check_error(src, e):
    import re
    if type(e).__name__ not in ALLOWED:
        return 'escaping %s: %s' % (type(e).__name__, str(e)[:80])
    if type(e).__name__ == 'ParseError':
        m = re.search(r'on line (\d+) of', str(e))
        if not m:
            return 'ParseError without a line: %s' % str(e)[:100]
        line = int(m.group(1))
        if not (1 <= line <= src.count('\n') + 1):
            return 'line %d outside the source' % line
        # the line reported is a line on which (an occurrence of) the tag named in the message starts
        t = re.search(r', for tag (.*), on line \d+ of', str(e), re.S)
        if t:
            import html
            tag = html.unescape(t.group(1))
            starts, k = set(), src.find(tag)
            while k >= 0 and tag:
                starts.add(src.count('\n', 0, k) + 1)
                k = src.find(tag, k + 1)
            if starts and line not in starts:
                return 'the message names the tag %r, which starts on line %s, but reports line %d' % (tag, sorted(starts), line)
    return None


# invalid block tags spread over several lines: the error is found only when the block is complete (at its end tag)
LOCATED = [
    'a\n<dtml-in x bogus>\n\nb\n</dtml-in>\n', '\n\n<dtml-let x>\n\n\n</dtml-let>', '<dtml-if a>\n<dtml-else>\n<dtml-else>\n</dtml-if>',
    'x\n<dtml-try>\n\n<dtml-finally>\n<dtml-except>\n</dtml-try>', '\n<dtml-with>\n\n</dtml-with>', '<dtml-var x>\n\n<dtml-in s size=2 bogus=1>\n<dtml-else>\n\n</dtml-in>',
    '\n<dtml-unless>\n\n</dtml-unless>', 'a\n\n<dtml-in s>\n<dtml-if>\n\n</dtml-if>\n</dtml-in>', '\n\n<dtml-raise x y z>\n\n</dtml-raise>',
    '\n<!--#in x bogus-->\n\n<!--#/in-->', '\n%(in x bogus)[\n\n%(in)]', '\n\n<dtml-if x>\n<dtml-var y bogus>\n</dtml-if>', '\n<dtml-if x>\n\n</dtml-in>',
    '\n\n<dtml-in x>\n\n', '<dtml-in x>\n<dtml-in y bogus>\n\n</dtml-in>\n</dtml-in>',
]


def search(big=False):
    from DocumentTemplate.DT_HTML import HTML
    from DocumentTemplate.DT_String import String
    rnd = random.Random(2)
    n = 0
    for cls, pool in ((HTML, VALID), (String, EPFS)):
        for src in pool:
            n += 1
            e, dt = compile_(cls, src)
            if e is not None:
                return n, dict(source=src, what='a valid template is rejected', error=repr(e))
            # every truncation, and single deletions / duplications / swaps of characters
            muts = [src[:i] for i in range(len(src))]
            muts += [src[:i] + src[i + 1:] for i in range(len(src))]
            muts += [src[:i] + src[i] + src[i:] for i in range(len(src))]
            muts += [src[:i] + src[i + 1] + src[i] + src[i + 2:] for i in range(len(src) - 1)]
            for m in muts:
                n += 1
                e, dt = compile_(cls, m)
                if e is not None:
                    bad = check_error(m, e)
                    if bad:
                        return n, dict(source=m, what=bad)
                if dt > 2.0:
                    return n, dict(source=m, what='compiling took %.1fs' % dt)
    for src in LOCATED:
        for cls in (HTML, String):
            n += 1
            e, dt = compile_(cls, src)
            if e is not None:
                bad = check_error(src, e)
                if bad:
                    return n, dict(source=src, cls=cls.__name__, what=bad, error=str(e))
    frags = ['<dtml-', '</dtml-', '<!--#', '-->', '>', '"', "'", '&dtml', '&dtml-', '&dtml.', ';', 'var', 'if', 'else', 'in', '/', 'end', ' ', '\n', 'x', '=',
             '%(', ')s', ')[', ')]', 'expr="', '1+', 'let', 'try', 'except', 'a.b-c']
    for _ in range(4000 if big else 1200):
        src = ''.join(rnd.choice(frags) for _ in range(rnd.randint(1, 14)))
        for cls in (HTML, String):
            n += 1
            e, dt = compile_(cls, src)
            if e is not None:
                bad = check_error(src, e)
                if bad:
                    return n, dict(source=src, cls=cls.__name__, what=bad)
            if dt > 2.0:
                return n, dict(source=src, cls=cls.__name__, what='compiling took %.1fs' % dt)
    # nesting depth: polynomial work, counted in scanner calls (deterministic, no wall clock): the tag matcher is wrapped
    # through the tagre() hook of the template class
    class Counting:
        def __init__(self, real):
            self.real, self.calls = real, 0

        def search(self, *a, **k):
            self.calls += 1
            return self.real.search(*a, **k)

        def __getattr__(self, name):
            return getattr(self.real, name)
    for cls, opn, cls_ in ((HTML, '<dtml-if a>x', '</dtml-if>'), (String, '%(if a)[x', '%(if)]')):
        for depth in (2, 4, 8, 12, 16):
            counters = []

            class T(cls):
                def tagre(self):
                    c = Counting(cls.tagre(self))
                    counters.append(c)
                    return c
            src = opn * depth + cls_ * depth
            n += 1
            try:
                T(src).cook()
            except Exception as e:  # noqa
                return n, dict(source='nested ifs depth %d (%s)' % (depth, cls.__name__), error=repr(e))
            steps = sum(c.calls for c in counters)
            if steps > 4 * (depth + 2) ** 2:
                return n, dict(source='nested ifs depth %d (%s)' % (depth, cls.__name__), scanner_calls=steps, bound=4 * (depth + 2) ** 2,
                               what='the number of scanner calls is not polynomial in the nesting depth (each nested block is compiled more than once)')
    return n, None


def epfs_witness(w=None):
    """known finding: the EPFS tag pattern backtracks exponentially on an unterminated tag"""
    from DocumentTemplate.DT_String import String
    times = []
    for k in (16, 18, 20, 22):
        src = '%(a ' + 'b' * k
        t0 = time.perf_counter()
        try:
            String(src).cook()
        except Exception:
            pass
        times.append(time.perf_counter() - t0)
    ratio = times[-1] / max(times[-2], 1e-6)
    return dict(holds=not (ratio > 2.5 and times[-1] > 0.02), seconds=[round(t, 4) for t in times], growth_per_2_tokens=round(ratio, 1))


def duplicate_flag_witness(w=None):
    from DocumentTemplate.DT_HTML import HTML
    e, _ = compile_(HTML, '<dtml-var x upper upper>')
    return dict(holds=e is not None, accepted=e is None, source='<dtml-var x upper upper>')


def native_for(oid, model):
    n, fail = search()
    if fail:
        return dict(holds=False, inputs=fail, observed='compile error of the wrong kind / without location / too slow', cases_tried=n)
    return dict(holds=True, cases_tried=n, note='bounded native search found no failing input')


if __name__ == '__main__':
    print(epfs_witness())
    print(search())
