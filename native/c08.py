"""Native replay / bounded search for C08 on the real code: render real templates as
sub-templates of a namespace we own, inject an exception or a dtml-return at the k-th
namespace-value invocation (k = 1..N), and compare the namespace stack and level with their
entry values.  Used (a) to replay refuted stack obligations, (b) as a labelled bounded stand-in
in the thorough tier.  Never counted as proof."""


class Boom(Exception):
    pass


def _mk_md(level=0):
    from DocumentTemplate._DocumentTemplate import TemplateDict
    md = TemplateDict()
    md.guarded_getattr = None
    md.guarded_getitem = None
    md.level = level
    return md


class Counter:
    def __init__(self, fail_at=None, mode='raise'):
        self.n = 0
        self.fail_at = fail_at
        self.mode = mode

    def hit(self):
        self.n += 1
        if self.fail_at is not None and self.n == self.fail_at:
            if self.mode == 'return':
                from DocumentTemplate.DT_Return import DTReturn
                raise DTReturn('returned')
            raise Boom('injected at call %d' % self.n)


class Item:
    def __init__(self, ctr, key):
        self.ctr = ctr
        self.key = key

    def name(self):
        self.ctr.hit()
        return 'n%s' % self.key


def namespace(ctr):
    def probe(tag):
        def f():
            ctr.hit()
            return tag
        f.__name__ = tag
        return f

    def seq():
        ctr.hit()
        return [Item(ctr, 2), Item(ctr, 1), Item(ctr, 3)]

    def mseq():
        ctr.hit()
        return [{'k': 2, 'v': probe('mv2')}, {'k': 1, 'v': probe('mv1')}]

    class W:
        def __init__(self):
            self.inner = probe('inner')
    return dict(p1=probe('p1'), p2=probe('p2'), p3=probe('p3'), seq=seq, mseq=mseq, w=W(), t=1, f=0,
                tseq=[('a', 1), ('b', 2)], sseq=['x', 'y'], empty=[])


TEMPLATES = {
    'if': '<dtml-if p1>A<dtml-var p2><dtml-elif p2>B<dtml-else>C<dtml-var p3></dtml-if>',
    'unless': '<dtml-unless f><dtml-var p1><dtml-if p2>x</dtml-if></dtml-unless>',
    'with': '<dtml-with w><dtml-var inner><dtml-var p1></dtml-with>',
    'with_only': '<dtml-with w only><dtml-var inner></dtml-with><dtml-var p1>',
    'with_mapping': '<dtml-with "_.namespace(a=1)"><dtml-var a><dtml-var p1></dtml-with>',
    'let': '<dtml-let a=p1 b="p2()"><dtml-var a><dtml-var p3></dtml-let>',
    'in': '<dtml-in seq><dtml-var name><dtml-var p1></dtml-in>',
    'in_sort': '<dtml-in seq sort=key reverse><dtml-var name></dtml-in>',
    'in_prefix': '<dtml-in seq prefix=it><dtml-var it_index><dtml-var name></dtml-in>',
    'in_mapping': '<dtml-in mseq mapping><dtml-var v><dtml-var k></dtml-in>',
    'in_tuples': '<dtml-in tseq><dtml-var sequence-key><dtml-var p1></dtml-in>',
    'in_strings': '<dtml-in sseq><dtml-var sequence-item><dtml-var p1></dtml-in>',
    'in_nopush': '<dtml-in seq no_push_item><dtml-var p1></dtml-in>',
    'in_else': '<dtml-in empty>x<dtml-else><dtml-var p1></dtml-in>',
    'in_batch': '<dtml-in seq size=2 orphan=0><dtml-var name><dtml-if sequence-end><dtml-var p1></dtml-if></dtml-in>',
    'in_batch2': '<dtml-in seq start=2 size=1 orphan=0 overlap=0><dtml-var name><dtml-var p2></dtml-in>',
    'in_previous': '<dtml-in seq previous start=2 size=1 orphan=0><dtml-var p1><dtml-else><dtml-var p2></dtml-in>',
    'in_next': '<dtml-in seq next size=1 orphan=0><dtml-var p1><dtml-else><dtml-var p2></dtml-in>',
    'in_expr': '<dtml-in "seq()" sort_expr="\'key\'"><dtml-var name></dtml-in>',
    'try_except': '<dtml-try><dtml-var p1><dtml-except Boom><dtml-var p2><dtml-var error_type><dtml-else><dtml-var p3></dtml-try>',
    'try_handler_raises': '<dtml-try><dtml-raise KeyError>x</dtml-raise><dtml-except KeyError><dtml-var p1><dtml-var p2></dtml-try>',
    'try_nested': '<dtml-try><dtml-try><dtml-var p1><dtml-except><dtml-var p2><dtml-raise ValueError>v</dtml-raise></dtml-try><dtml-except ValueError><dtml-var p3></dtml-try>',
    'try_finally': '<dtml-try><dtml-var p1><dtml-finally><dtml-var p2></dtml-try>',
    'raise': '<dtml-raise KeyError><dtml-var p1></dtml-raise>',
    'return': '<dtml-with w><dtml-in seq><dtml-return p1></dtml-in></dtml-with>',
    'call': '<dtml-call p1><dtml-var p2>',
    'var': '<dtml-var p1 upper><dtml-var expr="p2()" size=3>&dtml-p3;',
}


def run_case(name, src, fail_at=None, mode='raise', level=0, sub_kw=False, cls=None):
    """render src as a sub-template; return (ok, details)"""
    from DocumentTemplate.DT_HTML import HTML
    ctr = Counter(fail_at, mode)
    md = _mk_md(level)
    base = namespace(ctr)
    md._push(base)
    t = (cls or HTML)(src)
    # a template that has its own defaults pushes them too
    outer = (cls or HTML)(src, d0='default')
    before = list(md._data)
    lvl = md.level
    outcome = 'ok'
    try:
        if sub_kw:
            outer(None, md, extra=1)
        else:
            t(None, md)
    except Boom:
        outcome = 'Boom'
    except Exception as e:  # noqa
        outcome = type(e).__name__
    after = list(md._data)
    ok = len(before) == len(after) and all(a is b for a, b in zip(before, after)) and md.level == lvl
    return ok, dict(template=name, source=src, fail_at=fail_at, mode=mode, entry_level=level, with_defaults_and_kw=sub_kw,
                    outcome=outcome, stack_before=len(before), stack_after=len(after),
                    level_before=lvl, level_after=md.level, calls=ctr.n)


def search(only=None, max_k=40):
    """all templates x injection point k x {raise, return} x {plain, with defaults+kw} (+ level>200);
    returns (n_cases, first_failure_or_None)"""
    n = 0
    for name, src in TEMPLATES.items():
        if only and not any(o in name for o in only):
            continue
        for sub_kw in (False, True):
            ok, d = run_case(name, src, None, 'raise', 0, sub_kw)
            n += 1
            if not ok:
                return n, d
            calls = d['calls']
            for mode in ('raise', 'return'):
                for k in range(1, min(calls, max_k) + 1):
                    ok, d = run_case(name, src, k, mode, 0, sub_kw)
                    n += 1
                    if not ok:
                        return n, d
            ok, d = run_case(name, src, None, 'raise', 201, sub_kw)
            n += 1
            if not ok:
                return n, d
    return n, None


FUNC_TEMPLATES = {
    'render_blocks_': ['if', 'unless', 'call'],
    'With.render': ['with'],
    'Let.render': ['let'],
    'Try.': ['try'],
    'Raise.render': ['raise', 'try_handler'],
    'ReturnTag.render': ['return'],
    'String.__call__': None,
    'renderwob': ['in'],
    'renderwb': ['in_batch', 'in_prev', 'in_next'],
    'TemplateDict': None,
}


def tree_search():
    """dtml-tree: a transient failure of branches_expr while the tag works out its expand_all state, and failures inside
    the rows; afterwards the namespace must resolve names as before the tag"""
    from DocumentTemplate.DT_HTML import HTML

    class Node:
        def __init__(self, ident, sub=()):
            self.id = ident
            self.sub = list(sub)
            self.x = 'NODE-' + ident

        def tpId(self):
            return self.id

        def tpValues(self):
            return self.sub

    class Resp:
        def setCookie(self, *a, **k):
            pass
    n = 0
    root = Node('r', [Node('a', [Node('a1')]), Node('b')])
    for fail_at in range(1, 8):
        for extra in ({'expand_all': 1}, {}):
            calls = [0]

            def fetch():
                calls[0] += 1
                if calls[0] == fail_at:
                    raise ValueError('transient')
                return []
            src = ('<dtml-try><dtml-tree expr="root" branches_expr="fetch()">[<dtml-var id>]</dtml-tree>'
                   '<dtml-except>E</dtml-try>|<dtml-var x>')
            n += 1
            out = HTML(src)(root=root, URL='http://h/d', RESPONSE=Resp(), fetch=fetch, x='outer', **extra)
            if not out.endswith('|outer'):
                return n, dict(source=src, namespace=dict(extra, fetch='raises ValueError on call %d' % fail_at),
                               output=out[-40:], expected_suffix='|outer',
                               what='a namespace entry pushed by dtml-tree is still there after the tag')
    return n, None


def native_for(oid, model):
    if oid.startswith('C08.tree.'):
        n, fail = tree_search()
        if fail:
            return dict(holds=False, inputs=fail, observed='namespace stack differs from entry after dtml-tree', cases_tried=n)
        return dict(holds=True, cases_tried=n, note='bounded native search found no failing input')
    only = None
    for frag, names in FUNC_TEMPLATES.items():
        if frag in oid:
            only = names
    n, fail = search(only)
    if fail is None and only is not None:
        n2, fail = search(None)
        n += n2
    if fail:
        return dict(holds=False, inputs=fail, observed='namespace stack/level differ from entry', cases_tried=n)
    return dict(holds=True, cases_tried=n, note='bounded native search found no failing input')


if __name__ == '__main__':
    import json
    n, fail = search()
    print(n, json.dumps(fail, indent=1, default=str))
