"""C15  dtml-var options apply a fixed, documented value pipeline."""
import z3
from pyvc.run import Prop, Lemma
from pyvc.contracts import REGISTRY
import contracts  # noqa
from contracts.dt_var import INIT, ORDERV, MODS, VAR, CFORMAT
from native import c15 as native_c15

S = z3.StringSort()


def _sql_charset():
    """over an uninterpreted replace with the two character-set axioms of str.replace (assumed library facts)"""
    RA = z3.Function('RA', S, S, S, S)
    v = z3.String('v')
    NUL, SUB, CR, Q, QQ, EMP = [z3.StringVal(x) for x in ('\x00', '\x1a', '\r', "'", "''", '')]
    s1 = RA(v, NUL, EMP)
    s2 = RA(s1, SUB, EMP)
    s3 = RA(s2, CR, EMP)
    r = RA(s3, Q, QQ)
    hyps = []
    # A1: replacing a single character c by '' leaves no c
    for s, c in ((v, NUL), (s1, SUB), (s2, CR)):
        hyps.append(z3.Not(z3.Contains(RA(s, c, EMP), c)))
    # A2: replace(a, b) introduces no character that is neither in s nor in b
    for s, a, b in ((s1, SUB, EMP), (s2, CR, EMP), (s3, Q, QQ)):
        for c in (NUL, SUB, CR):
            hyps.append(z3.Implies(z3.And(z3.Not(z3.Contains(s, c)), z3.Not(z3.Contains(b, c))), z3.Not(z3.Contains(RA(s, a, b), c))))
    goal = z3.And(*[z3.Not(z3.Contains(r, c)) for c in (NUL, SUB, CR)])
    return hyps, goal


def _unquote_inverts():
    q = z3.Function('urllib.quote', S, S)
    u = z3.Function('urllib.unquote', S, S)
    qp = z3.Function('urllib.quote_plus', S, S)
    up = z3.Function('urllib.unquote_plus', S, S)
    x = z3.String('x')
    hyps = [u(q(x)) == x, up(qp(x)) == x]          # library axioms (assumed, exercised natively)
    # the modifier contracts (verified): url_quote(v) == quote(v), url_unquote(v) == unquote(v); each applied once (init clause)
    return hyps, z3.And(u(q(x)) == x, up(qp(x)) == x)


LEMMAS = [
    Lemma('C15.lemma.sql_quote_removes_control_characters', _sql_charset, uses=[c for c in MODS if 'sql_quote' in c],
          text='the verified result of sql_quote, replace(replace(replace(replace(v, NUL, ""), ^Z, ""), CR, ""), "\'", "\'\'"), contains no '
               'NUL, Ctrl-Z or CR -- from two character-set facts about str.replace (assumed: both solvers leave the direct string '
               'query undecided)'),
    Lemma('C15.lemma.unquote_inverts_quote_through_the_tag', _unquote_inverts, uses=MODS,
          text='url_unquote(url_quote(x)) == x and the _plus pair, given the urllib axioms; needs each modifier applied exactly once '
               '(obligation init.modifiers_in_fixed_order)'),
]


def _bounded(tier):
    n, fail = native_c15.search(big=(tier == 'thorough'))
    return dict(name='C15.native_pipeline_oracle', tool='native enumeration on the real code',
                bound='all written orders of up to 3 of 9 modifiers on 3 values; sizes 0..len+2 x 4 etc strings on 7 values; null/missing '
                      'table; sql_quote on all strings of length <= %d over {\', a, NUL, CR, ^Z}; thousands_commas on ~500 numbers; '
                      'unquote(quote(x)) through the tag' % (5 if tier == 'thorough' else 4),
                cases=n, violation=bool(fail), witness=fail)


PROP = Prop(
    'C15',
    contracts=[REGISTRY[k] for k in INIT + ORDERV + MODS + CFORMAT] + [REGISTRY[VAR + '.render#truncate']],
    claims=['*::C15.*', 'C15.lemma.*'],
    lemmas=LEMMAS,
    native_default=native_c15.native_for,
    bounded=[_bounded],
    assumptions=['str.lower/upper/capitalize are the uninterpreted string methods themselves; str.replace is SMT-LIB str.replace_all',
                 'urllib.parse quote/unquote are uninterpreted functions with unquote(quote(x)) == x (and _plus)',
                 'value modifiers in Var.render are abstract functions returning strings (each concrete modifier is verified separately)',
                 'option shapes are covered by representative tags (the option values are symbolic where the code computes with them: size, etc)'],
    not_decided=['thousands_commas groups the digits of the integer part: regex loop, bounded native check only',
                 '"cannot terminate a SQL string literal" (every run of quotes has even length) needs an induction over the string: '
                 'bounded native check only',
                 'bytes values (decoded per C19), method formats returning arbitrary objects'],
)

MANIFEST = dict(
    category='proof',
    text='Var.__init__ (real parser run on representative tags incl. all 12 modifiers in table and reverse order): the compiled '
         'modifier list is exactly the requested modifiers, each once, in the fixed table order. Var.render (real body, abstract '
         'modifiers): the name is resolved first; undefined -> missing= text or KeyError(name); null= exactly for values that are '
         'false and not 0, ending the pipeline; then fmt= (method called once before anything else), string conversion or C format, '
         'the modifiers in table order each consuming the previous result (html_quote skipped only for tainted values), then '
         'truncation: len <= size untouched, otherwise val[:k] + etc with k = size, or l+1 when the last blank of val[:size] at l '
         'satisfies l > size/2, so k <= size (string VCs). lower/upper/capitalize/spacify/sql_quote/url_(un)quote(_plus) equal their '
         'specifications as terms; lemmas for the sql_quote character set and unquote-inverts-quote.',
    note='Trusted: pyvc, z3, cvc5, CPython ast and re (concrete tag texts are matched by CPython re). Assumed: library contracts listed '
         'in the evidence. The native oracle enumeration is a bounded stand-in, not counted.',
    technique='contract-based deductive verification (pyvc symbolic execution, ghost trace of pipeline stages, z3/cvc5 string VCs)',
    design_ref='DESIGN.md 4 C15',
)
