"""C04  Tainted (untrusted) values are always HTML-escaped when inserted."""
from pyvc.run import Prop
from pyvc.contracts import REGISTRY
import contracts  # noqa
from contracts.c04 import TP, RENDER, COMPOSE
from native import c04 as native_c04


def _bounded(tier):
    n, fail = native_c04.search(big=(tier == 'thorough'))
    return dict(name='C04.native_taint_enumeration', tool='native enumeration on the real code',
                bound='4 tainted values x every subset of up to %d of the 12 modifiers x {-, size, null, fmt=%%s} x {name, expr}; every special '
                      'format; entity / SSI forms; C formats (recorded known combinations excluded)' % (3 if tier == 'thorough' else 2),
                cases=n, violation=bool(fail), witness=fail)


def _simple_form():
    """the simple forms untaint through __untaint__ (= quoted) and skip the extra html_quote: read off the real source"""
    import ast
    from pyvc.engine import Engine
    E = Engine(REGISTRY)
    fn = E.lookup_qual('DocumentTemplate._DocumentTemplate.render_blocks_')
    src = ast.unparse(fn.node)
    ok1 = "untaintmethod = getattr(t, '__untaint__', None)" in src and 't = untaintmethod()' in src and 'skip_html_quote = 1' in src
    ok2 = 'if skip_html_quote == 0 and len(block) == 3' in src
    return [dict(oid='C04.structural.simple_form_untaints_once', kind='structural', status='discharged' if (ok1 and ok2) else 'refuted', paths=1,
                 backends=['ast'], ms=0, model=None, havoced=False,
                 detail='in simple forms a value with __untaint__ is replaced by its quoted text and the html_quote step is then '
                        'skipped (escaped once, not twice)')]


PROP = Prop(
    'C04',
    contracts=[REGISTRY[k] for k in TP + RENDER + COMPOSE],
    claims=['*::C04.*', 'C04.structural.*'],
    structural=[_simple_form],
    natives=dict([(k + '::C04.inserted_text_is_escaped', native_c04.witness) for k in COMPOSE]
                 + [(k + '::C04.escaped_at_most_once', native_c04.witness) for k in COMPOSE]),
    native_default=native_c04.native_for,
    bounded=[_bounded],
    z3_ms=1500,     # string queries that z3 does not decide at once stay undecided anyway (cvc5 takes the obligations)
    assumptions=['TaintedString behaves as modelled in pyvc/tainted.py (taken from the AccessControl source)',
                 "urllib.parse.quote / quote_plus never emit '<'; case mapping (lower/upper/capitalize) does not create '<'",
                 'in Var.render the modifiers are abstract functions obeying the taint contract TP; each concrete modifier and special format '
                 'of the module tables is verified against TP separately (tables re-read on every run)',
                 'method formats (fmt=<method of the value>) and structured-text / restructured-text render through code outside the engine'],
    not_decided=['structured_text / restructured_text (docutils, zope.structuredtext) are not under contract',
                 'a sanitising modifier followed by its inverse (url_quote then url_unquote) is a recorded known finding, not a proof gap'],
)

MANIFEST = dict(
    category='other',
    text='Taint contract TP (a tainted argument yields a value that is still a TaintedString, or text in which no "<" can stem from the raw '
         'value) proved for every function in the modifier table and the special-format table of DT_Var as read on this run (html_quote, '
         'url_quote(_plus), url_unquote(_plus), newline_to_br, lower, upper, capitalize, spacify, thousands_commas, sql_quote, the dollar '
         'and length formats); Var.render with a tainted value (plain, two abstract TP modifiers, size/etc with symbolic size, null, C '
         'format, %-format, fmt=html-quote, empty fmt): the text returned is safe and quoted() runs at most once; simple forms untaint '
         'once (AST obligation). Safety of a term is decided on the z3 term (escape chains, constants, digits, substrings, facts on the '
         'path condition) with the solver as fallback.',
    note='Trusted: pyvc, z3, CPython ast. Known findings: url_quote+url_unquote (and the _plus pair) in one tag. The native enumeration is a '
         'bounded stand-in, not counted.',
    technique='contract-based deductive verification (pyvc symbolic execution with a library model of TaintedString, type-state obligation per table entry)',
    design_ref='DESIGN.md 4 C04',
)
