"""C17  Rendering is repeatable and side-effect free; templates survive persistence."""
from pyvc.run import Prop
from pyvc.contracts import REGISTRY
import contracts  # noqa
from contracts.frames import FRAMES, PERSIST, write_sites, publication
from contracts.dt_sort import REV, SORT
from native import c17 as native_c17

INT_PARAM = 'DocumentTemplate.DT_In.int_param'
INITVARS = 'DocumentTemplate.DT_String.String.initvars'


def _bounded(tier):
    n, fail = native_c17.search(big=(tier == 'thorough'))
    return dict(name='C17.native_operation_histories', tool='native enumeration on the real code',
                bound='every history of length <= %d over {render with 3 namespaces, pickle round trip, deep copy, munge to 2 sources, cook} '
                      'compared with a freshly built template; arguments and defaults compared before/after; munge with an empty mapping; '
                      'file template pickle' % (4 if tier == 'thorough' else 3),
                cases=n, violation=bool(fail), witness=fail)


PROP = Prop(
    'C17',
    contracts=[REGISTRY[k] for k in FRAMES + PERSIST] + [REGISTRY[INT_PARAM], REGISTRY[INITVARS],
                                                          REGISTRY['DocumentTemplate.DT_String.String.cook#C01']]
    # the sequence handed to dtml-in belongs to the caller (or to the template's defaults): sorting and reversing work on copies
    + [REGISTRY[k] for k in SORT + REV],
    claims=['*::C13.*input_not_modified', '*::frame.*', '*::C17.*', '*::C01.cook.*', 'frame.write.*', 'frame.publish.cook_is_one_locked_region', '*::frame.publish.*', '*initvars::C02.*', INT_PARAM + '::frame.*'],
    structural=[write_sites, publication],
    native_default=native_c17.native_for,
    bounded=[_bounded],
    assumptions=['namespace values, expressions and blocks are deterministic functions of their inputs and do not modify the template',
                 'pickle / copy.deepcopy rebuild an object from __getstate__ (library behaviour)',
                 'RestrictionCapableEval caches its compiled code on the expression object (library code, value depends on the expression '
                 'text only)',
                 'write sites are enumerated for assignments through ``self``; writes through other names are covered by the symbolic frame '
                 'obligations of String.__call__, the tag renderers and int_param only'],
    not_decided=['the history property (any sequence of renderings, pickle round trips, copies, munge, cook ends in a state that renders like a '
                 'fresh template) is the induction whose step obligations are the frames and persistence clauses here; the induction itself is '
                 'argued, not mechanised (bounded native histories as stand-in)'],
)

MANIFEST = dict(
    category='other',
    text='Frames by symbolic execution: String.__call__ (top-level and sub-template), With/Let/Try/Raise/Return renderers write nothing '
         'to the template, its defaults (globals, _vars) or compiled blocks outside the locked compile step, and nothing to the caller\'s '
         'mapping / keywords; int_param only reads the tag\'s parameter dictionary; initvars gives construction keywords precedence and '
         'skips underscore keys. AST write-site obligations (every run): every assignment through self in render-time functions is on a '
         'per-rendering object or under COOKLOCK -- after the repair no rendering stores anything on a compiled tag. Persistence: '
         '__getstate__ keeps every attribute except _v_* / _p_* and does not modify the template; munge stores the new source before '
         'compiling, recompiles exactly once, replaces the defaults when (and only when) a mapping or keywords are given (an empty mapping '
         'included); a file-based template stores its file name and does not read the file at construction.'
         ' Sorting and reversing inside dtml-in never write to the sequence handed in (sort_sequence / reverse_sequence contracts, input-not-modified clauses); compile-and-publish protocol of String.__call__ as obligations over its symbolic execution.',
    note='Level other: the step obligations are proved, the induction over operation histories is argued. Trusted: pyvc, z3, CPython ast.',
    technique='contract-based deductive verification (pyvc symbolic execution with an effect trace: frame obligations) + AST write-site obligations',
    design_ref='DESIGN.md 4 C17',
)
