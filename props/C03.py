"""C03  html_quote / &dtml-name; output is exactly the HTML-escaped value."""
import ast
from pyvc.run import Prop
from pyvc.contracts import REGISTRY
import contracts  # noqa
from contracts.c03 import C03
from contracts.dt_var import FULL, SIMPLE
from native import c03 as native_c03


def _structural():
    from pyvc.engine import Engine
    from pyvc.values import VFn
    E = Engine(REGISTRY)
    out = []

    def ob(oid, ok, detail):
        out.append(dict(oid='C03.structural.' + oid, kind='structural', status='discharged' if ok else 'refuted', paths=1,
                        backends=['ast'], ms=0, model=None, detail=detail, havoced=False))
    mod = E.load_module('DocumentTemplate.DT_Var')
    sf = mod.globals.get('special_formats')
    hq = E.lookup_qual('DocumentTemplate.html_quote.html_quote')
    ent = None
    if sf is not None and hasattr(sf, 'addr'):
        for k, v in E.heap[sf.addr].entries:
            if getattr(k, 'v', None) == 'html-quote':
                ent = v
    ob('fmt_html_quote_is_html_quote', isinstance(ent, VFn) and ent.qual == hq.qual,
       "fmt=html-quote is bound to the same html_quote function as the html_quote option")
    mods = mod.globals.get('modifiers')
    first = None
    if mods is not None and hasattr(mods, 'addr'):
        items = E.heap[mods.addr].items
        if items and hasattr(items[0], 'items'):
            first = items[0].items[1]
    ob('html_quote_option_is_html_quote', isinstance(first, VFn) and first.qual == hq.qual,
       'the html_quote option applies that function (first entry of the modifier table)')
    return out


def _bounded(tier):
    n, fail = native_c03.search(big=(tier == 'thorough'))
    return dict(name='C03.native_code_point_enumeration', tool='native enumeration on the real code',
                bound=('every code point' if tier == 'thorough' else 'every code point below U+3000 and every 97th above') +
                      ' and all strings of length <= %d over {& < > " \' a e-acute emoji ; #}, through 5 insertion forms; bytes values'
                      % (4 if tier == 'thorough' else 3),
                cases=n, violation=bool(fail), witness=fail)


PROP = Prop(
    'C03',
    contracts=[REGISTRY[k] for k in C03 + FULL + SIMPLE],
    claims=['*::C03.*', 'C03.structural.*'],
    structural=[_structural],
    native_default=native_c03.native_for,
    bounded=[_bounded],
    assumptions=['html.escape is its stdlib source (five str.replace calls), str.replace is SMT-LIB str.replace_all',
                 'the value looked up is an ordinary (untainted) str; tainted values are C04, bytes C19',
                 'z3/cvc5 strings range over code points <= 0x2FFFF; the per-code-point claim is additionally enumerated natively'],
    not_decided=['"none of & < > \\" \' survives" and "unescape(escape(s)) == s" are properties of html.escape itself (stdlib): covered by the '
                 'native enumeration only',
                 'the entity syntax is mapped to "name html_quote" by the scanner: see C07'],
)

MANIFEST = dict(
    category='proof',
    text='render_blocks_ on a quoted simple-form block (&dtml-x; / <dtml-var x html_quote>): for every string value the piece inserted '
         'equals html.escape(value, quote=True) on both the fast path (no quoting needed) and the full path -- the fast-path VC '
         '"no & < > \\" \' in t implies escape(t) == t" is discharged by cvc5; plain insertion leaves the string unchanged; html_quote(s) '
         '== escape(s); the full dtml-var path with html_quote next to other options, and fmt=html-quote, produce escape(string form); '
         'Var.__init__ compiles "x html_quote" to the quoted simple form and "x" to the plain one; fmt=html-quote and the option are '
         'bound to the same function.',
    note='Trusted: pyvc, z3, cvc5, CPython ast. The code-point enumeration is a bounded stand-in, not counted.',
    technique='contract-based deductive verification (pyvc symbolic execution, string VCs over str.replace_all discharged by cvc5)',
    design_ref='DESIGN.md 4 C03',
)
