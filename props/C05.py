"""C05  Security guards mediate every read of client data; '_' names stay private."""
from pyvc.run import Prop
from pyvc.contracts import REGISTRY
import contracts  # noqa
from contracts.c05 import EVAL, CAREFUL, FMT, known_client_sites, site_obligations
from contracts.frames import write_sites
from native import c05 as native_c05

M = 'DocumentTemplate._DocumentTemplate'
ID = M + '.InstanceDict.__getitem__'
WITH = 'DocumentTemplate.DT_With.With.render#C02'
WB = 'DocumentTemplate.DT_In.InClass.renderwb'
WOB = 'DocumentTemplate.DT_In.InClass.renderwob'


def _natives():
    out = {}
    for oid, rem in known_client_sites().items():
        out[oid] = (lambda w, _r=rem: native_c05.witness(dict(site=w.get('site', _r))))
    return out


def _bounded(tier):
    n, fail = native_c05.search(big=(tier == 'thorough'))
    return dict(name='C05.native_recording_guard', tool='native enumeration on the real code',
                bound='16 access channels (name lookup in client and with-objects, expressions: attribute / item / _.getattr / __dict__, '
                      'dtml-in items incl. skip_unauthorized, method formats, let, if; underscore names) with a guard refusing "secret"',
                cases=n, violation=bool(fail), witness=fail)


PROP = Prop(
    'C05',
    contracts=[REGISTRY[k] for k in EVAL + CAREFUL + FMT] + [REGISTRY[ID], REGISTRY[WITH], REGISTRY[WOB], REGISTRY[WB]],
    claims=['*::C05.*', '*C02.C05.*', 'C05.site.*', 'frame.write.DT_Util.Eval.*', WOB + '::cut_item.C10.guarded_element_is_item_at_index', WB + '::cut_item.C10.guarded_element_is_item_at_index'],
    # the choice restricted / unrestricted code is made per rendering: it must not be parked on the shared expression object
    structural=[site_obligations, write_sites],
    natives=_natives(),
    native_default=native_c05.native_for,
    bounded=[_bounded],
    assumptions=['RestrictedPython compiles restricted expressions so that every attribute / item access calls _getattr_ / _getitem_ and '
                 'rejects underscore-prefixed attribute names (library contract, assumed; exercised by the bounded native search)',
                 'the keys of RestrictionCapableEval.globals are read from the installed library on every run (its values are opaque)',
                 'hasattr on a value is an existence probe, not a data read (documented choice, DESIGN.md 4 C05)',
                 'the site ledger enumerates getattr / hasattr / .get( calls, .absolute_url() calls and, in the per-item helpers of dtml-in, '
                 'subscripts local[parameter]; other subscript reads are covered by the contracts only (dtml-in element fetch, InstanceDict)',
                 'a .get(<constant key>) is taken to be a lookup in a dictionary of compiled tag parameters; getattr(x, <protocol name>) '
                 'for the protocol names listed in contracts/c05.py (PROTOCOL) is taken to be a probe, not client data'],
    not_decided=['the tree renderer (TreeDisplay.TreeTag.tpRenderTABLE) is covered by the site ledger only, not by symbolic execution'],
)

MANIFEST = dict(
    category='other',
    text='Guard wiring proved by symbolic execution: Eval.eval uses restricted code and puts the template\'s guarded_getattr / '
         'guarded_getitem under _getattr_ / _getitem_ (after the repair: the item guard is no longer overwritten by the class-level '
         'globals) and runs unrestricted only without guards; _.getattr / _.hasattr read (inst, name) once through the guard; '
         'InstanceDict.__getitem__ reads a client attribute once, through the guard when there is one, and refuses underscore names '
         'before touching the object; dtml-with only passes the guards on; dtml-in fetches each element through guarded_getitem(sequence, '
         'index); method formats fetch the method through the guard. Site ledger (AST, every run): each getattr / hasattr / .get( call, .absolute_url() call and '
         'per-item subscript in the rendering modules is classified by what it reads (existence probe, protocol attribute, guard wiring, own '
         'object, constant-key parameter lookup) independently of variable and helper names; a read of an attribute / item with a computed '
         'name straight from a value is client data read without the guard; 12 such reads bypass the guard (sequence-var-x / first-x / last-x, statistics, sort keys, url, tree ids / urls / sort, '
         '_p_oid): recorded known findings, each replayed natively with a recording guard; an unclassified new read is a violation.',
    note='Level other: the ledger is a classification by hand checked against the AST, not a data-flow proof; the wiring contracts are '
         'proofs. Trusted: pyvc, z3, CPython ast.',
    technique='contract-based deductive verification (pyvc symbolic execution of the guard-wiring functions) + AST call-site obligations against a site ledger',
    design_ref='DESIGN.md 4 C05',
)
