"""C08  Namespace stack and recursion level are restored on every exit path."""
from pyvc.run import Prop
from pyvc.contracts import REGISTRY
import contracts.core, contracts.tags, contracts.dt_string, contracts.dt_in, contracts.dt_util, contracts.dt_insv  # noqa
from contracts.c08_tree import tree_push_pop_pairing
from native import c08 as native_c08

M = 'DocumentTemplate._DocumentTemplate'
FUNCS = [
    M + '.render_blocks', M + '.render_blocks_',
    'DocumentTemplate.DT_With.With.render', 'DocumentTemplate.DT_Let.Let.render',
    'DocumentTemplate.DT_Try.Try.render', 'DocumentTemplate.DT_Try.Try.render_try_except',
    'DocumentTemplate.DT_Try.Try.render_try_finally',
    'DocumentTemplate.DT_Raise.Raise.render', 'DocumentTemplate.DT_Return.ReturnTag.render',
    'DocumentTemplate.DT_String.String.__call__#subtemplate',
    'DocumentTemplate.DT_In.InClass.renderwob', 'DocumentTemplate.DT_In.InClass.renderwb',
    'DocumentTemplate.DT_In.int_param',
]


def _bounded(tier):
    n, fail = native_c08.search(None, max_k=40 if tier == 'thorough' else 12)
    return dict(name='C08.native_injection_sweep', tool='native enumeration on the real code',
                bound='%d template shapes x injection point k<=%d x {exception, dtml-return} x {plain, defaults+kw} (+ level>200)'
                      % (len(native_c08.TEMPLATES), 40 if tier == 'thorough' else 12),
                cases=n, violation=bool(fail), witness=fail)


def _tree_bounded(tier):
    n, fail = native_c08.tree_search()
    return dict(name='C08.native_tree_failures', tool='native enumeration on the real code',
                bound='dtml-tree with branches_expr failing on its k-th call, k <= 7, with and without expand_all, inside dtml-try',
                cases=n, violation=bool(fail), witness=fail)


PROP = Prop(
    'C08',
    contracts=[REGISTRY[f] for f in FUNCS],
    claims=['*', '!*C10.*', '!*C11.*', '!*C12.*', '!*.cover.*'],
    structural=[tree_push_pop_pairing],
    native_default=native_c08.native_for,
    bounded=[_bounded, _tree_bounded],
    not_decided=['TreeDisplay.TreeTag.tpRender / tpRenderTABLE (dtml-tree) are not symbolically executed (290-line recursive '
                 'renderer); their push/pop discipline is decided by the syntactic sufficient condition C08.tree.* (every push '
                 'immediately followed by try/finally popping as many entries, no other pop) on the real source',
                 'third-party tag classes and namespace callables are assumed to obey the same stack-neutral protocol'],
)

MANIFEST = dict(
    category='proof',
    text='Stack-neutrality contract (namespace entries and level equal their entry values on the normal exit and on every '
         'exceptional exit, DTReturn included) proved by symbolic execution of the real bodies of render_blocks(_), With/Let/Try/'
         'Raise/Return render functions, both dtml-in renderers and String.__call__ in its sub-template role; an exceptional '
         'path is forked at every call, so "an exception at any point" is covered for every template by induction over block '
         'nesting (each function is proved assuming the same contract for the blocks it calls). dtml-tree (tpRender, tpRenderTABLE, '
         'get_items): syntactic frame condition on the real source -- every push immediately followed by try/finally popping as '
         'many entries, no other pop (C08.tree.*).',
    note='Trusted: pyvc, z3, CPython ast. Assumed: opaque callables (namespace values, expressions, third-party tags) obey the '
         'protocol; io.StringIO/traceback.print_exc do not raise; truthiness/len of plain values do not raise; a namespace has '
         'both guard attributes set (established by String.__call__); the dtml-tree renderer is covered by the syntactic '
         'condition only (its bodies are not symbolically executed). The native injection sweep '
         'is a bounded stand-in and is not counted as proof.',
    technique='contract-based deductive verification (pyvc symbolic execution of the real source + z3), loop invariants and cut points; AST frame obligations for the dtml-tree renderer',
    design_ref='DESIGN.md 4 C08',
)
