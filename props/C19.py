"""C19  Bytes in mixed output decode with the template encoding; str() is safe."""
import ast
import os
from pyvc.run import Prop
from pyvc.contracts import REGISTRY
import contracts  # noqa
from contracts.c19 import JOIN, RENDER, USTRV, EXC, HQV, FULLV
from native import c19 as native_c19

MODULES = ['_DocumentTemplate', 'DT_String', 'DT_In', 'DT_With', 'DT_Let', 'DT_Try', 'DT_Raise', 'DT_If', 'DT_Return', 'DT_Var',
           'DT_Util', 'DT_HTML', 'DT_InSV']
SINKS = {'render_blocks', 'render_blocks_', 'join_unicode', 'html_quote'}


def _structural():
    """every call of a rendering / joining / quoting function inside the package passes on the encoding in force there:
    ``self.encoding`` inside a compiled tag object, the ``encoding`` parameter inside the renderer functions, the
    template's ``encoding`` attribute in String.__call__; block tags are constructed with the template's encoding"""
    from pyvc.engine import REPO_SRC
    out = []

    def ob(oid, ok, detail):
        out.append(dict(oid='C19.callsite.' + oid, kind='structural', status='discharged' if ok else 'refuted', paths=1,
                        backends=['ast'], ms=0, model=None, detail=detail, havoced=False))
    nsites = 0
    for m in MODULES:
        path = os.path.join(REPO_SRC, 'DocumentTemplate', m + '.py')
        tree = ast.parse(open(path).read())
        for fn in [n for n in ast.walk(tree) if isinstance(n, ast.FunctionDef)]:
            aliases = set(SINKS)
            for n in ast.walk(fn):      # local aliases such as ``render = render_blocks``
                if isinstance(n, ast.Assign) and isinstance(n.value, ast.Name) and n.value.id in SINKS:
                    aliases |= {t.id for t in n.targets if isinstance(t, ast.Name)}
            params = {a.arg for a in fn.args.args + fn.args.kwonlyargs}
            localenc = None
            for n in ast.walk(fn):
                if isinstance(n, ast.Assign) and len(n.targets) == 1 and isinstance(n.targets[0], ast.Name) and n.targets[0].id == 'encoding':
                    localenc = ast.unparse(n.value)
            ordinal = {}
            for c in sorted([n for n in ast.walk(fn) if isinstance(n, ast.Call) and isinstance(n.func, ast.Name) and n.func.id in aliases],
                            key=lambda n: (n.lineno, n.col_offset)):
                target = c.func.id
                ordinal[target] = ordinal.get(target, 0) + 1
                kw = {k.arg: ast.unparse(k.value) for k in c.keywords if k.arg}
                given = kw.get('encoding')
                if given is None and target in ('render_blocks_',) and len(c.args) >= 4:
                    given = ast.unparse(c.args[3])
                if given is None and target in ('render_blocks', 'render') and len(c.args) >= 3:
                    given = ast.unparse(c.args[2])
                if 'self' in params and 'encoding' not in params and localenc is None:
                    want = ['self.encoding']
                elif 'encoding' in params:
                    want = ['encoding']
                else:
                    # a local ``encoding`` holding the tag's / template's own encoding attribute: both spellings name the same value
                    want = ['encoding', 'self.encoding'] if localenc and 'self' in localenc and 'encoding' in localenc else ['self.encoding']
                nsites += 1
                ob('%s.%s.%s#%d' % (m, fn.name, target, ordinal[target]), given in want,
                   '%s.%s calls %s(...) with encoding=%s (the encoding in force there is %s)' % (m, fn.name, target, given, ' / '.join(want)))
    # block tags are constructed with the template's encoding; String.__call__ reads the template's own encoding
    path = os.path.join(REPO_SRC, 'DocumentTemplate', 'DT_String.py')
    tree = ast.parse(open(path).read())
    pb = [n for n in ast.walk(tree) if isinstance(n, ast.FunctionDef) and n.name == 'parse_block'][0]
    src = ast.unparse(pb)
    ob('DT_String.parse_block.constructs_tags_with_template_encoding',
       "encoding = getattr(self, 'encoding', _dt.OLD_DEFAULT_ENCODING)" in src and 'scommand(blocks, encoding=encoding)' in src,
       'block tags are constructed with encoding=<the template\'s encoding>')
    call = [n for n in ast.walk(tree) if isinstance(n, ast.FunctionDef) and n.name == '__call__'][0]
    ob('DT_String.__call__.uses_the_templates_encoding', "encoding = getattr(self, 'encoding', None)" in ast.unparse(call),
       'String.__call__ renders with the template\'s own encoding attribute')
    init = [n for n in ast.walk(tree) if isinstance(n, ast.FunctionDef) and n.name == '__init__' and 'encoding' in {a.arg for a in n.args.args}][0]
    ob('DT_String.__init__.default_encoding', 'self.encoding = encoding or _dt.NEW_DEFAULT_ENCODING' in ast.unparse(init),
       'a new template stores the encoding it was created with (default: NEW_DEFAULT_ENCODING)')
    ob('sites_found', nsites >= 20, 'call sites enumerated: %d' % nsites)
    return out


def _native(w):
    return native_c19.witness(w)


def _bounded(tier):
    n, fail = native_c19.search(big=(tier == 'thorough'))
    return dict(name='C19.native_encoding_forms', tool='native enumeration on the real code',
                bound='6 texts (Latin-1, BMP, astral) x {utf-8, latin-1, cp1252, utf-16} x 9 insertion forms (plain, entity, html_quote, '
                      'dtml-in plain/batched, if, with, let, try); ustr on 12 values',
                cases=n, violation=bool(fail), witness=fail)


PROP = Prop(
    'C19',
    contracts=[REGISTRY[k] for k in JOIN + RENDER + USTRV + EXC + HQV + FULLV],
    claims=['*::C19.*', 'C19.callsite.*'],
    structural=[_structural],
    natives={k + '::C19.full_path_decodes_with_template_encoding': _native for k in FULLV},
    native_default=native_c19.native_for,
    bounded=[_bounded],
    assumptions=['bytes.decode(encoding) is an uninterpreted function of (value, encoding) that may raise UnicodeDecodeError',
                 'join_unicode is proved for every list of up to 3 pieces, each an arbitrary str or bytes value (the loop over longer lists '
                 'treats every position alike; that generalisation is not mechanised)',
                 'scope: the DocumentTemplate package (the files the property is anchored in); dtml-tree passes no encoding to its body '
                 'renderer and falls back to latin-1 -- not claimed here'],
    not_decided=['decode(encode(s, E), E) == s is a codec property (assumed); the equivalence "inserting s.encode(E) is inserting s" follows '
                 'from it and the clauses here, and is exercised by the bounded native search'],
)

MANIFEST = dict(
    category='other',
    text='join_unicode (real body, every piece list up to length 3 over str/bytes): the result is text, equal to the concatenation of '
         'the pieces in order with each bytes piece decoded exactly once with the encoding passed in (OLD_DEFAULT_ENCODING when none); '
         'render_blocks returns "", the single piece, or join_unicode(pieces, its own encoding); html_quote decodes bytes (with the '
         'encoding passed in, else Latin-1) before escaping; ustr returns str and bytes as they are, converts exception objects through '
         'their arguments ("" / ustr(arg) / str(args)), calls only the value\'s own __str__ and raises by itself only ValueError for a '
         '__str__ of the wrong type; call-site obligations (AST, every run): every render_blocks / join_unicode / html_quote call in '
         'the package passes the encoding in force (self.encoding in tags, the parameter in the renderer, the template attribute in '
         'String.__call__), block tags are constructed with the template encoding. The full dtml-var path (html_quote next to other '
         'options, fmt=html-quote) decodes bytes as Latin-1: recorded known findings.',
    note='Trusted: pyvc, z3, CPython ast. The native enumeration is a bounded stand-in, not counted.',
    technique='contract-based deductive verification (pyvc symbolic execution with ghost decode events; AST call-site obligations)',
    design_ref='DESIGN.md 4 C19',
)
