"""C14  try/except/else/finally, raise and return follow Python-like control flow."""
from pyvc.run import Prop
from pyvc.contracts import REGISTRY
import contracts.core, contracts.dt_try, contracts.dt_string  # noqa
from native import c14 as native_c14

T = 'DocumentTemplate.DT_Try.Try'
FUNCS = [T + '.match_base', T + '.find_handler#handlersN'] + [T + '.find_handler#handlers%d' % k for k in range(0, 5)] + [
    T + '.render_try_except#C14', T + '.render_try_finally#C14',
    'DocumentTemplate.DT_Raise.Raise.render#C14', 'DocumentTemplate.DT_Return.ReturnTag.render#C14',
    'DocumentTemplate.DT_String.String.__call__#subtemplate']


def _bounded(tier):
    n, fail = native_c14.search()
    return dict(name='C14.native_control_flow_enumeration', tool='native enumeration on the real code',
                bound='handler lists of 1..3 names over a depth-3 class hierarchy x 4 raised classes; 14 else/finally/return/raise shapes',
                cases=n, violation=bool(fail), witness=fail)


PROP = Prop(
    'C14',
    contracts=[REGISTRY[f] for f in FUNCS],
    claims=['*::C14.*', '*::ensures.C14.*', '*::exc_ensures.C14.*', T + '.match_base::*', '*find_handler*::raises_only'],
    native_default=native_c14.native_for,
    bounded=[_bounded],
    not_decided=['find_handler is proved per handler-list length 0..4 (complete unrolling), not for unbounded length',
                 'the exception object dtml-raise constructs (upgradeException(t, rendered body)) is library behaviour: assumed',
                 'nested try blocks are covered by modularity: every render function is proved against the same contract '
                 'for the blocks it calls'],
)

MANIFEST = dict(
    category='proof',
    text='match_base proved equivalent to the ancestor relation of the class graph (recursive contract + quantified loop '
         'invariant); find_handler returns the first handler naming the class, a base class or bare (None if none); trace '
         'obligations on the real render_try_except / render_try_finally / Raise.render / ReturnTag.render / String.__call__: '
         'handlers consulted only for a body exception, only the chosen handler rendered with error_value bound on top, '
         'unmatched and handler/else exceptions propagate, else appended only after a clean body, finally rendered exactly '
         'once with the pending exception continuing, DTReturn passes through try and raise and becomes the call result.'
         ' find_handler additionally proved for handler lists of ANY length (loop invariant: no handler before the current position matches).',
    note='Trusted: pyvc, z3, CPython ast. Assumed: class graph well-founded; opaque blocks obey the stack protocol; renderings '
         'are text; StringIO/print_exc/upgradeException/convertExceptionType library contracts. find_handler per list length <= 4.',
    technique='contract-based deductive verification (pyvc symbolic execution + ghost trace obligations, z3 with quantifiers)',
    design_ref='DESIGN.md 4 C14',
)
