"""C12  Batching a lazy sequence pulls only the window plus one look-ahead batch."""
from pyvc.run import Prop
from pyvc.contracts import REGISTRY
import contracts  # noqa
from native import c12 as native_c12

SFI = 'DocumentTemplate.DT_Util.SequenceFromIter'
OPT = 'DocumentTemplate.DT_InSV.opt'
WB = 'DocumentTemplate.DT_In.InClass.renderwb'
WOB = 'DocumentTemplate.DT_In.InClass.renderwob'
PBT = 'DocumentTemplate.DT_InSV.sequence_variables.previous_batches#C12'


def _bounded(tier):
    n, fail = native_c12.search()
    return dict(name='C12.native_counting_iterators', tool='native enumeration on the real code',
                bound='counting iterators of length 3, 7, 20 and unbounded x start/size/orphan combinations; unbatched; nested by name',
                cases=n, violation=bool(fail), witness=fail)


PROP = Prop(
    'C12',
    contracts=[REGISTRY[SFI + '.__getitem__'], REGISTRY[SFI + '.__getitem__#unbounded'], REGISTRY[SFI + '.__len__'],
               REGISTRY[OPT], REGISTRY[WB], REGISTRY[WOB], REGISTRY[PBT]],
    claims=[SFI + '*', OPT + '::ensures.no_neg_probe', OPT + '::ensures.len_only_after_failed_probe', OPT + '::ensures.pull_bound',
            WB + '::*C12.*', WOB + '::*C12.*', WB + '::call.opt.*', PBT + '::*'],
    native_default=native_c12.native_for,
    bounded=[_bounded],
    assumptions=['0 <= overlap < size and orphan >= 0 (the property\'s "one look-ahead batch" bound is stated for these)'],
    not_decided=['unbatched rendering pulls every element exactly once: follows from SequenceFromIter.__len__ (all pulled, each '
                 'next() result stored once) and the loop "for index in range(l_)" reading stored elements; the composition is '
                 'not a separate mechanised obligation',
                 'sort, reverse, sequence-length, next-batches and statistics are excepted by the property',
                 'of the per-item variables only previous-batches is under a laziness contract; the other names of '
                 'sequence_variables.__getitem__ read the current element or the data dictionary (C10 contracts) and are not given a '
                 'pull-count clause'],
)

MANIFEST = dict(
    category='proof',
    text='SequenceFromIter: representation invariant (data is exactly the consumed prefix, in order, once), __getitem__ pulls '
         'max(old, idx+1) elements and nothing for a negative index, terminates (measure), also for unbounded iterators; __len__ '
         'exhausts; opt never probes a negative index, calls len() only after a failed probe, and pulls at most the window plus '
         'orphan; renderwb keeps pulled <= max(pulled at entry, end+size+orphan) through the whole loop (inductive invariant and '
         'cut-point obligations) and calls len() only when a probe has exhausted the sequence; the name form caches the wrapped '
         'sequence so the body sees the same memoising wrapper; previous-batches (not an excepted request) pulls nothing beyond '
         'the previous window (start - 1 + overlap), which is within the look-ahead bound, and terminates.',
    note='Trusted: pyvc, z3, CPython ast. Assumed: abstract lazy-sequence model with ghost pull counter; 0 <= overlap < size, '
         'orphan >= 0, integer parameters.',
    technique='contract-based deductive verification (pyvc symbolic execution, ghost pull counter, loop invariants, z3 with quantifiers)',
    design_ref='DESIGN.md 4 C12',
)
