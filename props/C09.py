"""C09  if/elif/else/unless render the first true branch, lazily and evaluating once."""
from pyvc.run import Prop
from pyvc.contracts import REGISTRY
import contracts.core, contracts.dt_if  # noqa
from native import c09 as native_c09

M = 'DocumentTemplate._DocumentTemplate'
FUNCS = [M + '.render_blocks_'] + ['DocumentTemplate.DT_If.If.__init__#blocks%d' % k for k in range(1, 7)] + [
    'DocumentTemplate.DT_If.Unless.__init__', 'DocumentTemplate.DT_Var.Call.__init__']


def _bounded(tier):
    n, fail = native_c09.search(4 if tier == 'thorough' else 3)
    return dict(name='C09.native_chain_enumeration', tool='native enumeration on the real code',
                bound='chains of 1..%d named conditions x else? x empty bodies x values {true,0,None,"",undefined}' % (4 if tier == 'thorough' else 3),
                cases=n, violation=bool(fail), witness=fail)


PROP = Prop(
    'C09',
    contracts=[REGISTRY[f] for f in FUNCS],
    claims=['*::C09.*', M + '.render_blocks_::loop2.*', '*::raises_only'],
    native_default=native_c09.native_for,
    bounded=[_bounded],
    not_decided=['If.__init__ is proved for section lists of length 1..6 (the property\'s own domain: 1..5 conditions plus '
                 'else) by complete unrolling per length, not for unbounded length',
                 'that every reference to the condition name inside the chosen body resolves to the cached value follows '
                 'from the cache being the top namespace entry during the body (C02 resolution order); rebinding by inner '
                 'blocks is allowed by the property'],
)

MANIFEST = dict(
    category='proof',
    text="Ghost evaluation trace of the real 'i' interpreter loop in render_blocks_: per iteration exactly one evaluation of the "
         "current condition, a successful name lookup cached once under its name with the looked-up value, false/undefined "
         "conditions render nothing and are not cached, the first true condition renders exactly its own body and disables the "
         "else, no evaluation afterwards, else body only when no condition was true; loop invariants (icond even, nothing "
         "rendered before a true condition) and termination measure; compile shape of If (one (condition, body) pair per section "
         "in source order, else last), Unless ('i', c, None, body) and Call ('i', c, None) from the real constructors.",
    note='Trusted: pyvc, z3, CPython ast. Assumed: opaque conditions/bodies obey the stack protocol; parse_params/name_param '
         'seen through their contracts; section lists handed to If.__init__ are named as String.parse_block names them. '
         'If.__init__ proved per list length 1..6. Native chain enumeration is a bounded stand-in, not counted.',
    technique='contract-based deductive verification (pyvc symbolic execution + ghost trace obligations, z3)',
    design_ref='DESIGN.md 4 C09',
)
