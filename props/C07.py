"""C07  The three surface syntaxes of a template compile and render identically."""
from pyvc.run import Prop
from pyvc.contracts import REGISTRY
import contracts  # noqa
from contracts.parser import RC, PTV, parsetag_equivalence, ST, HT, epfs_arguments
from contracts.dt_var import SIMPLE
from native import c07 as native_c07


def _shared_compiler():
    """R1: HTML (and the SSI / dtml / entity forms it accepts) uses the compiler of String unchanged"""
    from pyvc.engine import Engine
    E = Engine(REGISTRY)
    html = E.lookup_qual(HT)
    shared = ('parse', 'parse_block', 'parse_close', 'skip_eol', '_parseTag', 'cook', '__call__', 'parse_error')
    own = [n for n in shared if n in html.attrs]
    var_extra = html.attrs.get('varExtra')
    import ast
    ok2 = var_extra is not None and ast.unparse(var_extra.node.body[-1]).strip() == "return 's'"
    return [
        dict(oid='C07.structural.html_uses_the_string_compiler', kind='structural', status='discharged' if not own else 'refuted', paths=1,
             backends=['ast'], ms=0, model=None, havoced=False,
             detail='class HTML overrides none of %s: the three syntaxes share one compiler, parameterised only by the tag matcher and parseTag%s'
                    % (', '.join(shared), '' if not own else ' (overrides: %s)' % own)),
        dict(oid='C07.structural.html_var_format_is_s', kind='structural', status='discharged' if ok2 else 'refuted', paths=1,
             backends=['ast'], ms=0, model=None, havoced=False,
             detail="HTML.varExtra is 's': <dtml-var x> compiles like %(x)s / %(var x)s"),
    ]


def _bounded(tier):
    n, fail = native_c07.search(big=(tier == 'thorough'))
    return dict(name='C07.native_three_syntaxes', tool='native enumeration on the real code',
                bound='10 abstract templates (var, if/elif/else, in/else, with, let, try/except, unless, nested) printed as <dtml->, <!--#--> and '
                      '%()[ ]: compiled blocks compared structurally, rendered with 2 namespaces; 4 entity forms; 5 spelling variants',
                cases=n, violation=bool(fail), witness=fail)


PROP = Prop(
    'C07',
    contracts=[REGISTRY[RC + '.search#M']] + [REGISTRY[k] for k in PTV + SIMPLE],
    claims=['*::C07.*', 'C07.relational.*', 'C07.structural.*', 'C07.epfs.*', '*::C03.simple_form'],
    structural=[_shared_compiler, parsetag_equivalence, epfs_arguments],
    native_default=native_c07.native_for,
    bounded=[_bounded],
    assumptions=['the EPFS tag regex and the SSI / dtml scanner deliver the same (name, args, end?) fields for the same abstract tag: not proved '
                 '(scanner correspondence); bounded native comparison only'],
    not_decided=['the composition "equal fields from the scanners + equal parseTag + shared compiler => equal block trees for every abstract '
                 'template" is a structural induction that is argued, not mechanised'],
)

MANIFEST = dict(
    category='other',
    text='R1 (AST): HTML overrides none of parse / parse_block / parse_close / skip_eol / _parseTag / cook / __call__: one compiler for all '
         'syntaxes; HTML.varExtra is "s". R2 (relational, z3): for every (end?, name, args, enclosing command, sargs) String.parseTag and '
         'HTML.parseTag have the same outcome -- every pair of paths with different outcomes is jointly infeasible (1236 pairs). R3: the '
         'EPFS plain form %(name args)s is a var tag with arguments "name args". R4 (scanner contract, all texts): &dtml-NAME; yields a var '
         'tag with arguments "NAME html_quote", &dtml.f1.f2-NAME; one with "NAME f1 f2"; "x html_quote" compiles to the quoted simple form.',
    note='Level other: scanner correspondence between the regex and the hand-written scanner and the final induction are not mechanised. '
         'Trusted: pyvc, z3, cvc5, CPython ast.',
    technique='contract-based deductive verification (relational comparison of the symbolic executions of both parseTag implementations; scanner post-conditions) + AST obligations',
    design_ref='DESIGN.md 4 C07',
)
