"""C13  Sorting yields a stable, correctly ordered permutation and never mutates its input."""
from pyvc.run import Prop
from pyvc.contracts import REGISTRY
import contracts  # noqa
from contracts.dt_sort import SORTBY, HELPERS, MSF, REV, SORT
from native import c13 as native_c13

WB = 'DocumentTemplate.DT_In.InClass.renderwb'
WOB = 'DocumentTemplate.DT_In.InClass.renderwob'


def _bounded(tier):
    n, fail = native_c13.search(big=(tier == 'thorough'))
    return dict(name='C13.native_sort_oracle', tool='native enumeration on the real code',
                bound='lists of 0..5 elements with int/str/float/bool/date/Decimal keys (duplicates, None), attribute / mapping / '
                      'callable keys, with and without reverse; two-key specs with nocase/desc; sort_expr; 2-tuples; batching',
                cases=n, violation=bool(fail), witness=fail)


PROP = Prop(
    'C13',
    contracts=[REGISTRY[k] for k in SORT + SORTBY + HELPERS + MSF + REV] + [REGISTRY[WOB], REGISTRY[WB]],
    claims=['*::C13.*', '*.C13.*', '*sort_sequence#*::loop*.elem_shape*'],
    native_default=native_c13.native_for,
    bounded=[_bounded],
    assumptions=['list.sort(key=...) is a stable ascending permutation by the key (library contract, assumed); '
                 'zope.sequencesort _Smallest compares below every other value',
                 'sort specifications are covered by shape: empty, one key, two keys (attribute and mapping access), with '
                 'comparison functions and directions; the key names are representatives (k, a, b) -- the code uses the name only '
                 'to read the attribute / item'],
    not_decided=['order, permutation and stability of the final result are consequences of the assumed list.sort contract applied '
                 'to the decorated pairs; they are not re-proved here',
                 'mutual order of elements whose key is missing or None is unspecified by the property'],
)

MANIFEST = dict(
    category='proof',
    text='sort_sequence (real body, per sort-spec shape, any sequence length): the decorate loop appends exactly one (key, element) '
         'pair per element carrying the element itself; the key is the element / the key of a 2-tuple for an empty sort, else per '
         'field the attribute or mapping item of the element (value of a 2-tuple), called once when callable, used as is when not '
         'callable, None or missing mapped to the smallest key; list.sort is applied exactly once to these pairs with only a key '
         'function (itemgetter(0), or cmp_to_key(SortBy) over the triples of the option) and no reverse flag; the undecorate loop '
         'emits exactly the elements in sorted order into a new list; the input list is not written. SortBy: lexicographic, first '
         'differing key decides, result multiplied by +1/-1; cmp and nocase; make_sortfunctions per option shape incl. rejections; '
         'reverse_sequence: exact reverse of a copy. Renderers: sort runs before reverse, each iff requested, reverse on the '
         'sorted result, and only the local variable is rebound.',
    note='Trusted: pyvc, z3, CPython ast. Assumed: list.sort/list.reverse/list() library contracts, _Smallest below everything, '
         'comparison functions return ints. The native oracle enumeration is a bounded stand-in, not counted.',
    technique='contract-based deductive verification (pyvc symbolic execution, ghost trace obligations per loop iteration, z3)',
    design_ref='DESIGN.md 4 C13',
)
