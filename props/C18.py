"""C18  Concurrent renders of one shared template give sequential results."""
from pyvc.run import Prop
from pyvc.contracts import REGISTRY
import contracts  # noqa
from contracts.frames import FRAMES, write_sites, publication
from native import c18 as native_c18


def _bounded(tier):
    n, fail = native_c18.search(big=(tier == 'thorough'))
    return dict(name='C18.native_single_preemption_schedules', tool='forced schedules on the real code (sys.settrace)',
                bound='2 threads, one shared template using in/sort_expr/reverse_expr, if, let, with, try, batched in; thread A preempted once '
                      'before %s line it executes inside the package, thread B runs to completion in the gap; template compiled before / '
                      'compiled by the racing threads' % ('every' if tier == 'thorough' else 'every ~1/100th'),
                cases=n, violation=bool(fail), witness=fail)


PROP = Prop(
    'C18',
    contracts=[REGISTRY[k] for k in FRAMES[:2]],
    claims=['*::frame.no_write_to_the_template_or_its_defaults', 'frame.write.*', 'frame.publish.*', '*::frame.publish.*'],
    structural=[write_sites, publication],
    native_default=native_c18.native_for,
    bounded=[_bounded],
    assumptions=['CPython attribute reads and writes are atomic and sequentially consistent (GIL)',
                 'confinement is a sufficient condition: if no rendering writes to an object shared between renderings (outside the compile '
                 'lock), every thread computes what it computes alone, under every schedule',
                 'namespace values supplied by the caller are not shared between the threads (each thread has its own namespace)',
                 'library objects cached on shared tags (compiled expression code) depend on the expression text only'],
    not_decided=['no interleavings are explored by the proof part; the forced single-preemption schedules are a bounded stand-in',
                 'writes through names other than self are covered only where a symbolic frame obligation exists (String.__call__, tag renderers, int_param)'],
)

MANIFEST = dict(
    category='other',
    text='Thread confinement as a sufficient condition for all schedules: (1) AST obligations on every run: every assignment through self in '
         'a function that runs at render time targets an object created per rendering or happens under COOKLOCK; any other write is a '
         'violation (the per-rendering sort key stored on the shared dtml-in tag was found this way and repaired); (2) publication: cook '
         'does all its work, parsing included, in one locked region, stores the compiled blocks before the cooked flag; String.__call__ '
         'tests the flag before its single read of the blocks and creates its namespace per call; the stateful tag matcher is created per '
         'parse; (3) symbolic frame of String.__call__: no write to the template or its defaults outside the locked compile step.'
         ' The call-side half of the publication protocol (flag tested or template cooked before rendering, published blocks rendered once, namespace created by this call) is decided over the symbolic execution of String.__call__, not by text matching.',
    note='Level other: sufficient-condition argument; schedules themselves are only sampled (bounded stand-in). Trusted: pyvc, z3, CPython ast.',
    technique='contract-based deductive verification (frame obligations by pyvc symbolic execution + AST write-site and lock-region obligations)',
    design_ref='DESIGN.md 4 C18',
)
