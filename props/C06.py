"""C06  Compiling any source terminates and fails only with a located ParseError."""
from pyvc.run import Prop
from pyvc.contracts import REGISTRY
import contracts  # noqa
from contracts.parser import RC, PA, PB, PC, PE, PTV, CTORS, c06_structural
from native import c06 as native_c06


def _bounded(tier):
    n, fail = native_c06.search(big=(tier == 'thorough'))
    return dict(name='C06.native_mutation_fuzz', tool='native enumeration on the real code',
                bound='18 valid HTML/SSI templates and 5 EPFS templates: every truncation, single character deletion, duplication and swap; '
                      '%d random concatenations of 30 tag fragments in both syntaxes; nesting depth 20/40/80 timing' % (4000 if tier == 'thorough' else 1200),
                cases=n, violation=bool(fail), witness=fail)


PROP = Prop(
    'C06',
    contracts=[REGISTRY[RC + '.search#M'], REGISTRY[PA + '#C01'], REGISTRY[PB + '#C01'], REGISTRY[PC + '#C01'], REGISTRY[PE + '#C06']]
    + [REGISTRY[k] for k in PTV + CTORS],
    claims=['*::C06.*', '*::raises_only', '*::loop*.decreases', 'C06.structural.*'],
    structural=[c06_structural],
    natives={'C06.structural.epfs_tag_pattern_has_no_ambiguous_repetition': native_c06.epfs_witness,
             'DocumentTemplate.DT_Var.Var.__init__#C06.12::C06.constructor_verdict': native_c06.duplicate_flag_witness},
    native_default=native_c06.native_for,
    bounded=[_bounded],
    assumptions=['tag constructors are abstract in the compiler proof (they return a tag object or raise ParseError(message, tag)); Var and Let '
                 'constructors are run on representative argument strings, the others are covered by the bounded mutation fuzz only',
                 'time spent inside the re engine is not a contract on repository code: covered by the pattern-shape obligations and timing',
                 'RestrictionCapableEval(expr) raises only SyntaxError'],
    not_decided=['"rejected if and only if the tag grammar is violated" needs an independent grammar and an induction over parse_params: not decided; '
                 'the bounded mutation fuzz checks that valid templates are accepted and that every rejection is a located ParseError',
                 'polynomial time: termination measures are proved for every loop of the scanner and the compiler (each iteration advances); '
                 'the bound on the work per iteration (regex matching) rests on the pattern-shape obligations'],
)

MANIFEST = dict(
    category='other',
    text='Exception closure and termination by symbolic execution over symbolic source text: dtml_re_class.search raises nothing and '
         'terminates (measure len(text) - position on all three loops); String.parse, parse_block and parse_close let only ParseError '
         'escape and strictly advance (termination measure), given tag constructors that raise only ParseError; both parseTag '
         'implementations raise only ParseError(message, tag) ("unexpected end tag" exactly when no block is open or it names another '
         'tag; "Unexpected tag" for unknown names) and never yield an end / continuation tag outside a block; parse_error always raises '
         'ParseError whose message names the tag and the line 1 + number of newlines before the tag start; Var and Let constructors on '
         'representative arguments. AST obligations: every raise ParseError passes (message, tag); scanner patterns have no ambiguous '
         'nested repetition. Known finding: the EPFS tag pattern of String.tagre has one (exponential matching time on an unterminated '
         '%(tag).'
         ' Located errors: at every parse_error(message, tag, text, position) call of parse / parse_block / parse_close the position is where the named tag starts (text[position:position+len(tag)] == tag), parseTag errors carry the tag they were given.',
    note='Level other: the iff-grammar claim is not decided; constructor closure is partly bounded. Trusted: pyvc, z3, cvc5, CPython ast/re.',
    technique='contract-based deductive verification (pyvc symbolic execution: raises-only clauses and termination measures) + AST obligations',
    design_ref='DESIGN.md 4 C06',
)
