"""C01  Text outside tags is reproduced verbatim, in order; rendering composes."""
from pyvc.run import Prop
from pyvc.contracts import REGISTRY
import contracts  # noqa
from contracts.parser import RC, PA, PB, PC, SK
from native import c01 as native_c01

M = 'DocumentTemplate._DocumentTemplate'


def _render_literals():
    """render level: a str / bytes block is appended as it is, in block order (AST of the real render_blocks_)"""
    import ast
    from pyvc.engine import Engine
    E = Engine(REGISTRY)
    fn = E.lookup_qual(M + '.render_blocks_')
    node = fn.node
    src = ast.unparse(node)
    loop = [n for n in node.body if isinstance(n, ast.For)]
    ok1 = len(loop) == 1 and ast.unparse(loop[0].iter) == 'blocks'
    last = loop[0].body[-1] if ok1 else None
    ok2 = last is not None and isinstance(last, ast.If) and ast.unparse(last.test) == 'append and block' \
        and ast.unparse(last.body[0]).strip() == 'rendered.append(block)' and len(last.body) == 1 and not last.orelse
    # a literal block is not a tuple starting with a str and not callable: it falls through both special cases unchanged
    ok3 = 'isinstance(block, tuple) and len(block) > 1 and isinstance(block[0], str)' in src and 'elif not isinstance(block, (str, bytes)):' in src
    out = []
    for oid, ok, d in (('blocks_rendered_in_order', ok1, 'render_blocks_ visits the blocks in order, once each'),
                       ('every_block_appends_at_most_its_one_piece_last', ok2, 'the only append of the loop body is rendered.append(block) at its end, for a non-empty piece'),
                       ('literal_blocks_pass_through_unchanged', ok3, 'a str / bytes block is neither interpreted nor called: it is the piece appended')):
        out.append(dict(oid='C01.render.' + oid, kind='structural', status='discharged' if ok else 'refuted', paths=1, backends=['ast'], ms=0,
                        model=None, detail=d, havoced=False))
    return out


def _bounded(tier):
    n, fail = native_c01.search(big=(tier == 'thorough'))
    return dict(name='C01.native_literal_text', tool='native enumeration on the real code',
                bound='all sequences of up to %d near-tag fragments (24 fragments) + random longer ones in both syntaxes (no-tag identity); 512 '
                      'literal triples around and inside tags; all pairs of 8 well-formed templates (concatenation law)' % (3 if tier == 'thorough' else 2),
                cases=n, violation=bool(fail), witness=fail)


def _no_module_state():
    """the engine reads module-level containers with their initial contents; that is justified only if no compile- or
    render-time function writes module-level state (the obligations of contracts/frames.py that say so)"""
    from contracts.frames import write_sites
    return [o for o in write_sites() if 'module-level state' in o['detail'] or o['oid'] == 'frame.write.sites_enumerated']


def _matcher_is_private():
    from contracts.frames import publication
    return [o for o in publication() if o['oid'] in ('frame.publish.matcher_per_parse', 'frame.publish.cook_is_one_locked_region',
                                                       'frame.publish.parse_inside_lock')]


PROP = Prop(
    'C01',
    contracts=[REGISTRY[RC + '.search#M'], REGISTRY[PA + '#C01'], REGISTRY[PB + '#C01'], REGISTRY[PC + '#C01'], REGISTRY[SK + '#C01'],
               REGISTRY['DocumentTemplate.DT_String.String.cook#C01']],
    claims=['*::C01.*', '*::loop*', 'C01.render.*', 'frame.write.*', '*::ensures.range', '*::call.*', '*::C07.entity_is_a_var_tag',
            'frame.publish.matcher_per_parse', 'frame.publish.cook_is_one_locked_region', 'frame.publish.parse_inside_lock'],
    # the contract of parse() is proved against a matcher whose match state belongs to this parse: the matcher object is created
    # per parse and compilation runs as one locked region (the two structural facts the proof of parse() rests on)
    structural=[_render_literals, _no_module_state, _matcher_is_private],
    native_default=native_c01.native_for,
    bounded=[_bounded],
    assumptions=['the compiler is verified against the contract M of a tag matcher (a match lies at or after the search position, inside the '
                 'text, is not empty, group(0) is the text at its position); M is proved for the HTML matcher dtml_re_class.search; for the '
                 'EPFS regex of String.tagre it is the generic contract of re plus "the pattern starts with a literal"',
                 '_parseTag is abstracted by its contract (tag text == group(0); end / continuation tags only inside a block): proved for '
                 'both parseTag implementations in C07/C06',
                 'z3 / cvc5 strings range over code points <= 0x2FFFF'],
    not_decided=['the concatenation law render(A+B) == render(A)+render(B) needs matcher locality (the matches on A+B are those on A followed '
                 'by those on B shifted): an induction over the string that is not mechanised; bounded native check only',
                 'that the pieces of an if/in/with body are emitted exactly when the body is rendered is C09 / C10 / C08'],
)

MANIFEST = dict(
    category='proof',
    text='Tag scanner dtml_re_class.search (real body, any text and offset): terminates, raises nothing, and a match lies at or after the '
         'search position, is the text at its position, is non-empty and inside the text, starts with a tag opener and ends with a tag '
         'closer. String.parse (real body against that matcher contract): per tag at most one literal, emitted first and equal to '
         'text[previous position : tag start]; exactly one compiled item per tag; parsing resumes right behind a simple tag and where '
         'parse_block stopped for a block; the text after the last tag is emitted verbatim; termination measure len(text) - position. '
         'parse_block: sections are compiled from text[section start : start of the closing / continuation tag]; skip_eol is applied '
         'exactly after the open, continuation and close tag; nested tags are skipped whole; one item appended. skip_eol skips only '
         '[ \\t]*\\n (regular-expression inclusion proved for the pattern in the source). Renderer: literal blocks pass through '
         'unchanged, in order (AST obligations).'
         ' Assumptions of the parse() proof made obligations: the stateful tag matcher is created per parse and compilation is one locked region.',
    note='Trusted: pyvc, z3, cvc5, CPython ast. The concatenation law is covered by the bounded native search only.',
    technique='contract-based deductive verification (pyvc symbolic execution over symbolic source text, inductive loop invariants with termination measures, z3/cvc5 strings and regular expressions)',
    design_ref='DESIGN.md 4 C01',
)
