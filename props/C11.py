"""C11  Batch windows stay in range, tile the sequence and link consistently."""
import z3
from pyvc.run import Prop, Lemma
from pyvc.contracts import REGISTRY
import contracts  # noqa
from contracts.dt_insv import OPT_ENSURES
from native import c11 as native_c11

OPT = 'DocumentTemplate.DT_InSV.opt'
WB = 'DocumentTemplate.DT_In.InClass.renderwb'
WINDOW_CLAUSES = ('start_lo', 'ordered', 'end_in_seq', 'start_in_seq', 'size_out', 'win_A', 'win_B', 'win_C', 'win_D')


def opt_post(tag, start, end, size, orphan, L):
    """the verified postcondition of opt, instantiated for one call (clauses are taken from the contract text)"""
    from pyvc.engine import Engine, Env
    from pyvc.values import VI, VT, VSeq
    E = Engine(REGISTRY)
    mod = E.load_module('DocumentTemplate.DT_InSV')
    env = Env(mod)
    res = [z3.Int('%s_%s' % (tag, n)) for n in ('start', 'end', 'size')]
    sq = VSeq('seq', L)
    env.locals.update(start=VI(start), end=VI(end), size=VI(size), orphan=VI(orphan), sequence=sq, result=VT([VI(r) for r in res]))
    hyps = [E.as_z3_bool(E.eval_spec(OPT_ENSURES[k], env)) for k in WINDOW_CLAUSES]
    return res, [h if not isinstance(h, bool) else z3.BoolVal(h) for h in hyps]


def _next_progress():
    s, e, sz, orphan, overlap, L = z3.Ints('s e sz orphan overlap L')
    (s2, e2, sz2), hyps = opt_post('next', e + 1 - overlap, z3.IntVal(0), sz, orphan, L)
    hyps += [L >= 1, orphan >= 0, sz >= 1, overlap >= 0, overlap < sz, 1 <= s, s <= e, e < L,
             e == s + sz - 1]          # a window that does not reach the end has exactly size elements (opt win_A/C)
    goal = z3.And(s2 == e + 1 - overlap, s2 > s, e2 > e, s2 <= e + 1, e2 <= L, s2 >= 1)
    return hyps, goal


def _prev_reaches_start():
    s, e, sz, orphan, overlap, L = z3.Ints('s e sz orphan overlap L')
    (s0, e0, sz0), hyps = opt_post('prev', z3.IntVal(0), s - 1 + overlap, sz, orphan, L)
    hyps += [L >= 1, orphan >= 0, sz >= 1, overlap >= 0, overlap < sz, 2 <= s, s <= e, e <= L]
    goal = z3.And(e0 == z3.If(s - 1 + overlap <= L, s - 1 + overlap, L), z3.Or(s0 < s, s0 == 1), s0 >= 1)
    return hyps, goal


def _first_window_starts_at_1():
    sz, orphan, L = z3.Ints('sz orphan L')
    (s0, e0, sz0), hyps = opt_post('first', z3.IntVal(1), z3.IntVal(0), sz, orphan, L)
    hyps += [L >= 1, orphan >= 0, sz >= 1]
    goal = z3.And(s0 == 1, z3.Or(e0 == L, z3.And(e0 == sz, e0 + orphan <= L)))
    return hyps, goal


LEMMAS = [
    Lemma('C11.lemma.next_batch_progress', _next_progress, uses=[OPT],
          text='for overlap < size, the batch announced by next-sequence starts at end+1-overlap, strictly after the current '
               'start, and ends strictly later: following next-sequence-start-number shows every element, shares exactly '
               'overlap elements, and terminates after at most length steps'),
    Lemma('C11.lemma.previous_batch_reaches_start', _prev_reaches_start, uses=[OPT],
          text='the batch announced by previous-sequence ends at start-1+overlap and starts strictly earlier (or at 1): '
               'following previous-sequence-start-number reaches element 1'),
    Lemma('C11.lemma.first_window', _first_window_starts_at_1, uses=[OPT],
          text='start=1: the window is 1..size, or 1..length when fewer than orphan elements would remain'),
]


def _bounded(tier):
    n, fail = native_c11.search(big=(tier == 'thorough'))
    return dict(name='C11.native_batch_enumeration', tool='native enumeration on the real code',
                bound='length 0..%d, start/end None,-1..%d, sizes, orphans, overlaps; literal and variable parameters' % ((8, 10) if tier == 'thorough' else (5, 7)),
                cases=n, violation=bool(fail), witness=fail)


def _tag_is_not_a_scratchpad():
    from contracts.frames import write_sites
    return [o for o in write_sites() if o['oid'].startswith('frame.write.DT_In.InClass.')]


PROP = Prop(
    'C11',
    contracts=[REGISTRY[OPT], REGISTRY[WB], REGISTRY['DocumentTemplate.DT_In.int_param']],
    claims=[OPT + '::ensures.start_lo', OPT + '::ensures.ordered', OPT + '::ensures.end_in_seq', OPT + '::ensures.start_in_seq',
            OPT + '::ensures.size_out', OPT + '::ensures.win_*', OPT + '::raises_only',
            WB + '::cut_*.C11.*', WB + '::call.opt.*', WB + '::cut_*.in_window*', WB + '::cut_*.size_pos*', WB + '::cut_*.nonempty*',
            'C11.lemma.*', '*int_param::frame.*', 'frame.write.DT_In.InClass.*'],
    lemmas=LEMMAS,
    # the window and the neighbouring batches of one rendering are computed from that rendering's own parameters: nothing
    # of it is parked on the dtml-in tag object, which every rendering of the template shares
    structural=[_tag_is_not_a_scratchpad],
    native_default=native_c11.native_for,
    bounded=[_bounded],
    assumptions=['batch parameters resolved by int_param are integers (literal digits, or namespace values that are int or numeric str) and orphan >= 0'],
    not_decided=['the chain argument (repeatedly following next-sequence covers 1..length) is the induction whose step is the '
                 'mechanised lemma next_batch_progress; the induction itself is not mechanised',
                 'the values of the *-start-number / *-end-number variables are computed from the *-index entries by '
                 'sequence_variables.__getitem__ (number = index + 1): see C10'],
)

MANIFEST = dict(
    category='proof',
    text='opt: strongest window postcondition by the four start/end sign cases proved for all integers and lengths; renderwb: '
         'after opt and the end clamp 1 <= start <= end <= length, every displayed index lies in first..end-1 and inside the '
         'sequence, previous-/next-sequence flags exactly on the first/last element when elements precede/remain, announced '
         'previous batch ends at start-1+overlap and next batch starts at end+1-overlap (obligations at cut points of the real '
         'loop body); lemmas over the verified opt clauses: next batch strictly advances with exactly overlap shared elements, '
         'previous batch strictly recedes to 1.',
    note='Trusted: pyvc, z3, CPython ast. Assumed: abstract sequence model (sequence[k] raises IndexError iff k >= len, k >= 0), '
         'orphan >= 0, integer batch parameters, opaque blocks obey the stack protocol.',
    technique='contract-based deductive verification (pyvc symbolic execution, cut-point obligations, z3 linear integer arithmetic)',
    design_ref='DESIGN.md 4 C11',
)
