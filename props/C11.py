"""C11  Batch windows stay in range, tile the sequence and link consistently."""
from pyvc.run import Prop, Lemma
from pyvc import native
from pyvc.contracts import REGISTRY
import contracts.dt_insv  # noqa


def _opt_native(clause_name):
    def run(model):
        from DocumentTemplate.DT_InSV import opt
        L = int(model.get('len_sequence', 1))
        a = dict(start=int(model.get('start', 0)), end=int(model.get('end', 0)),
                 size=int(model.get('size', 0)), orphan=int(model.get('orphan', 0)))
        seq = native.CountingSeq(L)
        clause = REGISTRY['DocumentTemplate.DT_InSV.opt'].ensures[clause_name]
        try:
            result = opt(a['start'], a['end'], a['size'], a['orphan'], seq)
        except Exception as e:  # noqa
            return dict(holds=False, inputs=dict(a, length=L), observed='raised %r' % (e,), clause=clause)
        env = dict(a, sequence=seq, result=result)
        holds = native.eval_clause(clause.replace('old(pulled(sequence))', '0'), env)
        return dict(holds=holds, inputs=dict(a, length=L), observed=list(result), clause=clause,
                    call='DocumentTemplate.DT_InSV.opt(%(start)d, %(end)d, %(size)d, %(orphan)d, <sequence of length L>)' % a)
    return run


OPT = 'DocumentTemplate.DT_InSV.opt'
PROP = Prop(
    'C11',
    contracts=[REGISTRY[OPT]],
    claims=[OPT + '::ensures.start_lo', OPT + '::ensures.ordered', OPT + '::ensures.end_in_seq', OPT + '::ensures.start_in_seq',
            OPT + '::ensures.size_out', OPT + '::ensures.win_*', OPT + '::raises_only'],
    natives={OPT + '::ensures.' + k: _opt_native(k) for k in
             ('start_lo', 'ordered', 'end_in_seq', 'start_in_seq', 'size_out', 'win_A', 'win_B', 'win_C', 'win_D')},
)

MANIFEST = dict(
    category='proof',
    text='Every clause of the window contract of DT_InSV.opt (range, order, size, the four start/end '
         'sign cases with orphan handling) is proved for all integers and all sequence lengths by '
         'symbolic execution of the real function body; linear integer VCs, z3.',
    note='Trusted: pyvc (VC generator), z3, CPython ast. Assumed: abstract sequence model '
         '(sequence[k] raises IndexError iff k >= len for k >= 0; negative k raises), orphan >= 0, '
         'non-empty sequence (renderwb tests sequence[0] first).',
    technique='contract-based deductive verification (pyvc symbolic execution + z3)',
    design_ref='DESIGN.md 4 C11',
)
