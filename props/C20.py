"""C20  Tree state survives its cookie encoding and tracks expand/collapse clicks."""
from pyvc.run import Prop
import contracts  # noqa
from pyvc.contracts import REGISTRY
from contracts.c20 import codec_obligations, CODEC, roundtrip_lemma, lemma_hypotheses_canary
from native import c20 as native_c20


def _b(name, fn, bound):
    def run(tier):
        n, fail = fn(big=(tier == 'thorough'))
        return dict(name=name, tool='native enumeration on the real code', bound=bound(tier), cases=n, violation=bool(fail), witness=fail)
    return run


PROP = Prop(
    'C20',
    contracts=[REGISTRY[k] for k in CODEC],
    claims=['C20.codec.*', '*::*C20.*', '*::raises_only'],
    lemmas=[roundtrip_lemma()],
    structural=[codec_obligations, lemma_hypotheses_canary],
    native_default=native_c20.native_for,
    bounded=[
        _b('C20.native_codec_round_trip', native_c20.codec_search,
           lambda t: 'encode_str on random bytes of every length 0..%d; encode_seq/decode_seq on nested states of depth 0..4, width up to %d, '
                     'ids with blanks, non-ASCII, base64-like text' % ((399, 30) if t == 'thorough' else (199, 12))),
        _b('C20.native_apply_diff_model', native_c20.diff_search,
           lambda t: '%d random expand/collapse sequences (length <= 6, paths <= 3 over 3 ids) against the set-of-open-paths model; tpStateLevel'
                     % (3000 if t == 'thorough' else 800)),
        _b('C20.native_click_histories', native_c20.click_search,
           lambda t: '4 tree shapes (up to 7 nodes, depth 3, non-ASCII ids), every click history up to length %d following the links the tag '
                     'generated: rows, one toggling link per node with children, cookie state' % (4 if t == 'thorough' else 3)),
    ],
    level='other',
    explanation='the codec (encode_seq, encode_str, decode_seq, compress, decompress) is proved against its specification for every '
                'length, modulo the assumed library axioms; apply_diff and the click-history claims are bounded stand-ins (labelled, '
                'not counted as proved)',
    assumptions=['binascii (assumed, exercised natively): b64(x + y) == b64(x) + b64(y) when len(x) % 3 == 0; b64(x) is alphabet characters '
                 'plus (3 - len(x) % 3) % 3 trailing "="; a2b_base64(b64(x)) == x; for alphabet text t1 with len(t1) % 4 == 0, '
                 'a2b_base64(t1 + t2) == a2b_base64(t1) + a2b_base64(t2)',
                 'zlib.decompress inverts zlib.compress; utf-8 decode inverts encode; json.loads inverts json.dumps on nested lists of str/int',
                 'bytes are modelled as z3 sequences of characters 0..255; ascii encode / decode is the identity embedding'],
    not_decided=['apply_diff (nested mutable lists with aliasing) and tpStateLevel: bounded stand-in against an abstract model',
                 'rows shown, one toggle link per node, cookie/state agreement over click histories (tpRender / tpRenderTABLE, 290 lines, '
                 'a protocol across request/response cycles): no contract within reach expresses it; bounded stand-in only'],
)

MANIFEST = dict(
    category='other',
    text='Codec, proved for every length and every state on the real function bodies (symbolic bytes model): encode_str(b) == '
         'translate(strip_padding(base64(b))) and is ASCII; encode_seq(s) == that of zlib(utf8(json(s))) as text; decode_seq (text and bytes '
         'form) undoes the translation, restores the padding, decodes in 76-character chunks to exactly a2b_base64 of the whole, '
         'decompresses and loads, [] for non-JSON text; loop invariants "chunks so far are the base64 of the prefix" (57-byte chunks) and '
         '"chunks so far decode the prefix" (76-character chunks); compress / decompress layering and type checks; no exception escapes '
         'on that domain. Lemma (cvc5): decode_seq(encode_seq(state)) == state for every state, from those contract clauses and the '
         'assumed library round trips; finite facts about the translation tables by enumeration. NOT proved, bounded stand-ins only: '
         'apply_diff, tpStateLevel, and the click-history claims of the property.',
    note='Level other: the click-history half of the property is outside what contracts on this code base can decide with the engine built '
         'here (DESIGN.md 7 and 9); library behaviour (binascii, zlib, json, utf-8) is assumed as axioms and exercised natively.',
    technique='contract-based deductive verification (pyvc symbolic execution over a symbolic bytes model, loop invariants with instantiated '
              'library axioms, z3 + cvc5 strings; round-trip lemma); finite enumeration of the translation tables; bounded native '
              'stand-ins for apply_diff and click histories',
    design_ref='DESIGN.md 4 C20, 9.8',
)
