"""C20  Tree state survives its cookie encoding and tracks expand/collapse clicks."""
from pyvc.run import Prop
import contracts  # noqa
from contracts.c20 import codec_obligations
from native import c20 as native_c20


def _b(name, fn, bound):
    def run(tier):
        n, fail = fn(big=(tier == 'thorough'))
        return dict(name=name, tool='native enumeration on the real code', bound=bound(tier), cases=n, violation=bool(fail), witness=fail)
    return run


PROP = Prop(
    'C20',
    contracts=[],
    claims=['C20.codec.*'],
    structural=[codec_obligations],
    native_default=native_c20.native_for,
    bounded=[
        _b('C20.native_codec_round_trip', native_c20.codec_search,
           lambda t: 'encode_str on random bytes of every length 0..%d; encode_seq/decode_seq on nested states of depth 0..4, width up to %d, '
                     'ids with blanks, non-ASCII, base64-like text' % ((399, 30) if t == 'thorough' else (199, 12))),
        _b('C20.native_apply_diff_model', native_c20.diff_search,
           lambda t: '%d random expand/collapse sequences (length <= 6, paths <= 3 over 3 ids) against the set-of-open-paths model; tpStateLevel'
                     % (3000 if t == 'thorough' else 800)),
        _b('C20.native_click_histories', native_c20.click_search,
           lambda t: '4 tree shapes (up to 7 nodes, depth 3, non-ASCII ids), every click history up to length %d following the links the tag '
                     'generated: rows, one toggling link per node with children, cookie state' % (4 if t == 'thorough' else 3)),
    ],
    level='other',
    explanation='only the finite / syntactic codec facts are decided by obligations; the round trip for all lengths, apply_diff and the click '
                'histories are bounded stand-ins (labelled, not counted as proved)',
    assumptions=['binascii base64: b64(x ++ y) == b64(x) ++ b64(y) when len(x) is a multiple of 3; a2b inverts b2a; = occurs only as trailing '
                 'padding (library contract, assumed); zlib.decompress inverts zlib.compress; json.loads inverts json.dumps on nested lists of str/int'],
    not_decided=['the codec round trip for every length is not proved: the engine has no model of bytes slicing / joining, so the chunk loops of '
                 'encode_seq / decode_seq are outside its reach (bounded stand-in for every length up to 400)',
                 'apply_diff (nested mutable lists with aliasing) and tpStateLevel: bounded stand-in against an abstract model',
                 'rows shown, one toggle link per node, cookie/state agreement over click histories (tpRender / tpRenderTABLE, 290 lines, '
                 'a protocol across request/response cycles): no contract within reach expresses it; bounded stand-in only'],
)

MANIFEST = dict(
    category='other',
    text='Decided exactly: the URL-safe translation tables are total, tminus inverts tplus on all 64 base64 characters and tplus changes only '
         '"+" (finite enumeration over the tables as written in the source); chunk sizes 57 bytes / 76 characters are multiples of 3 / 4 and '
         'correspond (the arithmetic condition under which chunk-wise base64 concatenates); every b2a_base64 call strips exactly the newline; '
         'padding is cut at the first "=" and restored to a multiple of 4 before decoding; the translation is undone first (AST obligations on '
         'the real source, every run). NOT proved, bounded stand-ins only: the round trip for all lengths, apply_diff, tpStateLevel, and the '
         'click-history claims of the property.',
    note='Most of this property is outside what contracts on this code base can decide with the engine built here (see DESIGN.md 7 and 9); '
         'the check is honest about it: level other, stand-ins labelled bounded.',
    technique='contract-based deductive verification where applicable (finite enumeration of the translation tables, AST obligations on the codec functions); bounded native stand-ins for the rest',
    design_ref='DESIGN.md 4 C20',
)
