"""C16  Summary statistics inside dtml-in equal independently computed values."""
import z3
from pyvc.run import Prop, Lemma
from pyvc.contracts import REGISTRY
import contracts  # noqa
from contracts.dt_stats import STATS, DISPATCH
from native import c16 as native_c16


def _dev_step():
    # D = sum (x_i - m)^2 ; S1 = sum x_i ; S2 = sum x_i^2 ; N = count.  Inductive step of  D == S2 - 2 m S1 + N m^2
    D, S1, S2, N, x, m = z3.Reals('D S1 S2 N x m')
    hyp = [D == S2 - 2 * m * S1 + N * m * m]
    goal = (D + (x - m) * (x - m)) == (S2 + x * x) - 2 * m * (S1 + x) + (N + 1) * m * m
    return hyp, goal


def _dev_base():
    m = z3.Real('m')
    return [], z3.RealVal(0) == 0 - 2 * m * 0 + 0 * m * m


def _var_n():
    D, S1, S2, N = z3.Reals('D S1 S2 N')
    m = S1 / N
    hyp = [N >= 1, D == S2 - 2 * m * S1 + N * m * m]
    return hyp, D / N == S2 / N - m * m


def _var_sample():
    D, S1, S2, N = z3.Reals('D S1 S2 N')
    m = S1 / N
    hyp = [N >= 2, D == S2 - 2 * m * S1 + N * m * m]
    return hyp, D / (N - 1) == (S2 / N - m * m) * N / (N - 1)


LEMMAS = [
    Lemma('C16.lemma.squared_deviations.base', _dev_base, text='empty data: sum((x - m)^2) == S2 - 2 m S1 + N m^2 (all zero)'),
    Lemma('C16.lemma.squared_deviations.step', _dev_step,
          text='adding a value x preserves sum((x_i - m)^2) == S2 - 2 m S1 + N m^2 for every m (induction step)'),
    Lemma('C16.lemma.population_variance', _var_n, uses=STATS,
          text='with m = S1/N: (1/N) sum((x_i - m)^2) == S2/N - m^2, the expression the code stores as variance-n'),
    Lemma('C16.lemma.sample_variance', _var_sample, uses=STATS,
          text='(1/(N-1)) sum((x_i - m)^2) == (S2/N - m^2) * N/(N-1), the expression the code stores as variance'),
]


def _bounded(tier):
    n, fail = native_c16.search(big=(tier == 'thorough'))
    return dict(name='C16.native_statistics_oracle', tool='native enumeration on the real code',
                bound='all lists of length 1..%d over {1, 2, 2, 5, 0.5, 0.7, 1.25, -3, None, "a", "b"} (numbers and strings not mixed), '
                      'attribute and mapping access, plus three longer lists' % (4 if tier == 'thorough' else 3),
                cases=n, violation=bool(fail), witness=fail)


PROP = Prop(
    'C16',
    contracts=[REGISTRY[k] for k in STATS + DISPATCH],
    claims=['*::C16.*', '*statistics#*::loop1.*', 'C16.lemma.*'],
    lemmas=LEMMAS,
    native_default=native_c16.native_for,
    bounded=[_bounded],
    assumptions=['floating point is treated as real arithmetic (rounding is outside the claim)',
                 'values are ints, floats, None or values that do not support arithmetic (strings); arithmetic on any other '
                 'type is not modelled',
                 'Missing.Value is treated as a distinct marker object (the engine does not model its absence; then mv is None '
                 'and the same branches apply)',
                 "the variable name is the representative 'x': the code uses it only to read the attribute / item and to build the "
                 'ten result keys'],
    not_decided=['the closed forms sum(values), sum of squares, min, max are tied to the code by ghost folds updated from the values '
                 'actually appended (inductive loop invariant); the final identities between the stored expressions and the '
                 'textbook variance are the mechanised lemmas; N * S2 >= S1^2 (needed only to know that sqrt is defined) is assumed',
                 'non-numeric data: count, min/max by the values\' own ordering and the "between a and b" median text are covered by the '
                 'obligations on counts/emptiness and by the bounded native oracle, not by value-level obligations'],
)

MANIFEST = dict(
    category='proof',
    text='sequence_variables.statistics (real body; attribute and mapping access; any sequence length): inductive loop invariant '
         'tying count, sum, sum of squares, min and max to ghost folds over exactly the values collected (numbers once each, None and '
         'missing ignored, non-numbers kept apart); from it total == sum, mean == sum/n, variance-n == S2/n - mean^2 and variance == '
         'that * n/(n-1) (n > 1, else empty), the standard deviations are the non-negative roots, min/max the extremes, median the '
         'middle element of the sorted values for odd n and a value between the two middle ones for even n; no numeric statistic '
         'for non-numeric data; the ten names dispatch to this routine. Lemmas (NRA): the stored expressions equal the mean squared '
         'deviation.',
    note='Trusted: pyvc, z3, CPython ast. Assumed: reals for floats; math.sqrt and list.sort library contracts; Cauchy-Schwarz '
         '(variance >= 0) not mechanised. The native oracle enumeration is a bounded stand-in, not counted.',
    technique='contract-based deductive verification (pyvc symbolic execution, inductive loop invariant over ghost folds, z3 nonlinear real arithmetic)',
    design_ref='DESIGN.md 4 C16',
)
