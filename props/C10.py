"""C10  dtml-in visits each element once, in order, with correct sequence variables."""
import ast
from pyvc.run import Prop
from pyvc.contracts import REGISTRY
import contracts  # noqa
from contracts.dt_insv_vars import KEYS, AWP_KEYS, VALUE
from contracts.dt_sort import REV
from native import c10 as native_c10

WB = 'DocumentTemplate.DT_In.InClass.renderwb'
WOB = 'DocumentTemplate.DT_In.InClass.renderwob'
LOOPS = [WOB, WOB + '#p', WB, WB + '#p']


def _structural():
    """facts read off the AST of the real renderers on every run"""
    from pyvc.engine import Engine
    E = Engine(REGISTRY)
    out = []

    def ob(oid, ok, detail):
        out.append(dict(oid='C10.structural.' + oid, kind='structural', status='discharged' if ok else 'refuted', paths=1,
                        backends=['ast'], ms=0, model=None, detail=detail, havoced=False))
    for fn_name in ('renderwob', 'renderwb'):
        fn = E.lookup_qual('DocumentTemplate.DT_In.InClass.' + fn_name)
        fn = getattr(fn, 'fn', fn)
        node = fn.node
        loops = [n for n in ast.walk(node) if isinstance(n, ast.For) and isinstance(n.target, ast.Name) and n.target.id == 'index']
        ob(fn_name + '.one_element_loop', len(loops) == 1, 'exactly one loop over the displayed indexes')
        # the else body is never rendered from inside or after the element loop
        bad = []
        if loops:
            lp = loops[0]
            for n in ast.walk(lp):
                if isinstance(n, ast.Attribute) and n.attr == 'elses':
                    bad.append(n.lineno)
            ob(fn_name + '.else_body_not_in_element_loop', not bad,
               'the else section is not referenced inside the element loop (lines %s)' % bad)
            # first use of the else section: handler of the emptiness probe ``sequence[0]``
            probe = None
            for n in ast.walk(node):
                if isinstance(n, ast.Try) and len(n.body) == 1 and ast.unparse(n.body[0]).strip() == 'sequence[0]':
                    probe = n
            ok = probe is not None and len(probe.handlers) == 1 and ast.unparse(probe.handlers[0].type) == 'IndexError' \
                and any(isinstance(m, ast.Attribute) and m.attr == 'elses' for m in ast.walk(probe.handlers[0])) \
                and all(isinstance(s, (ast.If, ast.Return)) for s in probe.handlers[0].body) \
                and isinstance(probe.handlers[0].body[-1], ast.Return)
            ob(fn_name + '.empty_sequence_renders_else_and_returns', bool(ok),
               'an empty sequence (sequence[0] raises IndexError) renders the else section (or nothing) and returns before '
               'any element is rendered')
        # the per-element variables (sequence-item, -key, -number, -even, ..., first-x, last-x, sequence-var-x) are computed on
        # demand from the element at the current index; __getitem__ looks in the variable dictionary FIRST, so a renderer that
        # stored one of those names there would serve that stored (possibly stale) value instead.  The only names the renderers
        # store are the bookkeeping ones:
        allowed = {'sequence-index', 'sequence-start', 'sequence-end', 'mapping', 'previous-sequence', 'previous-sequence-start-index',
                   'previous-sequence-end-index', 'previous-sequence-size', 'next-sequence', 'next-sequence-start-index',
                   'next-sequence-end-index', 'next-sequence-size', 'sequence-step-size', 'sequence-step-overlap', 'sequence-step-start',
                   'sequence-step-end', 'sequence-step-start-index', 'sequence-step-end-index', 'sequence-step-orphan'}
        stored = sorted({n.slice.value for n in ast.walk(node) if isinstance(n, ast.Subscript) and isinstance(n.ctx, ast.Store)
                         and isinstance(n.slice, ast.Constant) and isinstance(n.slice.value, str)} - allowed)
        ob(fn_name + '.only_bookkeeping_names_are_stored', not stored,
           'the renderer stores only index / flag / batch bookkeeping names in the variable dictionary; the per-element variables '
           'stay computed from the current element (stored as well: %s)' % stored)
        # the prefix is only handed to the two helpers that implement aliasing
        uses = []
        for n in ast.walk(node):
            if isinstance(n, ast.Name) and n.id == 'prefix' and isinstance(n.ctx, ast.Load):
                uses.append(n)
        calls = [c for c in ast.walk(node) if isinstance(c, ast.Call) and isinstance(c.func, ast.Name)
                 and c.func.id in ('add_with_prefix', 'sequence_variables')]
        args_of = [a for c in calls for a in list(c.args) + [k.value for k in c.keywords]]
        ob(fn_name + '.prefix_only_passed_to_alias_helpers', all(any(u is a for a in args_of) for u in uses) and len(uses) == 2,
           'the prefix value is used only as an argument of add_with_prefix(...) and sequence_variables(...), so the '
           "clauses proved for the representative prefix 'p' do not depend on its spelling")
    return out


PROP = Prop(
    'C10',
    contracts=[REGISTRY[k] for k in LOOPS] + [REGISTRY[k] for k in KEYS.values()] + [REGISTRY[k] for k in AWP_KEYS] + [REGISTRY[VALUE]]
    + [REGISTRY[k] for k in REV],
    claims=['*C10.*', '*.cover.*', '*reverse_sequence#*::C13.*', '*::cut_sorted.C13.*', WOB + '*::ensures.stack', WOB + '*::exc_ensures.stack', WB + '*::ensures.stack',
            WB + '*::exc_ensures.stack'],
    structural=[_structural],
    native_default=native_c10.native_for,
    bounded=[lambda tier: (lambda r: dict(name='C10.native_sequence_variable_oracle', tool='native enumeration on the real code',
                                          bound='sequences of length 0..%d of strings/objects/mappings/2-tuples x {plain, size=10, start=2 size=2} x '
                                                'prefix x up to 2 refused elements under skip_unauthorized; all fixed-name variables, '
                                                'sequence-var-x, first-x, last-x, bindings' % (5 if tier == 'thorough' else 4),
                                          cases=r[0], violation=bool(r[1]), witness=r[1]))(native_c10.search(big=(tier == 'thorough')))],
    assumptions=["prefix aliasing in the render loops is proved for the representative prefix 'p' (the loops only pass the prefix on: "
                 "structural obligation prefix_only_passed_to_alias_helpers); Add_with_prefix.__setitem__ is proved per variable name",
                 'sequence-letter / -Letter are claimed for indexes whose letter exists (index + 97 < 0x110000), sequence-roman / '
                 '-Roman for index < 4999 (roman.toRoman raises beyond)',
                 'sequence-start: "true only on the first displayed element" is proved as stated; with a security guard that refuses '
                 'the first element(s) under skip_unauthorized the flag may be false on the first displayed element (batch form) '
                 '-- the property does not demand more'],
    not_decided=['"once per displayed element, in order" is the loop model itself (for index in range(...)) plus the clauses '
                 'index == position, one piece appended per displayed element, every position visited; that sort/reverse yield the '
                 'right order is C13',
                 'previous-/next-/batch-* index families: their index entries are C11 clauses; number = index + 1 etc. follows from '
                 'the same __getitem__ dispatch proved here for the sequence-* family (not proved separately per family)'],
)

MANIFEST = dict(
    category='proof',
    text='Both dtml-in renderers (real loop bodies, obligations at cut points and as inductive loop invariants): the k-th iteration '
         'handles index first+k and every window position is visited; the element is sequence[index] (or what the guard returned '
         'for (sequence, index)); sequence-index == index at the body; sequence-end is 1 exactly on the last index; sequence-start '
         'is 1 on the first index, 0 after it, and never 1 once an element has been displayed; one piece is appended per displayed '
         'element; binding: nothing pushed for no_push_item and for str/bytes items, the mapping itself for mapping, an '
         'InstanceDict of the element (t[1] of a 2-tuple) otherwise, popped again (stack clauses); else section only on the empty '
         'sequence (AST obligations). sequence_variables.__getitem__ proved per documented name (item, key, index, number, letter, '
         'Letter, roman, Roman, even, odd, start, end, length; sequence-var-x, first-x, last-x) and for each prefix alias p_<name>; '
         'Add_with_prefix.__setitem__ writes the documented name and its alias and nothing else.',
    note="Trusted: pyvc, z3, CPython ast. Assumed: roman.toRoman is a function of its argument; representative prefix 'p'; opaque "
         'blocks obey the stack protocol; abstract sequence model. The native oracle enumeration is a bounded stand-in, not counted.',
    technique='contract-based deductive verification (pyvc symbolic execution, cut-point obligations and loop invariants, ghost trace, z3)',
    design_ref='DESIGN.md 4 C10',
)
