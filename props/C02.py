"""C02  Names resolve by documented source precedence; block bindings are scoped."""
from pyvc.run import Prop
from pyvc.contracts import REGISTRY
import contracts  # noqa
from native import c02 as native_c02

M = 'DocumentTemplate._DocumentTemplate'
FUNCS = [M + '.TemplateDict.getitem#C02', M + '.InstanceDict.__getitem__',
         'DocumentTemplate.DT_String.String.__call__#toplevel', 'DocumentTemplate.DT_String.String.__call__#subtemplate',
         'DocumentTemplate.DT_String.String.initvars',
         'DocumentTemplate.DT_With.With.render#C02', 'DocumentTemplate.DT_Let.Let.render#C02', 'DocumentTemplate.DT_Let.Let.__init__#C02.compile',
         'DocumentTemplate.DT_Util.Eval.eval', M + '.render_blocks_',
         'DocumentTemplate.DT_Try.Try.render_try_except#C14']


def _bounded(tier):
    n, fail = native_c02.search()
    return dict(name='C02.native_precedence_enumeration', tool='native enumeration on the real code',
                bound='all 127 non-empty subsets of 7 sources (6 + second client) defining one name; 8 scoping shapes',
                cases=n, violation=bool(fail), witness=fail)


PROP = Prop(
    'C02',
    contracts=[REGISTRY[f] for f in FUNCS],
    claims=['*::C02.*', '*::C09.*.lookup_cached_once', '*::C09.*.cached_*', '*::C14.handler_sees_error_value',
            '*::ensures.C14.*', '*::exc_ensures.C14.*', '*::ensures.globals_is_vars',
            '*String.__call__*::loop1.*', '*Let.render#C02::loop1.*'],
    native_default=native_c02.native_for,
    bounded=[_bounded],
    not_decided=['dtml-in bindings (cache, sequence variables, item) are covered by the stack invariants of C08/C10, not '
                 'repeated here',
                 'the precedence statement is the composition of two proved facts: String.__call__ pushes the sources in the '
                 'documented order, and TemplateDict.getitem consults the stack top-down; the composition itself is the '
                 'definition of "first defining mapping from the top" and is not a separate mechanised lemma'],
)

MANIFEST = dict(
    category='proof',
    text='TemplateDict.getitem consults the namespace entries top-down, skips an entry only on KeyError/NameError, returns the '
         'first value found uncalled for call=0 and invokes it at most once for call=1, raises KeyError(name) otherwise; '
         'String.__call__ (own namespace and sub-template role) has exactly the documented sources on the stack in the documented '
         'order when the blocks are rendered, client tuples pushed in order; initvars: keyword defaults beat the mapping, '
         'underscore keys skipped; With/Let/if-cache/try-handler bindings are the top entry during the body and gone after; '
         'Eval.eval fetches names with call=0; InstanceDict reads the requested attribute once (through the guard when there is one).'
         ' Let.__init__: a quoted binding (also one that is a bare name) compiles to an expression evaluation, an unquoted one to a name lookup.',
    note='Trusted: pyvc, z3, CPython ast. Assumed: opaque mappings/callables obey the stack protocol; Acquisition.aq_base does '
         'not call anything; the top-level variant assumes the mapping argument has no taintWrapper.',
    technique='contract-based deductive verification (pyvc symbolic execution + ghost trace obligations, z3)',
    design_ref='DESIGN.md 4 C02',
)
