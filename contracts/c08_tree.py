"""C08 for the dtml-tree renderer (TreeDisplay.TreeTag): tpRender / tpRenderTABLE are outside the symbolic executor's
reach (290-line recursive renderer), but the stack-neutrality frame of C08 has a syntactic sufficient condition that is
checked on the real source on every run:

  every ``md._push(...)`` (a run of consecutive pushes counts as one site) is immediately followed by a ``try`` whose
  ``finally`` pops exactly as many entries, and no other ``_pop`` occurs in the function.

Under it, by induction over the statement structure, every exit of the function -- normal, ``return`` or exception at any
point -- leaves the namespace with the entries it had (the body between push and pop being stack-neutral by the same
condition for nested sites and by the contracts of the blocks / expressions it calls)."""
import ast
import os


def _is_call(st, attr):
    return (isinstance(st, ast.Expr) and isinstance(st.value, ast.Call) and isinstance(st.value.func, ast.Attribute)
            and st.value.func.attr == attr)


def _pop_count(call):
    if not call.args:
        return 1
    a = call.args[0]
    return a.value if isinstance(a, ast.Constant) and isinstance(a.value, int) else None


def tree_push_pop_pairing():
    from pyvc.engine import REPO_SRC
    path = os.path.join(REPO_SRC, 'TreeDisplay', 'TreeTag.py')
    tree = ast.parse(open(path).read())
    out = []

    def ob(oid, ok, detail, model=None):
        out.append(dict(oid='C08.tree.' + oid, kind='frame', status='discharged' if ok else 'refuted', paths=1, backends=['ast'], ms=0,
                        model=model, detail=detail, havoced=False))

    def blocks_of(fn):
        """statement lists of fn, not descending into nested function definitions"""
        todo = [fn.body]
        while todo:
            body = todo.pop()
            yield body
            for st in body:
                for fld in ('body', 'orelse', 'finalbody'):
                    sub = getattr(st, fld, None)
                    if isinstance(sub, list) and sub and not isinstance(st, (ast.FunctionDef, ast.ClassDef, ast.Lambda)):
                        todo.append(sub)
                for h in getattr(st, 'handlers', []) or []:
                    todo.append(h.body)

    def qualnames(node, prefix=''):
        for ch in ast.iter_child_nodes(node):
            if isinstance(ch, ast.FunctionDef):
                q = prefix + ch.name
                yield q, ch
                yield from qualnames(ch, q + '.')
            elif isinstance(ch, (ast.If, ast.Try, ast.For, ast.While, ast.With, ast.ClassDef, ast.ExceptHandler)):
                yield from qualnames(ch, prefix)

    sites = 0
    seen = {}
    for q, fn in qualnames(tree):
        n = seen[q] = seen.get(q, 0) + 1
        qn = q if n == 1 else '%s#%d' % (q, n)
        k = 0
        paired_pops = set()
        for body in blocks_of(fn):
            i = 0
            while i < len(body):
                if not _is_call(body[i], '_push'):
                    i += 1
                    continue
                j = i
                while j < len(body) and _is_call(body[j], '_push'):
                    j += 1
                k += 1
                sites += 1
                nxt = body[j] if j < len(body) else None
                ok = False
                why = 'the push is not immediately followed by try/finally'
                if isinstance(nxt, ast.Try) and nxt.finalbody:
                    pops = [st for st in nxt.finalbody if _is_call(st, '_pop')]
                    total = sum((_pop_count(st.value) or 0) for st in pops)
                    ok = len(pops) >= 1 and all(_pop_count(st.value) is not None for st in pops) and total == j - i
                    why = 'finally pops %s entr%s for %d push(es)' % (total, 'y' if total == 1 else 'ies', j - i)
                    for st in pops:
                        paired_pops.add(id(st))
                ob('%s.push%d_is_undone_on_every_exit' % (qn, k), ok,
                   'TreeTag.%s, line %d: %s -- %s' % (qn, body[i].lineno, ast.unparse(body[i]), why),
                   model=None if ok else {'site': 'TreeTag.%s' % qn, 'line': body[i].lineno})
                i = j
        stray = [st for body in blocks_of(fn) for st in body if _is_call(st, '_pop') and id(st) not in paired_pops]
        if k or stray:
            ob('%s.no_pop_outside_a_finally_of_its_push' % qn, not stray,
               'TreeTag.%s: every _pop belongs to the finally clause of its push%s' % (
                   qn, '' if not stray else ' (stray: line %s)' % ', '.join(str(s.lineno) for s in stray)))
    ob('sites_found', sites >= 1, '%d push sites examined in TreeDisplay/TreeTag.py' % sites)
    return out
