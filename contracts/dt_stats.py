"""C16: sequence_variables.statistics -- single-pass accumulation against ghost folds over the list of values
actually collected, then the derived statistics (floating point treated as real arithmetic: stated assumption)."""
import z3
from pyvc.contracts import *  # noqa
from pyvc.values import *  # noqa
from pyvc import spec as _spec

SV = 'DocumentTemplate.DT_InSV.sequence_variables'
NAME = 'x'


def _state(mapping):
    def hook(E, env):
        cls = E.lookup_qual(SV)
        items = VSeq('items', z3.Int('L'))
        E.assume(items.length >= 0)
        d = HDict()
        d.entries = [[VC('mapping'), VC(1) if mapping else VC(0)], [VC('sequence-index'), VI(z3.Int('i'))]]
        data = E.alloc(d)
        me = E.alloc(HObj(cls, {'items': items, 'data': data}, name='vars'))
        env.locals['self'] = me
        env.locals['__g_data'] = data
    return hook


def _R(v):
    return v


def _loop_iter(mapping):
    def hook(E, env, trace, fq, ordn):
        ob = lambda n, c, d: E.oblige('%s::C16.accumulate.%s' % (fq, n), c, kind='trace', detail=d)  # noqa
        values, svalues = env.locals['values'], env.locals['svalues']
        va = [t for t in trace if t[0] == 'list_append' and t[1] == values.addr]
        sa = [t for t in trace if t[0] == 'list_append' and t[1] == svalues.addr]
        item = env.locals.get('item')
        ob('at_most_one_collection_per_element', bool(len(va) + len(sa) <= 1), 'an element is collected at most once')
        g = E.ghost_env(env)
        gN, gS1, gS2, gMin, gMax = (g[k] for k in ('gN', 'gS1', 'gS2', 'gMin', 'gMax'))
        if va:
            x = va[0][3]
            numeric = E.is_intlike(x) or isinstance(x, VR) or (isinstance(x, VO) and (E.tfacts.get((x.name, 'int')) or E.tfacts.get((x.name, 'float'))))
            ob('only_numbers_are_numeric_values', bool(numeric), 'only int / float values enter the numeric statistics')
            if not numeric:
                return
            xr = E.as_z3_real(x)
            n0 = E.as_z3_int(gN)
            env.locals['__g_gN'] = VI(n0 + 1)
            env.locals['__g_gS1'] = VR(E.as_z3_real(gS1) + xr)
            env.locals['__g_gS2'] = VR(E.as_z3_real(gS2) + xr * xr)
            env.locals['__g_gMin'] = VR(z3.If(n0 == 0, xr, z3.If(xr < E.as_z3_real(gMin), xr, E.as_z3_real(gMin))))
            env.locals['__g_gMax'] = VR(z3.If(n0 == 0, xr, z3.If(xr > E.as_z3_real(gMax), xr, E.as_z3_real(gMax))))
        if sa:
            x = sa[0][3]
            nonnum = isinstance(x, VO) and E.tfacts.get((x.name, 'nonnumeric'))
            ob('non_numeric_values_kept_apart', bool(nonnum), 'values that do not support arithmetic are collected separately')
            notnone = E.valid(E.to_val(x) != z3.Const('None', Val))
            ob('none_is_ignored', bool(notnone), 'None values are ignored (never collected)')
            env.locals['__g_gSN'] = VI(E.as_z3_int(g['gSN']) + 1)
    return hook


INV = {
    'count': "len_of(values) == gN",
    'scount': "len_of(svalues) == gSN",
    'total': "sum == gS1",
    'squares': "sumsq == gS2",
    'min_defined_iff_values': "iff(is_none(min), gN == 0)",
    'max_defined_iff_values': "iff(is_none(max), gN == 0)",
    'min_is_minimum': "implies(gN > 0, min == gMin)",
    'max_is_maximum': "implies(gN > 0, max == gMax)",
    'extremes_ordered': "implies(gN > 0, gMin <= gMax)",
    'smin_defined_iff_svalues': "iff(is_none(smin), gSN == 0)",
    'smax_defined_iff_svalues': "iff(is_none(smax), gSN == 0)",
    'counts_nonneg': "gN >= 0 and gSN >= 0",
    # (N * S2 >= S1^2 is Cauchy-Schwarz: a fact about sums of reals, assumed below where sqrt needs it)
}


def _stat(E, data, key):
    d = E.heap[data.addr]
    for k, v in d.entries:
        if isinstance(k, VC) and k.v == key:
            return v
    return None


def _exit(E, outcome, value, env, prefix):
    ob = lambda n, c, d: E.oblige('%s::C16.%s' % (prefix, n), c, kind='post', detail=d)  # noqa
    if outcome != 'normal':
        if value.cls == 'ValueError' and not value.sym:
            # math.sqrt of a negative variance: impossible over the reals (n * sum(x^2) >= sum(x)^2, Cauchy-Schwarz); that
            # inequality needs an induction with a quantified invariant and is not mechanised here
            E.assumptions_used.add('the variance of real data is non-negative (Cauchy-Schwarz), so math.sqrt is never applied to a '
                                   'negative number: mathematical fact, not mechanised')
            return
        if value.sym:
            E.assumptions_used.add('comparing two collected values (min/max tracking, list.sort) does not raise: values are '
                                   'ints/floats, or mutually comparable non-numbers such as strings')
            return
        ob('no_exception', False, 'statistics does not raise for int/float/str/None data (%s)' % value.cls)
        return
    g = {k[4:]: v for k, v in env.final.items() if k.startswith('__g_')}
    N, S1, S2 = E.as_z3_int(g['gN']), E.as_z3_real(g['gS1']), E.as_z3_real(g['gS2'])
    SN = E.as_z3_int(g['gSN'])
    gMin, gMax = E.as_z3_real(g['gMin']), E.as_z3_real(g['gMax'])
    data = env.locals['__g_data']
    get = lambda k: _stat(E, data, '%s-%s' % (k, NAME))  # noqa

    def is_empty(v):
        return isinstance(v, VC) and v.v == ''

    def real_eq(v, want):
        if v is None or isinstance(v, VRef) or is_empty(v):
            return z3.BoolVal(False)
        try:
            return E.as_z3_real(v) == want
        except Exception:
            return z3.BoolVal(False)
    numeric = E.valid(N > 0)
    if numeric:
        Nr = z3.ToReal(N)
        mean = S1 / Nr
        ob('count', real_eq(get('count'), Nr), 'count-x is the number of numeric values (no non-numeric values present: count of all)') \
            if E.valid(SN == 0) else None
        ob('total', real_eq(get('total'), S1), 'total-x is the sum of the values')
        ob('mean', real_eq(get('mean'), mean), 'mean-x is the arithmetic mean')
        # population variance: (1/n) * sum (x - mean)^2 == S2/n - mean^2   (lemma C16.lemma.sum_of_squared_deviations)
        ob('variance_n', real_eq(get('variance-n'), S2 / Nr - mean * mean), 'variance-n-x == (1/n) * sum((x - mean)^2)')
        sd = get('standard-deviation-n')
        ob('standard_deviation_n', z3.And(real_eq(sd, E.as_z3_real(sd)) if sd is not None and not is_empty(sd) else z3.BoolVal(False),
                                          E.as_z3_real(sd) >= 0, E.as_z3_real(sd) * E.as_z3_real(sd) == S2 / Nr - mean * mean)
           if sd is not None and not is_empty(sd) and not isinstance(sd, VRef) else False,
           'standard-deviation-n-x is the non-negative square root of variance-n-x')
        if E.valid(N > 1):
            ob('variance', real_eq(get('variance'), (S2 / Nr - mean * mean) * Nr / (Nr - 1)), 'variance-x == (1/(n-1)) * sum((x - mean)^2)')
            sd1 = get('standard-deviation')
            ok = sd1 is not None and not is_empty(sd1) and not isinstance(sd1, VRef)
            ob('standard_deviation', z3.And(E.as_z3_real(sd1) >= 0, E.as_z3_real(sd1) * E.as_z3_real(sd1) == (S2 / Nr - mean * mean) * Nr / (Nr - 1))
               if ok else False, 'standard-deviation-x is the non-negative square root of variance-x')
        elif E.valid(N == 1):
            ob('variance_undefined_for_one_value', bool(is_empty(get('variance')) and is_empty(get('standard-deviation'))),
               'the sample variance of a single value is undefined (empty)')
        if E.valid(SN == 0):
            ob('min', real_eq(get('min'), gMin), 'min-x is the smallest value')
            ob('max', real_eq(get('max'), gMax), 'max-x is the largest value')
            _median(E, env, ob, get('median'), N, numeric=True)
    elif E.valid(N == 0):
        for k in ('total', 'mean', 'variance', 'variance-n', 'standard-deviation', 'standard-deviation-n'):
            if not is_empty(get(k)):
                ob('non_numeric_data_has_no_numeric_statistics', False, '%s-x must be empty when there is no numeric value' % k)
                break
        else:
            ob('non_numeric_data_has_no_numeric_statistics', True, 'without numeric values only count, min, max and median are set')
        ob('count_non_numeric', real_eq(get('count'), z3.ToReal(SN)), 'count-x is the number of (non-None) values')
        if E.valid(SN == 0):
            ob('empty_has_no_extremes', bool(is_empty(get('min')) and is_empty(get('max')) and is_empty(get('median'))),
               'no values at all: min, max, median stay empty')


def _median(E, env, ob, med, N, numeric):
    """values were sorted by list.sort (ascending: assumed library contract, instantiated for the two middle elements)"""
    values = env.final.get('values') if hasattr(env, 'final') else None
    if values is None or med is None:
        ob('median', False, 'median-x not set')
        return
    h = E.heap[values.addr]
    if h.base is None or h.items:
        if E.valid(N == 1):
            return
        ob('median', False, 'values were not sorted as a whole')
        return
    sq = h.base
    if E.valid(N == 1):
        return
    odd = E.valid(N % 2 == 1)
    even = E.valid(N % 2 == 0)
    if odd:
        ob('median_odd', E.to_val(med) == sq.elem(N / 2), 'odd count: median-x is the middle element of the sorted values')
    elif even:
        reads = [t for t in E.trace if t[0] == 'list-read' and t[1] == values.addr]
        ok = len(reads) == 2 and E.valid(reads[0][2] == N / 2) and E.valid(reads[1][2] == N / 2 - 1)
        if any(isinstance(t[3], VO) and E.tfacts.get((t[3].name, 'nonnumeric')) for t in reads):
            # an element of the numeric list that does not support arithmetic: excluded by the accumulation obligation
            # only_numbers_are_numeric_values (element types are not carried through the loop abstraction)
            return
        if not ok:
            ob('median_even_reads_the_two_middle_values', False, 'even count: the two middle elements of the sorted values are used')
            return
        ob('median_even_reads_the_two_middle_values', True, 'even count: the two middle elements of the sorted values are used')
        try:
            m = E.as_z3_real(med)
            hi_r, lo_r = E.as_z3_real(reads[0][3]), E.as_z3_real(reads[1][3])
        except Exception:
            ob('median_even_between_middle_values', False, 'median-x of an even count of numbers is not a number')
            return
        # list.sort (assumed contract): ascending, so lo <= hi
        ob('median_even_between_middle_values', z3.Implies(lo_r <= hi_r, z3.And(lo_r <= m, m <= hi_r)),
           'even count: median-x lies between the two middle values of the sorted list')


def _axiom_cauchy_schwarz(E, n, s1, s2):
    """n * sum(x^2) >= (sum x)^2 for n real numbers (Cauchy-Schwarz): a mathematical fact about the ghost folds that needs an
    induction with a quantified invariant and is not mechanised; stated as an axiom instance at the loop exit so that both the
    ``math.sqrt`` domain error and the rounding guard ``if sumsq < 0`` are seen as unreachable over the reals"""
    E.assumptions_used.add('the variance of real data is non-negative (Cauchy-Schwarz: n * sum(x^2) >= (sum x)^2), mathematical fact, '
                           'not mechanised; floating-point rounding is outside the claim')
    N = z3.ToReal(E.as_z3_int(n))
    return VB(N * E.as_z3_real(s2) >= E.as_z3_real(s1) * E.as_z3_real(s1))


from pyvc import spec as _spec  # noqa: E402
_spec.register('axiom_cauchy_schwarz', _axiom_cauchy_schwarz)

contract(SV + '.statistics', variant='attr', params=dict(self=NoneV(), name=Const(NAME), key=Const('total-' + NAME)),
         pre_hook=_state(False), exit_hook=_exit, numeric_split=True,
         invariants={1: dict(header='for item in items', inv=INV,
                             ghost={'gN': '0', 'gSN': '0', 'gS1': '0', 'gS2': '0', 'gMin': '0', 'gMax': '0'},
                             ghost_types={'gN': 'int', 'gSN': 'int', 'gS1': 'real', 'gS2': 'real', 'gMin': 'real', 'gMax': 'real'},
                             havoc_heap=['values', 'svalues'],
                             types={'item': 'opaque', 's': 'opaque', 'sum': 'real', 'sumsq': 'real', 'min': 'real?', 'max': 'real?',
                                    'smin': 'opaque?', 'smax': 'opaque?'},
                             exit_hints=['axiom_cauchy_schwarz(gN, gS1, gS2)'],
                             on_iteration=_loop_iter(False))})
STATS = [SV + '.statistics#attr']

contract(SV + '.statistics', variant='mapping', params=dict(self=NoneV(), name=Const(NAME), key=Const('mean-' + NAME)),
         pre_hook=_state(True), exit_hook=_exit, numeric_split=True,
         invariants={1: dict(REGISTRY[SV + '.statistics#attr'].invariants[1], on_iteration=_loop_iter(True))})
STATS.append(SV + '.statistics#mapping')


# ------------------------------------------------------------------ dispatch: <stat>-x is computed by statistics('x', '<stat>-x')
def _disp_state(E, env):
    _state(False)(E, env)


def _disp_exit(stat):
    def hook(E, outcome, value, env, prefix):
        ob = lambda n, c, d: E.oblige('%s::C16.%s' % (prefix, n), c, kind='post', detail=d)  # noqa
        cs = [t for t in E.trace if t[0] == 'contract-call' and t[1] == SV + '.statistics']
        ok = len(cs) == 1 and isinstance(cs[0][2].get('name'), VC) and cs[0][2]['name'].v == NAME \
            and isinstance(cs[0][2].get('key'), VC) and cs[0][2]['key'].v == '%s-%s' % (stat, NAME) and cs[0][2].get('self') is env.locals['self']
        ob('dispatch', bool(ok), '%s-x is computed by the statistics routine for variable x' % stat)
        if outcome == 'normal':
            rets = [t for t in E.trace if t[0] == 'contract-ret' and t[1] == SV + '.statistics']
            ob('dispatch_result', bool(rets and rets[-1][2] is value), 'and its value is returned unchanged')
    return hook


contract(SV + '.statistics', params=dict(self=Opaque(), name=Opaque(), key=Opaque()), raises_any=True, returns=Opaque())
DISPATCH = []
for _st in ('total', 'count', 'min', 'max', 'median', 'mean', 'variance', 'variance-n', 'standard-deviation', 'standard-deviation-n'):
    contract(SV + '.__getitem__', variant='stat.' + _st, params=dict(self=NoneV(), key=Const('%s-%s' % (_st, NAME))),
             pre_hook=_disp_state, exit_hook=_disp_exit(_st), uses=[SV + '.statistics'])
    DISPATCH.append(SV + '.__getitem__#stat.' + _st)
