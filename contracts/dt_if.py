"""Contracts for DocumentTemplate.DT_If (If, Unless) and DT_Var.Call: compile shape of the 'i' form (C09)."""
from pyvc.contracts import *  # noqa
from pyvc.values import VT, VC, VO, VRef, HList

PP = 'DocumentTemplate.DT_Util.parse_params'
NP = 'DocumentTemplate.DT_Util.name_param'

# as seen by the tag constructors: parameter parsing yields an opaque dict / a (name, expr) pair,
# or raises ParseError
contract(PP, params=dict(text=Opaque()), raises=['ParseError'], returns=Opaque())
contract(NP, params=dict(params=Opaque(), tag=Opaque(), expr=Opaque(), attr=Opaque(), default_unnamed=Opaque()), raises=['ParseError', 'SyntaxError'], returns=TupleS(Opaque(), Opaque()))


class BlocksList(Spec):
    """a concrete-length list of (tname, args, section) tuples with symbolic contents"""

    def __init__(self, k):
        self.k = k


def _mk_blocks(E, k):
    import z3
    from pyvc.values import VS
    items = []
    for i in range(k):
        sec = instantiate(E, 'section%d' % i, Obj(None, fields={'blocks': ListS()}, lazy=True, prov='fresh'))
        items.append(VT([VS(z3.String('tname%d' % i)), VO('args%d' % i), sec]))
    return E.alloc(HList(items))


def _is_blocks_of(E, body, sec):
    want = E.heap[sec.addr].fields['blocks']
    return isinstance(body, VRef) and body.addr == want.addr


def _if_pre(k, first='if', conts=('elif', 'else')):
    def hook(E, env):
        env.locals['blocks'] = _mk_blocks(E, k)
        env.locals['__blocks0'] = VT(list(E.heap[env.locals['blocks'].addr].items))
        # call-site facts (String.parse_block): the first section is named after the tag itself, the
        # others after one of its blockContinuations
        import z3
        its = E.heap[env.locals['blocks'].addr].items
        E.assume(E.as_z3_str(its[0].items[0]) == z3.StringVal(first))
        for t in its[1:]:
            E.assume(z3.Or(*[E.as_z3_str(t.items[0]) == z3.StringVal(c) for c in conts]))
    return hook


def _if_exit(k):
    def hook(E, outcome, value, env, prefix):
        import z3
        if outcome != 'normal':
            return
        blocks0 = env.locals['__blocks0'].items
        me = E.heap[env.locals['self'].addr]
        sf = me.fields.get('simple_form')
        ok_shape = isinstance(sf, VT) and len(sf.items) >= 3 and isinstance(sf.items[0], VC) and sf.items[0].v == 'i'
        E.oblige(prefix + '::C09.form_is_i_tuple', bool(ok_shape), kind='post', detail="simple_form is ('i', cond, body, ...)")
        if not ok_shape:
            return
        last_else = k >= 2 and E.valid(E.as_z3_str(blocks0[-1].items[0]) == z3.StringVal('else'))
        nconds = k - 1 if last_else else k
        want_len = 1 + 2 * nconds + (1 if last_else else 0)
        E.oblige(prefix + '::C09.one_pair_per_condition', len(sf.items) == want_len, kind='post',
                 detail='simple_form has one (condition, body) pair per if/elif section in source order, else last '
                        '(expected %d entries, found %d)' % (want_len, len(sf.items)))
        if len(sf.items) != want_len:
            return
        for i in range(nconds):
            body = sf.items[2 + 2 * i]
            sec = blocks0[i].items[2]
            E.oblige(prefix + '::C09.body_%d_is_section_%d' % (i, i), _is_blocks_of(E, body, sec), kind='post',
                     detail='body %d is the compiled section of source block %d' % (i, i))
        if last_else:
            body = sf.items[-1]
            sec = blocks0[-1].items[2]
            E.oblige(prefix + '::C09.else_body_is_last_section', _is_blocks_of(E, body, sec),
                     kind='post', detail='the else body is the last entry')
    return hook


IF = 'DocumentTemplate.DT_If.If'
for _k in range(1, 7):
    contract(IF + '.__init__', variant='blocks%d' % _k,
             params=dict(self=Obj(IF, lazy=False, prov='fresh'), blocks=Opaque(), encoding=Opaque()),
             pre_hook=_if_pre(_k), exit_hook=_if_exit(_k),
             raises=['ParseError', 'SyntaxError'], uses=[PP, NP], propagate_opaque=True)


def _unless_exit(E, outcome, value, env, prefix):
    if outcome != 'normal':
        return
    blocks0 = env.locals['__blocks0'].items
    sf = E.heap[env.locals['self'].addr].fields.get('simple_form')
    ok = (isinstance(sf, VT) and len(sf.items) == 4 and isinstance(sf.items[0], VC) and sf.items[0].v == 'i'
          and isinstance(sf.items[2], VC) and sf.items[2].v is None
          and _is_blocks_of(E, sf.items[3], blocks0[0].items[2]))
    E.oblige(prefix + '::C09.unless_form', bool(ok), kind='post',
             detail="unless compiles to ('i', cond, None, body): the body is rendered exactly when the condition is false")


contract('DocumentTemplate.DT_If.Unless.__init__',
         params=dict(self=Obj('DocumentTemplate.DT_If.Unless', lazy=False, prov='fresh'), blocks=Opaque(), encoding=Opaque()),
         pre_hook=_if_pre(1, 'unless'), exit_hook=_unless_exit, raises=['ParseError', 'SyntaxError'], uses=[PP, NP])


def _call_exit(E, outcome, value, env, prefix):
    if outcome != 'normal':
        return
    sf = E.heap[env.locals['self'].addr].fields.get('simple_form')
    ok = (isinstance(sf, VT) and len(sf.items) == 3 and isinstance(sf.items[0], VC) and sf.items[0].v == 'i'
          and isinstance(sf.items[2], VC) and sf.items[2].v is None)
    E.oblige(prefix + '::C09.call_form', bool(ok), kind='post',
             detail="dtml-call compiles to ('i', expr, None): one evaluation, nothing emitted")


contract('DocumentTemplate.DT_Var.Call.__init__',
         params=dict(self=Obj('DocumentTemplate.DT_Var.Call', lazy=False, prov='fresh'), args=Opaque(), encoding=Opaque()),
         exit_hook=_call_exit, raises=['ParseError', 'SyntaxError'], uses=[PP, NP])

