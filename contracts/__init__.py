"""Sidecar contracts for /repo/src (no file under /repo is edited).  Importing the package loads every
contract module, so call-site contracts are the same whichever property is being checked."""
from . import core, dt_util, dt_insv, tags, dt_try, dt_if, dt_in, dt_ns, dt_string, dt_insv_vars, dt_sort, dt_stats, dt_var, c03, c19, c04, c05, frames, parser, c20  # noqa
