"""C17 / C18: frames.  What a rendering writes, and where.

write_sites(): every assignment to an attribute / item of ``self`` (and every mutating call on an attribute of self) in
the functions that run at render time, enumerated from the AST on every run and classified by a ledger:
   fresh     the object written is created in this activation
   locked    the write happens while COOKLOCK is held (compilation)
   CONFINED  violation: a per-rendering value is stored on an object shared by all renderings
An unclassified write is a violation too."""
import ast
import os
import z3
from pyvc.contracts import *  # noqa
from pyvc.values import *  # noqa
from contracts.core import M

S_ = 'DocumentTemplate.DT_String.String'
RENDER_TIME = {
    '_DocumentTemplate': ('DocumentTemplate/_DocumentTemplate.py', None),     # every function: namespace + renderer
    'DT_In': ('DocumentTemplate/DT_In.py', {'renderwb', 'renderwob', 'sort_sequence', 'reverse_sequence', 'int_param', '__call__',
                                            'make_sortfunctions', 'nocase', 'cmp'}),
    'DT_InSV': ('DocumentTemplate/DT_InSV.py', None),
    'DT_Var': ('DocumentTemplate/DT_Var.py', {'render', '__call__'}),
    'DT_With': ('DocumentTemplate/DT_With.py', {'render', '__call__'}),
    'DT_Let': ('DocumentTemplate/DT_Let.py', {'render', '__call__'}),
    'DT_Try': ('DocumentTemplate/DT_Try.py', {'render', 'render_try_except', 'render_try_finally', 'find_handler', 'match_base', '__call__'}),
    'DT_Raise': ('DocumentTemplate/DT_Raise.py', {'render', '__call__'}),
    'DT_Return': ('DocumentTemplate/DT_Return.py', {'render', '__call__'}),
    'DT_If': ('DocumentTemplate/DT_If.py', {'render', '__call__'}),
    'DT_Util': ('DocumentTemplate/DT_Util.py', {'eval', 'careful_getattr', 'careful_hasattr', 'namespace', 'render', '__call__', '__getitem__',
                                                '__len__', 'sequence_ensure_subscription', 'sequence_supports_subscription', '__setitem__'}),
    'DT_String': ('DocumentTemplate/DT_String.py', {'__call__', 'cook', '__str__', 'read', 'read_raw'}),
}
# objects whose ``self`` is created per rendering (writes to them are confined by construction)
PER_RENDER_CLASSES = {'TemplateDict', 'InstanceDict', 'sequence_variables', 'SequenceFromIter', 'Add_with_prefix', 'SortBy',
                      'MultiMapping', 'DictInstance', 'StringFunctionWrapper', 'NotBindable', 'DTReturn'}
LEDGER = {
    ('DT_String', 'String.cook', 'self._v_blocks'): 'locked',
    ('DT_String', 'String.cook', 'self._v_cooked'): 'locked',
}


def _class_of(tree, fn):
    for c in ast.walk(tree):
        if isinstance(c, ast.ClassDef) and fn in c.body:
            return c.name
    return None


def write_sites():
    from pyvc.engine import REPO_SRC
    out = []

    def ob(oid, status, detail):
        out.append(dict(oid='frame.write.' + oid, kind='structural', status=status, paths=1, backends=['ast'], ms=0, model=None,
                        detail=detail, havoced=False))
    n = 0
    for m, (rel, names) in RENDER_TIME.items():
        tree = ast.parse(open(os.path.join(REPO_SRC, rel)).read())
        # a class with at least one method that runs at render time is a render-time object as a whole: a new helper method
        # (e.g. a step split out of eval / render) is covered without being listed.  DT_String is the exception: the template
        # class also has edit-time methods (munge, __setstate__, ...) that legitimately write to self.
        render_classes = set()
        if names is not None and m != 'DT_String':
            for c in [x for x in ast.walk(tree) if isinstance(x, ast.ClassDef)]:
                if any(isinstance(f, ast.FunctionDef) and f.name in names and f.name not in ('__init__', '__call__') for f in c.body):
                    render_classes.add(c.name)
        for fn in [x for x in ast.walk(tree) if isinstance(x, ast.FunctionDef)]:
            cls = _class_of(tree, fn)
            if names is not None and fn.name not in names and cls not in render_classes:
                continue
            if fn.name in ('__init__', '__setstate__', '__getstate__'):
                continue
            if not fn.args.args or fn.args.args[0].arg != 'self':
                continue
            qual = '%s.%s' % (cls, fn.name) if cls else fn.name
            locked = set()
            for w in ast.walk(fn):
                if isinstance(w, ast.With) and any('COOKLOCK' in ast.unparse(i.context_expr) for i in w.items):
                    for x in ast.walk(w):
                        locked.add(id(x))
            targets = []
            for st in ast.walk(fn):
                if isinstance(st, (ast.Assign, ast.AugAssign, ast.AnnAssign)):
                    tg = st.targets if isinstance(st, ast.Assign) else [st.target]
                    for t in tg:
                        for leaf in ast.walk(t):
                            if isinstance(leaf, ast.Attribute) and isinstance(leaf.ctx, ast.Store) and ast.unparse(leaf.value) == 'self':
                                targets.append((ast.unparse(leaf), st))
                            if isinstance(leaf, ast.Subscript) and isinstance(leaf.ctx, ast.Store) and ast.unparse(leaf.value).startswith('self.'):
                                targets.append((ast.unparse(leaf.value) + '[...]', st))
                elif isinstance(st, ast.Expr) and isinstance(st.value, ast.Call) and isinstance(st.value.func, ast.Attribute) \
                        and st.value.func.attr in ('append', 'extend', 'update', 'pop', 'clear', 'insert', 'remove', 'sort', 'reverse', 'setdefault') \
                        and ast.unparse(st.value.func.value).startswith('self.'):
                    targets.append((ast.unparse(st.value.func.value) + '.' + st.value.func.attr + '()', st))
                elif isinstance(st, ast.Call) and isinstance(st.func, ast.Name) and st.func.id == 'setattr' and st.args and ast.unparse(st.args[0]) == 'self':
                    targets.append(('setattr(self, ...)', st))
            for text, st in targets:
                n += 1
                oid = '%s.%s.%s' % (m, qual, text.replace(' ', ''))
                if cls in PER_RENDER_CLASSES:
                    ob(oid, 'discharged', '%s in %s: the object is created per rendering (class %s)' % (text, qual, cls))
                    continue
                kind = LEDGER.get((m, qual, text))
                if kind == 'locked':
                    ok = id(st) in locked
                    ob(oid, 'discharged' if ok else 'refuted',
                       '%s in %s: compiled state is written %s COOKLOCK' % (text, qual, 'under' if ok else 'OUTSIDE'))
                elif kind is None:
                    ob(oid, 'refuted', '%s in %s: a rendering stores a value on an object that is shared by all renderings of the template '
                                       '(compiled tag / template); such a write is neither confined to the rendering nor made under the compile lock' % (text, qual))
    # writes to module-level mutable state from render-time functions (functions and methods alike): a cache, registry or
    # counter at module level is shared by ALL templates and all renderings, so what one template compiles or renders
    # would depend on what others did before (C17 determinism, C01/C07 per-class compilation, C18 confinement)
    MUT = ('append', 'extend', 'update', 'pop', 'clear', 'insert', 'remove', 'sort', 'reverse', 'setdefault', 'add', 'discard', 'popitem')
    scan = dict(RENDER_TIME)
    scan['DT_HTML'] = ('DocumentTemplate/DT_HTML.py', None)
    scan['TreeTag'] = ('TreeDisplay/TreeTag.py', None)
    for m, (rel, names) in scan.items():
        names = None        # every function of these modules: compile time counts too (a parse cache is shared state as well)
        tree = ast.parse(open(os.path.join(REPO_SRC, rel)).read())
        globs = set()
        for st in tree.body:
            if isinstance(st, (ast.Assign, ast.AnnAssign)):
                for t in (st.targets if isinstance(st, ast.Assign) else [st.target]):
                    if isinstance(t, ast.Name):
                        globs.add(t.id)
        for fn in [x for x in ast.walk(tree) if isinstance(x, ast.FunctionDef)]:
            if names is not None and fn.name not in names:
                continue
            cls = _class_of(tree, fn)
            qual = '%s.%s' % (cls, fn.name) if cls else fn.name
            local = {a.arg for a in fn.args.args + fn.args.kwonlyargs} | {
                n_.id for n_ in ast.walk(fn) if isinstance(n_, ast.Name) and isinstance(n_.ctx, ast.Store)}
            declared_global = {g for st in ast.walk(fn) if isinstance(st, ast.Global) for g in st.names}
            hits = []
            for st in ast.walk(fn):
                if isinstance(st, ast.Subscript) and isinstance(st.ctx, (ast.Store, ast.Del)) and isinstance(st.value, ast.Name) \
                        and st.value.id in globs and st.value.id not in local:
                    hits.append('%s[...]' % st.value.id)
                elif isinstance(st, ast.Call) and isinstance(st.func, ast.Attribute) and st.func.attr in MUT \
                        and isinstance(st.func.value, ast.Name) and st.func.value.id in globs and st.func.value.id not in local:
                    hits.append('%s.%s()' % (st.func.value.id, st.func.attr))
                elif isinstance(st, ast.Name) and isinstance(st.ctx, ast.Store) and st.id in declared_global:
                    hits.append('global %s' % st.id)
            for text in sorted(set(hits)):
                n += 1
                ob('%s.%s.%s' % (m, qual, text.replace(' ', '_')), 'refuted',
                   '%s in %s: a render-time / compile-time function of a template writes module-level state, which is shared by every '
                   'template of the process: results would depend on what other templates did before' % (text, qual))
    out.append(dict(oid='frame.write.sites_enumerated', kind='structural', status='discharged' if n >= 10 else 'undecided', paths=1,
                    backends=['ast'], ms=0, model=None, detail='%d write sites in render-time functions' % n, havoced=False))
    return out


def publication():
    """compile-and-publish protocol of String.cook / String.__call__ and the per-parse tag matcher"""
    from pyvc.engine import REPO_SRC
    out = []

    def ob(oid, ok, detail):
        out.append(dict(oid='frame.publish.' + oid, kind='structural', status='discharged' if ok else 'refuted', paths=1, backends=['ast'],
                        ms=0, model=None, detail=detail, havoced=False))
    tree = ast.parse(open(os.path.join(REPO_SRC, 'DocumentTemplate/DT_String.py')).read())
    cook = [n for n in ast.walk(tree) if isinstance(n, ast.FunctionDef) and n.name == 'cook'][0]
    body = [s for s in cook.body if not (isinstance(s, ast.Expr) and isinstance(s.value, ast.Constant))]
    ok = len(body) == 1 and isinstance(body[0], ast.With) and 'COOKLOCK' in ast.unparse(body[0].items[0].context_expr)
    ob('cook_is_one_locked_region', ok, 'String.cook does all its work inside "with COOKLOCK" (parsing included: the tag matcher and the '
                                       'lazily resolved command table are touched only under the lock)')
    if ok:
        inner = [ast.unparse(s) for s in body[0].body]
        i_b = [i for i, s in enumerate(inner) if s.startswith('self._v_blocks =')]
        i_c = [i for i, s in enumerate(inner) if s.startswith('self._v_cooked =')]
        ob('blocks_published_before_cooked_flag', bool(i_b and i_c and max(i_b) < min(i_c)),
           'the compiled blocks are stored before the "cooked" flag is set, so a reader that sees the flag sees complete blocks')
        ob('parse_inside_lock', any('self.parse(' in s for s in inner), 'self.parse(...) runs inside the locked region')
    # (that String.__call__ tests the cooked flag / cooks before it renders, renders the published blocks and builds its own
    # namespace per call are obligations over the symbolic execution of __call__ now: _publication_hook below; the earlier
    # text matches on the source of __call__ raised a false alarm when the compile-on-first-use block was moved to a helper)
    h = ast.parse(open(os.path.join(REPO_SRC, 'DocumentTemplate/DT_HTML.py')).read())
    tagre = [n for n in ast.walk(h) if isinstance(n, ast.FunctionDef) and n.name == 'tagre']
    ob('matcher_per_parse', bool(tagre) and ast.unparse(tagre[0].body[-1]).strip() == 'return dtml_re_class()',
       'HTML.tagre() returns a new (stateful) matcher object for every parse')
    return out


# ------------------------------------------------------------------ symbolic frame of String.__call__ and the tag renderers
def _frame_hook(shared_params=('self',), caller_params=('mapping', 'kw', 'client'), allow_ns_level=True):
    def hook(E, outcome, value, env, prefix):
        if E.trace_truncated:
            return
        ob = lambda n, c, d: E.oblige('%s::frame.%s' % (prefix, n), c, kind='frame', detail=d)  # noqa
        loc = env.locals
        shared = {}
        for p in shared_params:
            v = loc.get(p)
            if isinstance(v, VRef):
                shared[v.addr] = p
                h = E.heap[v.addr]
                if isinstance(h, HObj):
                    for f, fv in h.fields.items():
                        if isinstance(fv, VRef) and isinstance(E.heap.get(fv.addr), (HDict, HList)):
                            shared[fv.addr] = '%s.%s' % (p, f)
        caller = {}
        for p in caller_params:
            v = loc.get(p)
            if isinstance(v, VRef) and not (isinstance(E.heap[v.addr], HObj) and getattr(E.heap[v.addr].cls, 'name', '') == 'TemplateDict'):
                caller[v.addr] = p
        bad_shared, bad_caller = [], []
        for t in E.trace:
            if t[0] == 'setattr' and t[1] in shared and not t[4]:
                bad_shared.append('%s.%s' % (shared[t[1]], t[2]))
            elif t[0] in ('dict_set', 'list_append') and t[1] in shared:
                bad_shared.append('%s[...]' % shared[t[1]])
            elif t[0] in ('dict_set', 'list_append', 'setattr') and t[1] in caller:
                bad_caller.append(caller[t[1]])
        ob('no_write_to_the_template_or_its_defaults', bool(not bad_shared),
           'a call writes nothing to the template object, its defaults (globals, _vars) or its compiled blocks outside the locked '
           'compile step (%s)' % bad_shared)
        ob('no_write_to_callers_mapping_or_keywords', bool(not bad_caller),
           "a call does not modify the caller's mapping, keyword values or client objects (%s)" % bad_caller)
    return hook


def _derive(key, variant, hook, **over):
    c = REGISTRY[key]
    kw = dict(params=c.params, requires=c.requires, ensures=c.ensures, exc_ensures=c.exc_ensures, uses=list(c.uses), invariants=c.invariants,
              pre_hook=c.pre_hook, cuts=[], exit_hook=hook)
    kw.update(over)
    contract(c.func, variant=variant, **kw)
    return c.func + '#' + variant


def _publication_hook(toplevel):
    """compile-and-publish protocol as seen from String.__call__, over its symbolic execution (helpers without a contract
    are inlined, so it does not matter in which method the statements live): on every path that renders, the cooked flag
    was tested; when it was found missing the template was cooked before the rendering; what is rendered is the published
    block list self._v_blocks; a top-level call renders with a namespace created by this call."""
    def hook(E, outcome, value, env, prefix):
        if E.trace_truncated:
            return
        ob = lambda n, c, d: E.oblige('%s::frame.publish.%s' % (prefix, n), c, kind='frame', detail=d)  # noqa
        rb = [i for i, t in enumerate(E.trace) if t[0] == 'contract-call' and t[1].endswith('.render_blocks')]
        if not rb:
            return
        me = env.locals.get('self')
        h = E.heap[me.addr]
        cooks = [i for i, t in enumerate(E.trace) if t[0] == 'contract-call' and t[1] == S_ + '.cook']
        tested = '_v_cooked' not in h.maybe
        absent = '_v_cooked' in h.absent
        ob('call_checks_flag_before_reading_blocks', bool(tested and (not absent or (cooks and cooks[0] < rb[0]))),
           'String.__call__ tests the cooked flag, and cooks when it is missing, before it renders the compiled blocks')
        blocks = E.trace[rb[0]][2].get('blocks')
        ob('call_renders_the_published_blocks', bool(len(rb) == 1 and blocks is not None and blocks is h.fields.get('_v_blocks')),
           'what is rendered is self._v_blocks (the block list published by cook), once per call')
        if toplevel:
            md = E.trace[rb[0]][2].get('md')
            fresh = isinstance(md, VRef) and getattr(E.heap[md.addr], 'prov', '') == 'fresh'
            ob('namespace_per_call', bool(fresh), 'a top-level call renders with a namespace object created by this call')
    return hook


def _hooks(*hs):
    def hook(E, outcome, value, env, prefix):
        for h_ in hs:
            h_(E, outcome, value, env, prefix)
    return hook


FRAMES = [
    _derive(S_ + '.__call__#toplevel', 'frame.toplevel', _hooks(_frame_hook(), _publication_hook(True))),
    _derive(S_ + '.__call__#subtemplate', 'frame.subtemplate', _hooks(_frame_hook(), _publication_hook(False))),
]
for _k in ('DocumentTemplate.DT_With.With.render', 'DocumentTemplate.DT_Let.Let.render', 'DocumentTemplate.DT_Try.Try.render_try_except',
           'DocumentTemplate.DT_Try.Try.render_try_finally', 'DocumentTemplate.DT_Raise.Raise.render', 'DocumentTemplate.DT_Return.ReturnTag.render'):
    if _k in REGISTRY:
        FRAMES.append(_derive(_k, 'frame', _frame_hook(caller_params=())))


# ------------------------------------------------------------------ C17: persistence
def _tmpl_state(E, env):
    cls = E.lookup_qual(S_)
    g = E.alloc(HDict())
    me = E.alloc(HObj(cls, {'raw': VS(z3.String('raw')), 'encoding': VC('utf-8'), 'globals': g, '_vars': E.alloc(HDict()),
                            '__name__': VC('<string>'), '_v_blocks': VO('blocks'), '_v_cooked': NONE, '_p_changed': VC(1),
                            '_v_other': VO('volatile')}, name='self'))
    env.locals['self'] = me


def _getstate_exit(E, outcome, value, env, prefix):
    ob = lambda n, c, d: E.oblige('%s::C17.%s' % (prefix, n), c, kind='post', detail=d)  # noqa
    if outcome != 'normal':
        ob('getstate.total', False, '__getstate__ raised')
        return
    d = E.heap[value.addr]
    keys = [k.v for k, v in d.entries if isinstance(k, VC)]
    me = E.heap[env.locals['self'].addr]
    ob('getstate.omits_compiled_and_volatile_data', bool(not [k for k in keys if k[:3] in ('_v_', '_p_')]),
       'the pickled state contains no _v_* (compiled blocks, cooked flag) and no _p_* attribute')
    ob('getstate.keeps_everything_else', bool(sorted(keys) == sorted(k for k in me.fields if k[:3] not in ('_v_', '_p_'))
                                              and all(v is me.fields[k.v] for k, v in d.entries)),
       'every other attribute (source, defaults, name, encoding) is kept unchanged')
    ob('getstate.is_a_copy', bool(not [t for t in E.trace if t[0] == 'setattr' and t[1] == env.locals['self'].addr]),
       '__getstate__ does not modify the template')


contract(S_ + '.__getstate__', variant='C17', params=dict(self=NoneV(), _special=Default()), pre_hook=_tmpl_state, exit_hook=_getstate_exit)


def _munge_exit(kind):
    def hook(E, outcome, value, env, prefix):
        ob = lambda n, c, d: E.oblige('%s::C17.%s' % (prefix, n), c, kind='post', detail=d)  # noqa
        if outcome != 'normal':
            return
        me = E.heap[env.locals['self'].addr]
        cooks = [t for t in E.trace if t[0] == 'contract-call' and t[1] == S_ + '.cook']
        inits = [t for t in E.trace if t[0] == 'contract-call' and t[1] == S_ + '.initvars']
        ob('munge.recompiles', bool(len(cooks) == 1), 'munge recompiles the template (exactly one cook)')
        if kind in ('source', 'both'):
            ob('munge.stores_the_new_source', bool(me.fields.get('raw') is env.locals['source_string']), 'the new source text replaces the old one')
            sets = [i for i, t in enumerate(E.trace) if t[0] == 'setattr' and t[2] == 'raw']
            ck = [i for i, t in enumerate(E.trace) if t[0] == 'contract-call' and t[1] == S_ + '.cook']
            ob('munge.compiles_the_new_source', bool(sets and ck and max(sets) < min(ck)), 'the source is replaced before compiling')
        if kind in ('mapping', 'both', 'empty_mapping'):
            ob('munge.replaces_the_defaults', bool(len(inits) == 1 and inits[0][2].get('globals') is env.locals['mapping']),
               'a mapping given to munge (an empty one included) replaces the defaults, exactly as at construction')
        if kind == 'source':
            ob('munge.keeps_the_defaults', bool(not inits), 'without mapping / keywords the defaults are kept')
    return hook


contract(S_ + '.initvars', variant='opaque', params=dict(self=Opaque(), globals=Opaque(), vars=Opaque()), raises_any=True, returns=NoneV())
MUNGE = []
for _kind, _params in (('source', dict(source_string=Str(), mapping=NoneV())),
                       ('mapping', dict(source_string=NoneV(), mapping=DictS())),
                       ('empty_mapping', dict(source_string=NoneV(), mapping=Const({}))),
                       ('both', dict(source_string=Str(), mapping=DictS()))):
    contract(S_ + '.munge', variant='C17.' + _kind, params=dict(self=Obj(S_, lazy=True), vars=Default(), **_params),
             exit_hook=_munge_exit(_kind), uses=[S_ + '.cook', S_ + '.initvars#opaque'])
    MUNGE.append(S_ + '.munge#C17.' + _kind)


def _file_exit(E, outcome, value, env, prefix):
    ob = lambda n, c, d: E.oblige('%s::C17.%s' % (prefix, n), c, kind='post', detail=d)  # noqa
    if outcome != 'normal':
        return
    me = E.heap[env.locals['self'].addr]
    reads = [t for t in E.trace if t[0] == 'call' and 'open' in str(t[1])]
    ob('file_template_stores_the_file_name', bool( me.fields.get('raw') is env.locals['file_name'] and not reads),
       'a file-based template stores the file name as its source attribute (what gets pickled); the file is not read at construction')


FM = 'DocumentTemplate.DT_String.FileMixin'
contract(FM + '.__init__', variant='C17', params=dict(self=Obj('DocumentTemplate.DT_String.File', lazy=False, prov='fresh'), file_name=Str(), mapping=NoneV(), __name__=Const('')),
         exit_hook=_file_exit, uses=[S_ + '.initvars#opaque'])
PERSIST = [S_ + '.__getstate__#C17'] + MUNGE + [FM + '.__init__#C17']
