"""C10: the documented sequence variables, computed by the real sequence_variables.__getitem__ (and the
helper methods it dispatches to), one contract variant per documented name; prefix aliasing by
Add_with_prefix.__setitem__ / the alt_prefix branch of __getitem__.

State at entry (pre_hook): a sequence_variables object as the dtml-in renderers build it:
  items  : abstract sequence of length L
  data   : {'previous-sequence': 0, 'next-sequence': 0, 'sequence-start': <int>, 'sequence-end': <int>,
            'mapping': <opaque>, 'sequence-index': i}      with 0 <= i < L
"""
import z3
from pyvc.contracts import *  # noqa
from pyvc.values import *  # noqa
from pyvc import spec as _spec

SV = 'DocumentTemplate.DT_InSV.sequence_variables'
AWP = 'DocumentTemplate.DT_Util.Add_with_prefix'


def _mk_state(alt_prefix=None, prefixed=()):
    def hook(E, env):
        cls = E.lookup_qual(SV)
        items = VSeq('items', z3.Int('L'))
        i = z3.Int('i')
        E.assume(items.length >= 1)
        E.assume(i >= 0)
        E.assume(i < items.length)
        start = z3.Int('start_flag')
        end = z3.Int('end_flag')
        d = HDict()
        d.entries = [[VC('previous-sequence'), VC(0)], [VC('next-sequence'), VC(0)],
                     [VC('sequence-start'), VI(start)], [VC('sequence-end'), VI(end)],
                     [VC('mapping'), VO('mapping')], [VC('sequence-index'), VI(i)]]
        for k in prefixed:
            src = dict((e[0].v, e[1]) for e in d.entries)['sequence-' + k]
            if alt_prefix:
                d.entries.append([VC(alt_prefix + k), src])
        data = E.alloc(d)
        flds = {'items': items, 'data': data, 'query_string': VC(''), 'start_name_re': NONE}
        if alt_prefix:
            flds['alt_prefix'] = VC(alt_prefix)
        me = E.alloc(HObj(cls, flds, name='vars'))
        env.locals['self'] = me
        env.locals['__g_i'] = VI(i)
        env.locals['__g_items'] = items
    return hook


def _elem(E, sq, k):
    return E.seq_elem(sq, E.as_z3_int(k))


_spec.register('elem_at', _elem)


def _is_pair(E, v):
    """type(v) is tuple and len(v) == 2, as a formula over the uninterpreted observers"""
    from pyvc import builtins_ as B
    t = B.isa_term(E, v, 'tuple') if hasattr(B, 'isa_term') else None
    return VB(z3.And(t, len_of(v.t) == 2))


_spec.register('is_pair', _is_pair)


def sv_exit(checks):
    """checks: callable(E, outcome, value, env, ob)"""
    def hook(E, outcome, value, env, prefix):
        def ob(name, cond, detail):
            E.oblige('%s::C10.%s' % (prefix, name), cond, kind='post', detail=detail)
        checks(E, outcome, value, env, ob)
    return hook


def _int_result(want, text):
    def chk(E, outcome, value, env, ob):
        i = E.as_z3_int(env.locals['__g_i'])
        ok = outcome == 'normal' and E.is_intlike(value)
        ob('value', z3.And(z3.BoolVal(bool(ok)), E.as_z3_int(value) == want(i)) if ok else False, text)
    return chk


def _str_result(want, text):
    def chk(E, outcome, value, env, ob):
        i = E.as_z3_int(env.locals['__g_i'])
        ok = outcome == 'normal' and E.is_strlike(value)
        ob('value', (E.as_z3_str(value) == want(E, i)) if ok else False, text)
    return chk


def _chr(E, code):
    return z3.StrFromCode(code) if hasattr(z3, 'StrFromCode') else z3.Unit(z3.CharFromBv(z3.Int2BV(code, 21)))


def variant(name, key, checks, alt_prefix=None, prefixed=(), uses=(), requires=()):
    contract(SV + '.__getitem__', variant=name,
             params=dict(self=NoneV(), key=Const(key)), requires=list(requires),
             pre_hook=_mk_state(alt_prefix, prefixed),
             exit_hook=sv_exit(checks), uses=list(uses))
    return SV + '.__getitem__#' + name


KEYS = {}


def _both(tag, suffix, checks, **kw):
    """the documented name and its prefix alias p_<suffix> (computed through the alt_prefix branch)"""
    KEYS[tag] = variant(tag, 'sequence-' + suffix, checks, **kw)
    KEYS[tag + '.prefixed'] = variant(tag + '.prefixed', 'p_' + suffix.replace('-', '_'), checks, alt_prefix='p_', **kw)


_both('index', 'index', _int_result(lambda i: i, "sequence-index is the element's position in the whole sequence"),
      prefixed=('index',))
_both('number', 'number', _int_result(lambda i: i + 1, 'sequence-number == index + 1'))
_both('odd', 'odd', _int_result(lambda i: i % 2, 'sequence-odd is true exactly for odd indexes'))


def _even(E, outcome, value, env, ob):
    i = E.as_z3_int(env.locals['__g_i'])
    t = E.truth_term(value) if outcome == 'normal' else False
    t = z3.BoolVal(t) if isinstance(t, bool) else t
    ob('value', t == (i % 2 == 0), 'sequence-even is true exactly for even indexes')


_both('even', 'even', _even)
_both('letter', 'letter', _str_result(lambda E, i: _chr(E, 97 + i), "sequence-letter == chr(ord('a') + index)"),
      requires=["i + 97 < 1114112"])
_both('Letter', 'Letter', _str_result(lambda E, i: _chr(E, 65 + i), "sequence-Letter == chr(ord('A') + index)"),
      requires=["i + 65 < 1114112"])


def _roman(upper):
    def chk(E, outcome, value, env, ob):
        i = E.as_z3_int(env.locals['__g_i'])
        f = z3.Function('roman.toRoman', z3.IntSort(), z3.StringSort())
        want = f(i + 1)
        if not upper:
            want = z3.Function('str_lower', z3.StringSort(), z3.StringSort())(want)
        ok = outcome == 'normal' and E.is_strlike(value)
        ob('value', (E.as_z3_str(value) == want) if ok else False,
           'sequence-%s is roman.toRoman(index + 1)%s' % ('Roman' if upper else 'roman', '' if upper else '.lower()'))
    return chk


_both('Roman', 'Roman', _roman(True), requires=['i + 1 <= 4999'])
_both('roman', 'roman', _roman(False), requires=['i + 1 <= 4999'])


def _length(E, outcome, value, env, ob):
    items = env.locals['__g_items']
    ok = outcome == 'normal' and E.is_intlike(value)
    ob('value', (E.as_z3_int(value) == items.length) if ok else False, 'sequence-length is the length of the whole sequence')


_both('length', 'length', _length)


def _flag(which):
    def chk(E, outcome, value, env, ob):
        ok = outcome == 'normal' and E.is_intlike(value)
        ob('value', (E.as_z3_int(value) == z3.Int(which + '_flag')) if ok else False,
           'sequence-%s is the flag the renderer maintains' % which)
    return chk


_both('start', 'start', _flag('start'), prefixed=('start',))
_both('end', 'end', _flag('end'), prefixed=('end',))


def _titem(v, k):
    return z3.Function('titem', Val, z3.IntSort(), Val)(v, z3.IntVal(k))


def _item(E, outcome, value, env, ob):
    """sequence-item: the element, or t[1] of a 2-tuple"""
    items, i = env.locals['__g_items'], E.as_z3_int(env.locals['__g_i'])
    el = E.seq_elem(items, i)
    if outcome != 'normal':
        ob('value', False, 'sequence-item raised')
        return
    exact = E.tfacts.get((el.name, 'exact:tuple'))
    if exact:
        ob('value', z3.If(len_of(el.t) == 2, E.to_val(value) == _titem(el.t, 1), E.to_val(value) == el.t),
           'sequence-item is t[1] for a 2-tuple element t, else the element')
    else:
        ob('value', E.to_val(value) == el.t, 'sequence-item is the element itself when it is not a tuple')


_both('item', 'item', _item)


def _key(E, outcome, value, env, ob):
    items, i = env.locals['__g_items'], E.as_z3_int(env.locals['__g_i'])
    el = E.seq_elem(items, i)
    calls = [t for t in E.trace if t[0] == 'call']
    one = len(calls) == 1 and E.valid(calls[0][3].t == el.t) and len(calls[0][4]) == 1 \
        and isinstance(calls[0][4][0], VC) and calls[0][4][0].v == 0
    if outcome != 'normal':
        ob('value', bool(one and value.sym), 'sequence-key raises only what element[0] raises')
        return
    rets = [t for t in E.trace if t[0] == 'returned']
    ob('value', bool(one and len(rets) == 1 and rets[0][3] is value), 'sequence-key is element[0]')


_both('key', 'key', _key)


# ------------------------------------------------------------------ value(), sequence-var-x, first-x, last-x
def _value_exit(E, outcome, value, env, prefix):
    def ob(name, cond, detail):
        E.oblige('%s::C10.%s' % (prefix, name), cond, kind='post', detail=detail)
    items, idx = env.locals['__g_items'], E.as_z3_int(env.locals['index'])
    el = E.seq_elem(items, idx)
    pair = E.tfacts.get((el.name, 'tuple')) and E.valid(len_of(el.t) == 2)
    src = _titem(el.t, 1) if pair else el.t
    calls = [t for t in E.trace if t[0] == 'call']
    rets = [t for t in E.trace if t[0] == 'returned']
    name = env.locals['name']
    mt = E.truth_term(VO('mapping'))
    if not calls:
        # the only way not to read anything: a tuple element that is not a (key, value) pair is indexed by name
        ob('value.no_read_only_on_type_error', bool(outcome == 'raise' and value.cls == 'TypeError' and E.valid(mt)
                                                   and E.tfacts.get((el.name, 'tuple')) and not pair),
           'nothing is read only when the element cannot be subscripted by a name (TypeError)')
        return
    if E.valid(mt):
        ok = len(calls) == 1 and E.valid(calls[0][3].t == src) and calls[0][1].endswith('__getitem__') \
            and len(calls[0][4]) == 1 and calls[0][4][0] is name
        ob('value.mapping_reads_item_key', bool(ok), "with 'mapping' the value is element[name] (element = t[1] for a 2-tuple)")
    else:
        ok = len(calls) == 1 and calls[0][1] == 'getattr' and len(calls[0][4]) == 2 \
            and E.valid(E.to_val(calls[0][4][0]) == src) and calls[0][4][1] is name
        ob('value.reads_attribute', bool(ok), "without 'mapping' the value is getattr(element, name) (element = t[1] for a 2-tuple)")
    if outcome == 'normal':
        ob('value.result_is_what_was_read', bool(len(rets) == 1 and rets[0][3] is value), 'the value read is returned unchanged')


def _value_state(E, env):
    _mk_state()(E, env)
    env.locals['index'] = VI(z3.Int('index'))
    E.assume(z3.Int('index') >= 0)
    E.assume(z3.Int('index') < z3.Int('L'))


contract(SV + '.value', variant='C10', params=dict(self=NoneV(), index=NoneV(), name=Opaque(types={'str': True})),
         pre_hook=_value_state, exit_hook=_value_exit)
VALUE = SV + '.value#C10'

# as seen by __getitem__/first/last: an opaque read
contract(SV + '.value', params=dict(self=Opaque(), index=Int(), name=Opaque()), raises_any=True, returns=Opaque())


def _value_calls(E):
    out = []
    for t in E.trace:
        if t[0] == 'contract-call' and t[1] == SV + '.value':
            out.append(dict(index=t[2].get('index'), name=t[2].get('name'), ret=None))
        elif t[0] == 'contract-ret' and t[1] == SV + '.value' and out:
            out[-1]['ret'] = t[2]
    return out


def _seqvar(E, outcome, value, env, ob):
    i = E.as_z3_int(env.locals['__g_i'])
    cs = _value_calls(E)
    ok = len(cs) == 1 and E.valid(E.as_z3_int(cs[0]['index']) == i) and isinstance(cs[0]['name'], VC) and cs[0]['name'].v == 'x'
    if outcome == 'normal':
        ob('value', bool(ok and cs[0]['ret'] is value), "sequence-var-x is the current element's x")
    else:
        ob('value', bool(ok and value.cls == 'KeyError' and not value.sym),
           'sequence-var-x: a failing read of x is reported as the variable being undefined (KeyError)')


KEYS['var-x'] = variant('var-x', 'sequence-var-x', _seqvar, uses=[SV + '.value'])
KEYS['var-item'] = variant('var-item', 'sequence-var-item',
                           lambda E, o, v, env, ob: _seqvar_named(E, o, v, env, ob, 'item'), uses=[SV + '.value'])


def _seqvar_named(E, outcome, value, env, ob, nm):
    """an attribute named like one of the helper methods (item, key, value, ...) is still read from the element"""
    i = E.as_z3_int(env.locals['__g_i'])
    cs = _value_calls(E)
    ok = len(cs) == 1 and E.valid(E.as_z3_int(cs[0]['index']) == i) and isinstance(cs[0]['name'], VC) and cs[0]['name'].v == nm
    ob('value', bool(ok and (cs[0]['ret'] is value if outcome == 'normal' else value.cls == 'KeyError')),
       "sequence-var-%s is the current element's %s" % (nm, nm))


def _boundary(which):
    delta = -1 if which == 'first' else 1
    flag = 'start_flag' if which == 'first' else 'end_flag'

    def chk(E, outcome, value, env, ob):
        i = E.as_z3_int(env.locals['__g_i'])
        fl = z3.Int(flag)
        cs = _value_calls(E)
        if outcome != 'normal':
            ob('value', bool(value.sym), '%s-x raises only what reading x or comparing raises' % which)
            return
        t = E.truth_term(value)
        t = z3.BoolVal(t) if isinstance(t, bool) else t
        if E.valid(fl != 0):
            ob('value', z3.And(t, z3.BoolVal(len(cs) == 0)), '%s-x is true on the %s displayed element' % (which, which))
            return
        ok = len(cs) == 2 and E.valid(E.as_z3_int(cs[0]['index']) == i) and E.valid(E.as_z3_int(cs[1]['index']) == i + delta) \
            and all(isinstance(c['name'], VC) and c['name'].v == 'x' for c in cs)
        if not ok:
            ob('value', False, '%s-x compares x of the current element with x of its %s neighbour' % (which, 'previous' if delta < 0 else 'next'))
            return
        from pyvc import ops
        eq = ops.val_eq(E, cs[0]['ret'], cs[1]['ret'])
        eq = z3.BoolVal(eq) if isinstance(eq, bool) else eq
        ob('value', t == z3.Not(eq), '%s-x is true exactly when x differs from the %s element\'s x (boundaries of runs of equal x)'
           % (which, 'previous' if delta < 0 else 'next'))
    return chk


KEYS['first-x'] = variant('first-x', 'first-x', _boundary('first'), uses=[SV + '.value'])
KEYS['last-x'] = variant('last-x', 'last-x', _boundary('last'), uses=[SV + '.value'])


# ------------------------------------------------------------------ prefix aliasing on write
def _awp_state(name):
    def hook(E, env):
        cls = E.lookup_qual(AWP)
        m = E.alloc(HDict())
        me = E.alloc(HObj(cls, {'map': m, 'defprefix': VC('sequence'), 'prefix': VC('p')}, name='pkw'))
        env.locals['self'] = me
        env.locals['__g_map'] = m
    return hook


def _awp_exit(name, alias):
    def hook(E, outcome, value, env, prefix):
        def ob(n, cond, detail):
            E.oblige('%s::C10.%s' % (prefix, n), cond, kind='post', detail=detail)
        m = E.heap[env.locals['__g_map'].addr]
        ent = dict((k.v, v) for k, v in m.entries if isinstance(k, VC))
        val = env.locals['value']
        ob('writes_documented_name', bool(outcome == 'normal' and ent.get(name) is val), 'the variable is stored under its documented name')
        ob('writes_prefix_alias', bool(outcome == 'normal' and ent.get(alias) is val), 'and under %s with the same value' % alias)
        ob('writes_nothing_else', bool(len(m.entries) == 2), 'nothing else is written')
    return hook


AWP_KEYS = []
for _n in ('item', 'key', 'index', 'number', 'letter', 'Letter', 'roman', 'Roman', 'even', 'odd', 'start', 'end', 'length',
           'step-size', 'query'):
    contract(AWP + '.__setitem__', variant=_n, params=dict(self=NoneV(), name=Const('sequence-' + _n), value=Opaque()),
             pre_hook=_awp_state(_n), exit_hook=_awp_exit('sequence-' + _n, 'p_' + _n.replace('-', '_')))
    AWP_KEYS.append(AWP + '.__setitem__#' + _n)
for _n in ('previous-sequence', 'next-sequence', 'mapping'):
    contract(AWP + '.__setitem__', variant=_n, params=dict(self=NoneV(), name=Const(_n), value=Opaque()),
             pre_hook=_awp_state(_n), exit_hook=_awp_exit(_n, 'p_' + _n))
    AWP_KEYS.append(AWP + '.__setitem__#' + _n)
