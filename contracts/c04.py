"""C04: tainted (untrusted) values are always HTML-escaped when inserted.

A tainted value is the library wrapper object of pyvc/tainted.py around a symbolic raw string.  Contract TP for every
value modifier and special format (read from the module tables on every run): given a tainted value the result is
either still a TaintedString, or a string in which no '<' can stem from the raw value ("safe", decided on the z3
term: escape(..) terms, constants, digits, library-quoted text, anything the path condition proves free of '<').
Var.render: the text returned for a tainted value is safe, whatever options are present."""
import z3
from pyvc.contracts import *  # noqa
from pyvc.values import *  # noqa
from pyvc import tainted as T
from contracts.core import M
from contracts.dt_var import _render_state, VAR, HAS, DV

GI = M + '.TemplateDict.__getitem__'
LT = z3.StringVal('<')


def _is_escape_chain(t):
    """html_escape_term(x): replace_all(replace_all(...(x, '&', '&amp;'), '<', '&lt;') ...)"""
    pairs = [('&', '&amp;'), ('<', '&lt;'), ('>', '&gt;'), ('"', '&quot;'), ("'", '&#x27;')]
    cur = t
    for a, b in reversed(pairs):
        if not (z3.is_app(cur) and cur.decl().kind() == z3.Z3_OP_SEQ_REPLACE_ALL and cur.num_args() == 3
                and z3.is_string_value(cur.arg(1)) and cur.arg(1).as_string() == a
                and z3.is_string_value(cur.arg(2)) and cur.arg(2).as_string() == b):
            return False
        cur = cur.arg(0)
    return True


SAFE_FUNCS = {'urllib.quote', 'urllib.quote_plus'}     # library fact (assumed): '<' is always percent-encoded


def _escape_depth(t):
    """maximal nesting of escape(...) chains in a term"""
    if not z3.is_app(t):
        return 0
    if _is_escape_chain(t):
        cur = t
        for _ in range(5):
            cur = cur.arg(0)
        return 1 + _escape_depth(cur)
    return max([_escape_depth(c) for c in t.children()] or [0])


def _structurally_safe(E, t):
    if z3.is_string_value(t):
        return True
    if _is_escape_chain(t):
        return True
    if z3.is_app(t):
        k = t.decl().kind()
        if k == z3.Z3_OP_SEQ_CONCAT:
            return all(safe_term(E, c) for c in t.children())
        if k == z3.Z3_OP_SEQ_REPLACE_ALL or k == z3.Z3_OP_SEQ_REPLACE:
            return safe_term(E, t.arg(0)) and z3.is_string_value(t.arg(1)) and z3.is_string_value(t.arg(2))
        if k == z3.Z3_OP_ITE:
            return safe_term(E, t.arg(1)) and safe_term(E, t.arg(2))
        if k == z3.Z3_OP_SEQ_EXTRACT or k == z3.Z3_OP_SEQ_AT:
            return safe_term(E, t.arg(0))      # a substring never creates a '<'
        if k == z3.Z3_OP_INT_TO_STR:
            return True
        if k == z3.Z3_OP_UNINTERPRETED and t.decl().name() in SAFE_FUNCS:
            return True
        if k == z3.Z3_OP_UNINTERPRETED and t.decl().name() in ('str_lower', 'str_upper', 'str_capitalize') and t.num_args() == 1:
            return safe_term(E, t.arg(0))      # case mapping does not create '<'
    return False


def safe_term(E, t, depth=0):
    """no '<' in t can stem from an unescaped raw value"""
    if _structurally_safe(E, t):
        return True
    goal = z3.simplify(z3.Not(z3.Contains(t, LT)))
    gs = goal.sexpr()
    if any(f.sexpr() == gs for f in E.pc):
        return True         # literally on the path condition (e.g. the "no longer tainted" branch of a slice / replace)
    try:
        return E.valid(z3.Not(z3.Contains(t, LT)))
    except Exception:
        return False


def tp_ok(E, value):
    """tainted, or safe text, or a non-string value (numbers, None: no text of the value at all)"""
    if T.is_tainted(E, value):
        return True
    if isinstance(value, VC):
        return not isinstance(value.v, str) or True       # constants come from the template, not from the value
    if isinstance(value, VS):
        return safe_term(E, value.t)
    if isinstance(value, (VI, VB, VR)):
        return True
    return False


def _tainted_state(argname):
    def hook(E, env):
        rawv = VS(z3.String('raw'))
        E.assume(z3.Contains(rawv.t, LT))          # that is what makes a request value tainted
        env.locals[argname] = T.make(E, rawv)
    return hook


def _tp_exit(fname):
    def hook(E, outcome, value, env, prefix):
        if outcome != 'normal':
            # a function that rejects the value inserts nothing
            E.oblige('%s::C04.taint_preserved_or_escaped' % prefix, True, kind='post', detail='%s rejects the tainted value (raises)' % fname)
            return
        E.oblige('%s::C04.taint_preserved_or_escaped' % prefix, bool(tp_ok(E, value)), kind='post',
                 detail="%s of a tainted value is still tainted, or contains no '<' stemming from the raw value" % fname)
    return hook


def _tables(E):
    mod = E.load_module('DocumentTemplate.DT_Var')
    mods = mod.globals.get('modifiers')
    sf = mod.globals.get('special_formats')
    out = []
    for it in E.heap[mods.addr].items:
        out.append(('modifier', it.items[0].v, it.items[1]))
    for k, v in E.heap[sf.addr].entries:
        out.append(('format', k.v, v))
    return out


TP = []


def _build():
    from pyvc.engine import Engine
    E = Engine(REGISTRY)
    seen = set()
    for kind, nm, fn in _tables(E):
        if not isinstance(fn, VFn) or fn.qual in seen:
            continue
        seen.add(fn.qual)
        if nm in ('restructured-text',):
            continue        # renders through docutils: outside the engine (listed as not decided)
        first = fn.node.args.args[0].arg
        params = {first: NoneV()}
        for a in fn.node.args.args[1:]:
            params[a.arg] = Default()
        inv = {}
        if fn.qual.endswith('.thousands_commas'):
            inv = {1: dict(header='mo is not None', inv=dict(t='True'), types={'v': 'str', 'l_': 'int', 'mo': 'opaque'})}
        contract(fn.qual, variant='C04', params=params, pre_hook=_tainted_state(first), exit_hook=_tp_exit(fn.qual.rsplit('.', 1)[1]),
                 uses=['DocumentTemplate.ustr.ustr#bytes_or_str'], invariants=inv)
        TP.append(fn.qual + '#C04')


_build()


# ------------------------------------------------------------------ Var.render with a tainted value
def _gi_tainted(E, loc):
    rawv = VS(z3.String('raw'))
    E.assume(z3.Contains(rawv.t, LT))
    return T.make(E, rawv)


contract(GI, variant='tainted', params=dict(self=TD(), name=Opaque()), raises_any=True, returns=Opaque(), call_hook=_gi_tainted,
         ensures=dict(stack="stack_unchanged(self)", level="level_of(self) == old(level_of(self))"))


def _tp_modifier_call(E, fn, args):
    """abstract modifier obeying TP (each concrete one is verified against TP separately)"""
    v = args[0]
    if T.is_tainted(E, v):
        if E.decide(2, 'modifier keeps taint') == 0:
            return T.make(E, VS(z3.String(E.fresh('raw'))))
        s = z3.String(E.fresh('clean'))
        E.assume(z3.Not(z3.Contains(s, LT)))
        return VS(s)
    s = z3.String(E.fresh('text'))
    if isinstance(v, VS) and safe_term(E, v.t):
        E.assume(z3.Not(z3.Contains(s, LT)))
    return VS(s)


def _render_exit(E, outcome, value, env, prefix):
    if outcome != 'normal':
        return
    if isinstance(value, VC):
        return      # null= / missing= text of the template author
    E.oblige('%s::C04.inserted_text_is_escaped' % prefix, bool(not T.is_tainted(E, value) and tp_ok(E, value)), kind='post',
             detail="the text inserted for a tainted value contains no '<' stemming from the raw value (it went through quoted() "
                    "exactly at the end, or through an escaping / sanitising stage)")
    q = [t for t in E.trace if t[0] == 'quoted']
    depth = _escape_depth(value.t) if isinstance(value, VS) else 0
    E.oblige('%s::C04.escaped_at_most_once' % prefix, bool(len(q) <= 1 and depth <= 1), kind='post',
             detail='escaping is applied once, not twice (quoted() calls: %d, nesting depth of escape(...) in the result: %d)' % (len(q), depth))


RENDER = []
for _tag, _args, _nm, _cf in (('plain', {'': 'x'}, 0, 's'), ('mods2', {'': 'x'}, 2, 's'), ('size', {'': 'x', 'size': VI(z3.Int('size')), 'etc': '...'}, 1, 's'),
                              ('null', {'': 'x', 'null': 'NULL'}, 1, 's'), ('cformat', {'': 'x'}, 1, '10s'),
                              ('fmt.percent', {'': 'x', 'fmt': '%s!'}, 0, 's'), ('fmt.html-quote', {'': 'x', 'fmt': 'html-quote'}, 0, 's'),
                              ('fmt.empty', {'': 'x', 'fmt': ''}, 0, 's'),
                              ('fmt.method.casefold', {'': 'x', 'fmt': 'casefold'}, 0, 's'), ('fmt.method.__str__', {'': 'x', 'fmt': '__str__'}, 0, 's'),
                              ('fmt.method.lower', {'': 'x', 'fmt': 'lower'}, 1, 's')):
    def _pre(E, env, _a=_args, _n=_nm, _c=_cf, _t=_tag):
        _render_state(_a, _n, fmt=_c, str_mods=_tp_modifier_call)(E, env)
        if _t.startswith('fmt.method'):
            # method formats: the guard-less namespace (with a guard the method is fetched by an opaque callable; that
            # the fetch goes through the guard is C05)
            dct = E.heap[E.heap[env.locals['md'].addr].fields['_dict'].addr]
            for e in dct.entries:
                if e[0].v == 'guarded_getattr':
                    e[1] = NONE
    contract(VAR + '.render', variant='C04.' + _tag, params=dict(self=NoneV(), md=TD()),
             pre_hook=_pre, exit_hook=_render_exit,
             uses=[GI + '#tainted', HAS, 'DocumentTemplate.ustr.ustr#bytes_or_str'])
    RENDER.append(VAR + '.render#C04.' + _tag)


# ------------------------------------------------------------------ composition of concrete modifiers (table order)
def _real_mods_state(names):
    def hook(E, env):
        _render_state({'': 'x'}, 0)(E, env)
        me = E.heap[env.locals['self'].addr]
        me.fields['modifiers'] = VT([E.lookup_qual(DV + '.' + n) for n in names])
    return hook


COMPOSE = []
for _names in (('url_quote', 'url_unquote'), ('url_quote_plus', 'url_unquote_plus'), ('newline_to_br', 'upper'), ('lower', 'spacify')):
    _tag = 'C04.compose.' + '.'.join(_names)
    contract(VAR + '.render', variant=_tag, params=dict(self=NoneV(), md=TD()),
             pre_hook=_real_mods_state(_names), exit_hook=_render_exit,
             uses=[GI + '#tainted', HAS, 'DocumentTemplate.ustr.ustr#bytes_or_str'],
             invariants={})
    COMPOSE.append(VAR + '.render#' + _tag)


def _fmt_mod_state(fmt, names):
    def hook(E, env):
        _render_state({'': 'x', 'fmt': fmt}, 0)(E, env)
        me = E.heap[env.locals['self'].addr]
        me.fields['modifiers'] = VT([E.lookup_qual('DocumentTemplate.html_quote.html_quote' if n == 'html_quote' else DV + '.' + n) for n in names])
        dct = E.heap[E.heap[env.locals['md'].addr].fields['_dict'].addr]
        for e in dct.entries:
            if e[0].v == 'guarded_getattr':
                e[1] = NONE
    return hook


contract(VAR + '.render', variant='C04.fmt.multi-line.html_quote', params=dict(self=NoneV(), md=TD()),
         pre_hook=_fmt_mod_state('multi-line', ['html_quote']), exit_hook=_render_exit,
         uses=[GI + '#tainted', HAS, 'DocumentTemplate.ustr.ustr#bytes_or_str'])
COMPOSE.append(VAR + '.render#C04.fmt.multi-line.html_quote')

# fmt=html-quote followed by a modifier (round-5 seed C04-5): the deprecated format leaves a tainted value tainted, so the
# modifiers after it still see the mark -- html_quote escapes once (not twice), url_unquote re-marks what it decodes
for _names in (('html_quote',), ('url_unquote',), ('url_unquote_plus',)):
    _tag = 'C04.fmt.html-quote.' + '.'.join(_names)
    contract(VAR + '.render', variant=_tag, params=dict(self=NoneV(), md=TD()),
             pre_hook=_fmt_mod_state('html-quote', list(_names)), exit_hook=_render_exit,
             uses=[GI + '#tainted', HAS, 'DocumentTemplate.ustr.ustr#bytes_or_str'])
    COMPOSE.append(VAR + '.render#' + _tag)
