"""Parser contracts (C01 tiling, C06 exception closure / termination / location, C07 syntax equivalence)."""
import z3
from pyvc.contracts import *  # noqa
from pyvc.values import *  # noqa
from pyvc import spec as _spec

RC = 'DocumentTemplate.DT_HTML.dtml_re_class'
ST = 'DocumentTemplate.DT_String.String'
HT = 'DocumentTemplate.DT_HTML.HTML'


def _ob(E, prefix, tag):
    return lambda n, c, d: E.oblige('%s::%s.%s' % (prefix, tag, n), c, kind='post', detail=d)


# ------------------------------------------------------------------ the HTML tag scanner: contract M
def _search_exit(E, outcome, value, env, prefix):
    ob6 = _ob(E, prefix, 'C06')
    ob1 = _ob(E, prefix, 'C01')
    text = z3.String('text')
    start = z3.Int('start')
    if outcome != 'normal':
        ob6('scanner_raises_nothing', False, 'the tag scanner raised %s (any text, any start offset)' % value.cls)
        return
    if isinstance(value, VC) and value.v is None:
        return
    me = E.heap[env.locals['self'].addr]
    s = me.fields.get('_start')
    tag = me.fields.get(0)
    ok = s is not None and tag is not None and E.is_intlike(s) and E.is_strlike(tag)
    ob1('match_is_located', bool(ok), 'a match records where it starts and what it covers')
    if not ok:
        return
    sz, tz = E.as_z3_int(s), E.as_z3_str(tag)
    ob1('match_not_before_the_search_position', sz >= start, 'the scanner never claims text before the position it was asked to search from')
    ob1('match_is_the_text_at_its_position', tz == z3.SubString(text, sz, z3.Length(tz)), 'group(0) is exactly the source text at the match position')
    ob1('match_is_not_empty_and_inside_the_text', z3.And(z3.Length(tz) >= 1, sz + z3.Length(tz) <= z3.Length(text)),
        'a tag is at least one character long and lies inside the text (the parser always advances)')
    opener = z3.Or(*[z3.SubString(text, sz, len(p)) == z3.StringVal(p) for p in ('<!--#', '<dtml-', '</dtml-', '&dtml-', '&dtml.')])
    ob1('match_starts_with_a_tag_opener', opener, 'only text starting with <!--#, <dtml-, </dtml-, &dtml- or &dtml. is ever claimed as a tag')
    # C07: what the entity forms stand for
    ob7 = _ob(E, prefix, 'C07')
    name, args, end = me.fields.get('name'), me.fields.get('args'), me.fields.get('end')
    if name is not None and args is not None and E.is_strlike(args):
        az = E.as_z3_str(args)
        L = z3.Length(tz)
        inner = z3.SubString(tz, 6, L - 7)            # between '&dtml-' / '&dtml.' and ';'
        is_ent = E.valid(z3.SubString(tz, 0, 5) == z3.StringVal('&dtml'))
        if is_ent:
            simple = E.valid(z3.SubString(tz, 5, 1) == z3.StringVal('-'))
            ob7('entity_is_a_var_tag', bool(isinstance(name, VC) and name.v == 'var' and isinstance(end, VC) and end.v == ''),
                'an entity reference compiles as a (non-end) var tag')
            if simple:
                ob7('entity_means_name_html_quote', az == z3.Concat(inner, z3.StringVal(' html_quote')),
                    '&dtml-NAME; has the arguments "NAME html_quote"')
            else:
                from pyvc.strings import replace_all
                dash = z3.IndexOf(inner, z3.StringVal('-'), 0)
                want = z3.Concat(z3.SubString(inner, dash + 1, z3.Length(inner) - dash - 1), z3.StringVal(' '),
                                 replace_all(z3.SubString(inner, 0, dash), z3.StringVal('.'), z3.StringVal(' ')))
                ob7('entity_with_formats_means_name_and_formats', az == want,
                    '&dtml.f1.f2-NAME; has the arguments "NAME f1 f2"')
    # C07: <dtml-...> and </dtml-...> end at a '>' outside double quotes (so quoted '>' may appear in arguments, in open
    # and in closing tags alike)
    cnt = z3.Function('str_count', z3.StringSort(), z3.StringSort(), z3.IntSort())
    for opener_, k in (('<dtml-', 6), ('</dtml-', 7)):
        if E.valid(z3.SubString(text, sz, k) == z3.StringVal(opener_)):
            inner_ = z3.SubString(text, sz + k, z3.Length(tz) - k - 1)
            ob7('dtml_tag_ends_outside_quotes', cnt(inner_, z3.StringVal('"')) % 2 == 0,
                'the text between %s and the closing > contains an even number of double quotes' % opener_)
    # C07: for the two tag syntaxes of HTML the fields are read off the tag text in the same way: the argument text is
    # everything between the tag name and the closer, stripped -- nothing of it is dropped or reinterpreted in one
    # syntax only.  Stated with an existential split point (witness candidates: the integer locals of the scanner, so
    # the clause does not depend on how they are named).
    if name is not None and args is not None and E.is_strlike(args) and E.is_strlike(name) and not E.valid(
            z3.SubString(tz, 0, 5) == z3.StringVal('&dtml')):
        strip = z3.Function('str_strip', z3.StringSort(), z3.StringSort())
        az, nz = E.as_z3_str(args), E.as_z3_str(name)
        L = z3.Length(tz)
        for opener_, k, en_ in (('<!--#', 5, 3), ('<dtml-', 6, 1), ('</dtml-', 7, 1)):
            if not E.valid(z3.SubString(text, sz, k) == z3.StringVal(opener_)):
                continue
            close = sz + L - en_          # position of the closer in the text
            # integer view: args == strip(text[lo:hi]) as the engine's slice provenance records it (no string solving)
            info = E.ghost.get('slice_of', {})

            def stripped_slice(t):
                if z3.is_app(t) and t.decl().name() == 'str_strip' and t.arg(0).get_id() in info:
                    base, lo, hi = info[t.arg(0).get_id()]
                    if base.eq(text):
                        return lo, hi
                return None
            asl, nsl = stripped_slice(az), stripped_slice(nz)
            d1 = ('the args field of a %s...%s tag is the stripped source text from the end of the tag name up to the closer: no '
                  'character before the closer is dropped from the arguments' % (opener_, '-->' if en_ == 3 else '>'))
            d2 = 'the name field is the stripped text of the tag body between the opener (and end marker) and the point where the arguments begin'
            if asl is None or nsl is None:
                ob7('arguments_are_the_rest_of_the_tag_body', False, d1 + ' (the fields are not computed as stripped slices of the source text)')
                continue
            ob7('arguments_are_the_rest_of_the_tag_body', z3.And(asl[0] >= sz + k, z3.Or(asl[1] == close, asl[0] >= close)), d1)
            ob7('name_is_the_text_before_the_arguments', z3.And(nsl[0] >= sz + k, z3.Or(nsl[1] == asl[0], z3.And(asl[0] >= close, nsl[1] >= close))), d2)
    closer = z3.Or(*[z3.SuffixOf(z3.StringVal(p), tz) for p in ('-->', '>', ';')])
    ob1('match_ends_with_a_tag_closer', closer, 'and it ends with -->, > or ;')


_T = {'mo': 'opaque', 's': 'int', 'n': 'int', 'e': 'int', 'en': 'int', 'end': 'str', 'l_': 'int', 'args': 'str', 'nn': 'int', 'd': 'opaque'}
LOOPS = {
    1: dict(header='1', inv=dict(pos='0 <= start and start <= strlen(text)', entry='start >= s0'), ghost={'s0': 'start'}, ghost_types={'s0': 'same'},
            decreases='strlen(text) - start', types=_T,
            # the matcher object is reused for every search of a parse: whatever an earlier search left in it is unknown here
            havoc_fields=[('self', f, None) for f in (0, 1, 2, 3, 'end', 'name', 'args', '_start')]),
    2: dict(header='1', inv=dict(pos='n <= e and e <= strlen(text) and (n == s + 6 or n == s + 7) and s >= start and s >= 0 and start >= s0'), decreases='strlen(text) - e', types=_T),
    3: dict(header='1', inv=dict(pos='n <= e and e <= strlen(text) and (n == s + 6 or n == s + 7) and s >= start and s >= 0 and start >= s0'), decreases='strlen(text) - e', types=_T),
}
contract(RC + '.search', variant='M',
         params=dict(self=Obj(RC, lazy=False, prov='fresh'), text=Str(), start=Int(), name_match=Default(), end_match=Default(),
                     start_search=Default(), ent_name=Default()),
         requires=['0 <= start', 'start <= strlen(text)'],
         exit_hook=_search_exit, invariants=LOOPS)


# ------------------------------------------------------------------ the compiler proper: String.parse / parse_block / parse_close / skip_eol
from pyvc.builtins_ import ABSTRACT_TAG_MATCHER  # noqa
PT = ST + '._parseTag'
PB = ST + '.parse_block'
PC = ST + '.parse_close'
PA = ST + '.parse'
SK = ST + '.skip_eol'
PE = ST + '.parse_error'


def _ctor_proto(E, fn, args):
    """a tag constructor: returns some tag object or raises ParseError (each concrete constructor: see C06 constructor obligations)"""
    if E.decide(2, 'constructor rejects') == 1:
        from pyvc.engine import PyRaise
        raise PyRaise(VExc('ParseError', [VC('message'), VC('tag')]))
    return E.fresh_opaque('tagobject')


def _parsetag_hook(E, loc):
    """_parseTag as seen by the compiler: the tag text is group(0) of the match; the command is a simple command, a block
    command, or None (end / continuation tag, then coname may name the continuation)"""
    mo = loc['match_ob']
    tag = E.heap[mo.addr].fields['groups'][0]
    outer = loc.get('command')
    toplevel = isinstance(outer, VC) and outer.v is None
    # without an enclosing block command a tag is never an end or continuation tag (proved for both parseTag
    # implementations: clause C06.parseTag.no_command_means_open_tag)
    kind = E.decide(2 if toplevel else 4, '_parseTag kind')
    args = VS(z3.String(E.fresh('tagargs')))
    if kind == 0:
        cmd = VO(E.fresh('simple_command'), _ctor_proto)
        E.ghost[('hasattr', cmd.name, 'blockContinuations')] = False
        return VT([tag, args, cmd, NONE])
    if kind == 1:
        cmd = VO(E.fresh('block_command'), _ctor_proto)
        E.ghost[('hasattr', cmd.name, 'blockContinuations')] = True
        E.assume(E.truth_term(cmd) if not isinstance(E.truth_term(cmd), bool) else z3.BoolVal(True))
        return VT([tag, args, cmd, NONE])
    if kind == 2:
        return VT([tag, args, NONE, NONE])                      # end tag
    co = VS(z3.String(E.fresh('coname')))
    E.assume(z3.Length(co.t) > 0)
    return VT([tag, args, NONE, co])                            # continuation tag


def _parsetag_exc(E, loc, exc):
    """a ParseError of _parseTag names the tag it was given: args == (message, group(0) of the match)
    (proved for both parseTag implementations: clause C06.parseTag.error_names_the_tag_it_was_given)"""
    mo = loc.get('match_ob')
    if isinstance(mo, VRef) and 'groups' in E.heap[mo.addr].fields and len(exc.args) == 2:
        exc.args[1] = E.heap[mo.addr].fields['groups'][0]


def _located_errors(E, prefix):
    """C06: every located error names a tag together with the position where that tag starts -- at each call of
    parse_error(mess, tag, text, start) made on this path, text[start : start + len(tag)] == tag"""
    for t in E.trace:
        if t[0] == 'contract-call' and t[1] == PE:
            a = t[2]
            try:
                tag, text, start = E.as_z3_str(a['tag']), E.as_z3_str(a['text']), E.as_z3_int(a['start'])
                cond = z3.And(start >= 0, z3.SubString(text, start, z3.Length(tag)) == tag)
            except Exception:  # noqa  (an argument that is not a string / an integer)
                cond = False
            E.oblige('%s::C06.error_location_is_where_the_named_tag_starts' % prefix, cond, kind='post',
                     detail='parse_error(message, tag, text, position): the position handed over (from which the reported line is '
                            'counted) is where the tag named in the message starts: text[position : position + len(tag)] == tag')


contract(PT, params=dict(self=Opaque(), match_ob=Opaque(), command=Opaque(), sargs=Opaque(), tt=Default()),
         raises=['ParseError'], returns=Opaque(), call_hook=_parsetag_hook, exc_hook=_parsetag_exc,
         exc_ensures=dict(two_args="True"))
contract(PE, params=dict(self=Opaque(), mess=Opaque(), tag=Opaque(), text=Opaque(), start=Opaque()), raises=['ParseError'], returns=NoneV(), noreturn=True)
contract(SK, params=dict(self=Opaque(), text=Str(), start=Int(), eol=Default()),
         ensures=dict(range="result >= start and result <= strlen(text)"), returns=Int())


def _pb_effect(E, loc, outcome):
    if outcome == 'normal':
        r = loc['result']
        item = E.fresh_opaque('block_item')
        E.heap[r.addr].items.append(item)
        E.trace.append(('list_append', r.addr, repr(item), item))


contract(PB, params=dict(self=Opaque(), text=Str(), start=Int(), result=ListS(), tagre=Opaque(), stag=Str(), sloc=Int(), sargs=Opaque(), scommand=Opaque()),
         requires=['start == sloc + strlen(stag)', 'sloc >= 0', 'start <= strlen(text)', 'text[sloc:sloc + strlen(stag)] == stag'],
         ensures=dict(range="result >= start and result <= strlen(text)"), raises=['ParseError'], returns=Int(), effects=_pb_effect)
contract(PC, params=dict(self=Opaque(), text=Str(), start=Int(), tagre=Opaque(), stag=Str(), sloc=Int(), scommand=Opaque(), sa=Opaque()),
         requires=['sloc >= 0', 'text[sloc:sloc + strlen(stag)] == stag'],
         ensures=dict(range="result >= start and result <= strlen(text)"), raises=['ParseError'], returns=Int())


def _parse_state(E, env):
    env.locals['tagre'] = VRe(ABSTRACT_TAG_MATCHER, 0)
    env.locals['__g_r0'] = VI(z3.Int('len_L0_result'))


def _lits(E, apps):
    return [a for a in apps if E.is_strlike(a[3])]


def _parse_iter(E, env, trace, fq, ordn):
    ob = lambda n, c, d: E.oblige('%s::C01.parse.%s' % (fq, n), c, kind='trace', detail=d)  # noqa
    g = E.ghost_env(env)
    hs, hl, ht = E.as_z3_int(g['h_start']), E.as_z3_int(g['h_l']), E.as_z3_int(g['h_tl'])
    text = E.as_z3_str(env.locals['text'])
    res = env.locals['result']
    apps = [t for t in trace if t[0] == 'list_append' and t[1] == res.addr]
    lits = _lits(E, apps)
    others = [a for a in apps if not E.is_strlike(a[3])]
    ob('at_most_one_literal_per_tag', bool(len(lits) <= 1 and (not lits or apps[0] is lits[0])), 'before each tag at most one piece of literal text is emitted, and it comes first')
    if lits:
        ob('literal_is_exactly_the_text_before_the_tag', E.as_z3_str(lits[0][3]) == z3.SubString(text, hs, hl - hs),
           'the literal emitted is text[previous position : start of the tag], unaltered')
    else:
        ob('no_literal_only_when_nothing_precedes_the_tag', hl == hs, 'no literal is emitted only when the tag starts right at the previous position')
    ob('one_compiled_item_per_tag', bool(len(others) == 1), 'each tag contributes exactly one compiled item (after its literal)')
    new = E.as_z3_int(env.locals['start'])
    blocks = [t for t in trace if t[0] == 'contract-call' and t[1] == PB]
    if blocks:
        ob('block_parsed_from_just_after_its_open_tag', bool(len(blocks) == 1) and E.valid(E.as_z3_int(blocks[0][2]['start']) == hl + ht)
           and E.valid(E.as_z3_int(blocks[0][2]['sloc']) == hl),
           'a block tag hands the text right after the open tag to parse_block')
        ob('resumes_where_the_block_ended', new >= hl + ht, 'parsing resumes where the block parser stopped')
    else:
        ob('resumes_right_after_the_tag', new == hl + ht, 'after a simple tag parsing resumes exactly behind the tag text: nothing is skipped')


def _parse_exit(E, outcome, value, env, prefix):
    ob1 = _ob(E, prefix, 'C01')
    ob6 = _ob(E, prefix, 'C06')
    _located_errors(E, prefix)
    if outcome != 'normal':
        return
    marks = [i for i, t in enumerate(E.trace) if t[0] == 'loop_exit']
    if not marks:
        return
    tail = E.trace[marks[-1]:]
    fin = env.final
    res = fin['result']
    apps = [t for t in tail if t[0] == 'list_append' and t[1] == res.addr]
    text0 = z3.String('text')
    st = E.as_z3_int(fin['start'])
    rest = z3.SubString(text0, st, z3.Length(text0) - st)
    if apps:
        ob1('parse.trailing_text_emitted_verbatim', bool(len(apps) == 1) and E.as_z3_str(apps[0][3]) == rest,
            'the text after the last tag is emitted verbatim, once')
    else:
        ob1('parse.no_trailing_piece_only_at_end_of_text', st >= z3.Length(text0), 'nothing is emitted after the last tag only when the text ends there')
    ob1('parse.returns_the_result_list', bool(value is res), 'the list of pieces is returned')


contract(PA, variant='C01',
         params=dict(self=Obj(ST, lazy=True), text=Str(), start=Int(), result=ListS(), tagre=NoneV()),
         requires=['0 <= start', 'start <= strlen(text)'],
         pre_hook=_parse_state, exit_hook=_parse_exit, raises=['ParseError'],
         uses=[PT, PB, PE],
         invariants={1: dict(header='mo', text_var='text',
                             inv=dict(pos='0 <= start and start <= strlen(text)',
                                      match_ahead='is_none(mo) or (mstart(mo) >= start and mend(mo) <= strlen(text))'),
                             snapshot={'h_start': 'start', 'h_l': 'mstart(mo)', 'h_tl': 'mend(mo) - mstart(mo)'},
                             decreases='strlen(text) - start',
                             havoc_heap=['result'],
                             types={'mo': 'tagmatch?', 'l_': 'int', 'tag': 'str', 'args': 'opaque', 'command': 'opaque', 'coname': 'opaque',
                                    's': 'str', 'r': 'opaque', 'start': 'int', 'm': 'opaque'},
                             on_iteration=_parse_iter)})


# ------------------------------------------------------------------ skip_eol
def _skip_exit(E, outcome, value, env, prefix):
    ob = _ob(E, prefix, 'C01')
    from pyvc.builtins_ import regex_to_z3
    text, start = z3.String('text'), z3.Int('start')
    if outcome != 'normal':
        ob('skip_eol.total', False, 'skip_eol raised %s' % value.cls)
        return
    r = E.as_z3_int(value)
    spec = regex_to_z3('[ \t]*\n')
    ob('skip_eol.skips_only_blanks_up_to_one_newline', z3.Or(r == start, z3.And(r > start, r <= z3.Length(text),
                                                                           z3.InRe(z3.SubString(text, start, r - start), spec))),
       'the only characters skipped are one run of blanks (space, tab) ending in a newline, directly at the given position')
    eol = env.locals['eol']
    rz = regex_to_z3(eol.pattern, eol.flags) if isinstance(eol, VRe) else None
    w = z3.String('w')
    if rz is None:
        ob('skip_eol.pattern_is_blanks_newline', False, 'the line-end pattern is not a plain regular expression')
    else:
        from pyvc import smt
        v, m, be = smt.check([z3.InRe(w, rz), z3.Not(z3.InRe(w, spec))], want_model=True)
        ob('skip_eol.pattern_is_blanks_newline', bool(v == 'unsat'),
           'the language of the line-end pattern %r is contained in [ \\t]*\\n (regular-expression inclusion%s)'
           % (eol.pattern, '' if v == 'unsat' else '; counterexample %s' % (m[w] if v == 'sat' and hasattr(m, '__getitem__') else v)))


contract(SK, variant='C01', params=dict(self=Opaque(), text=Str(), start=Int(), eol=Default()),
         requires=['0 <= start', 'start <= strlen(text)'], exit_hook=_skip_exit)


# ------------------------------------------------------------------ parse_error: names the tag and the 1-based line of the tag start
def _pe_exit(E, outcome, value, env, prefix):
    ob = _ob(E, prefix, 'C06')
    ok = outcome == 'raise' and value.cls == 'ParseError' and not value.sym and len(value.args) == 1
    ob('parse_error.raises_parse_error', bool(ok), 'parse_error always raises ParseError with one formatted message')
    if not ok:
        return
    msg = E.as_z3_str(value.args[0])
    text, start = z3.String('text'), z3.Int('start')
    cnt = z3.Function('str_count', z3.StringSort(), z3.StringSort(), z3.IntSort())
    line = cnt(z3.SubString(text, 0, start), z3.StringVal('\n')) + 1
    want = z3.Concat(z3.String('mess'), z3.StringVal(', for tag '), z3.String('tag'), z3.StringVal(', on line '), z3.IntToStr(line),
                     z3.StringVal(' of '), z3.String('tmplname'))
    ob('parse_error.message_names_tag_and_line', msg == want,
       'the message is "<reason>, for tag <tag text>, on line <1 + number of newlines before the tag start> of <template name>"')


contract(PE, variant='C06', params=dict(self=Obj(ST, lazy=False, fields={'__name__': Str()}), mess=Str(), tag=Str(), text=Str(), start=Int()),
         requires=['0 <= start', 'start <= strlen(text)'], exit_hook=_pe_exit,
         pre_hook=lambda E, env: E.heap[env.locals['self'].addr].fields.__setitem__('__name__', VS(z3.String('tmplname'))))


# ------------------------------------------------------------------ parse_block / parse_close
contract(PA, params=dict(self=Opaque(), text=Str(), start=Int(), result=Opaque(), tagre=Opaque()), raises=['ParseError'], returns=ListS())
contract(ST + '.SubTemplate', params=dict(self=Opaque(), name=Opaque()), returns=Obj(ST, lazy=True, prov='fresh'))


def _pb_state(E, env):
    env.locals['tagre'] = VRe(ABSTRACT_TAG_MATCHER, 0)
    cmd = VO('scommand', _ctor_proto)
    E.assume(E.truth_term(cmd))
    env.locals['scommand'] = cmd


def _sk_calls(trace):
    out = []
    for t in trace:
        if t[0] == 'contract-call' and t[1] == SK:
            out.append(dict(start=t[2]['start'], text=t[2]['text'], ret=None))
        elif t[0] == 'contract-ret' and t[1] == SK and out:
            out[-1]['ret'] = t[2]
    return out


def _pb_iter(E, env, trace, fq, ordn):
    """a completed iteration: a nested tag was skipped, or a continuation tag closed one section"""
    ob = lambda n, c, d: E.oblige('%s::C01.block.%s' % (fq, n), c, kind='trace', detail=d)  # noqa
    # C06 (work bound): an iteration of the end-tag search never compiles a nested block (no direct parse_block call):
    # nested blocks are stepped over by parse_close and compiled once, later, by parse() of the section
    E.oblige('%s::C06.block.nested_blocks_are_skipped_not_compiled' % fq,
             bool(not [t for t in trace if t[0] == 'contract-call' and t[1] == PB]), kind='trace',
             detail='parse_block does not call parse_block directly while it searches its end tag (that would compile every nested '
                    'block once per enclosing level: work exponential in the nesting depth)')
    g = E.ghost_env(env)
    # C06 / C07 (grammar of continuation tags): whether ``<dtml-else name>`` continues the block or opens the deprecated
    # stand-alone else is decided against the arguments of the block's START tag, for every tag met while the block is open
    pts = [t for t in trace if t[0] == 'contract-call' and t[1] == PT]
    E.oblige('%s::C06.block.tags_are_classified_against_the_start_tags_arguments' % fq,
             bool(all(t[2].get('sargs') is g.get('sa0') for t in pts)), kind='trace',
             detail='every _parseTag call made while looking for the end of a block is given the arguments of the block\'s start tag '
                    '(not those of the continuation tag seen last)')
    hss = E.as_z3_int(g['h_sstart'])
    hl, ht = E.as_z3_int(env.locals['l_']), z3.Length(E.as_z3_str(env.locals['tag']))
    text = E.as_z3_str(env.locals['text'])
    parses = [t for t in trace if t[0] == 'contract-call' and t[1] == PA]
    closes = [t for t in trace if t[0] == 'contract-call' and t[1] == PC]
    sks = _sk_calls(trace)
    new = E.as_z3_int(env.locals['start'])
    if parses:
        p = parses[0][2]
        ob('section_is_the_text_between_its_tags', bool(len(parses) == 1) and z3.And(E.as_z3_str(p['text']) == z3.SubString(text, 0, hl),
                                                                                     E.as_z3_int(p['start']) == hss),
           'a section is compiled from text[section start : start of the tag that ends it] (passed as text[:l], start)')
        ob('line_end_skipped_only_after_the_continuation_tag', bool(len(sks) == 1) and E.valid(E.as_z3_int(sks[0]['start']) == hl + ht)
           and E.valid(E.as_z3_int(env.locals['sstart']) == E.as_z3_int(sks[0]['ret'])) and E.valid(new == E.as_z3_int(sks[0]['ret'])),
           'the next section starts at skip_eol(position right after the continuation tag)')
    else:
        ob('no_line_end_skipped_after_a_nested_tag', bool(not sks), 'skip_eol is applied only after the open, continuation and close tag of this block')
        if closes:
            ob('nested_block_skipped_as_a_whole', bool(len(closes) == 1) and E.valid(E.as_z3_int(closes[0][2]['start']) == hl + ht),
               'a nested block is skipped from right after its open tag to its matching end tag')
        else:
            ob('nested_simple_tag_skipped', new == hl + ht, 'a nested simple tag is skipped exactly')
        ob('section_start_kept', E.as_z3_int(env.locals['sstart']) == hss, 'skipping nested tags does not move the section start')


def _pb_exit(E, outcome, value, env, prefix):
    ob = _ob(E, prefix, 'C01')
    _located_errors(E, prefix)
    if outcome != 'normal' or E.trace_truncated:
        return
    marks = [i for i, t in enumerate(E.trace) if t[0] == 'loop_head']
    if not marks:
        return
    tail = E.trace[marks[-1]:]
    fin = env.final
    res = fin['result']
    apps = [t for t in E.trace if t[0] == 'list_append' and t[1] == res.addr]
    ob('block.appends_exactly_one_item', bool(len(apps) == 1), 'a block contributes exactly one compiled item to the enclosing piece list')
    # C06 (work bound): while looking for its own end tag, parse_block only SKIPS nested blocks (parse_close); it compiles a
    # nested block exactly once, later, through parse() of the section.  A direct parse_block -> parse_block call would
    # compile every nested block once per enclosing level (work exponential in the nesting depth).
    direct = [t for t in tail if t[0] == 'contract-call' and t[1] == PB]
    _ob(E, prefix, 'C06')('block.nested_blocks_are_skipped_not_compiled', bool(not direct),
                          'parse_block does not call parse_block directly: nested blocks are stepped over while the end tag is searched')
    sks = _sk_calls(tail)
    hl, ht = E.as_z3_int(fin['l_']), z3.Length(E.as_z3_str(fin['tag']))
    ob('block.resumes_after_the_end_tag_and_one_line_end', bool(len(sks) == 1) and E.valid(E.as_z3_int(sks[0]['start']) == hl + ht)
       and bool(value is sks[0]['ret']), 'parsing resumes at skip_eol(position right after the end tag)')
    first = _sk_calls(E.trace[:marks[0]])
    ob('block.first_section_starts_after_one_line_end', bool(len(first) == 1) and E.valid(E.as_z3_int(first[0]['start']) == z3.Int('start')),
       'the first section starts at skip_eol(position right after the open tag)')


contract(PB, variant='C01',
         params=dict(self=Obj(ST, lazy=True), text=Str(), start=Int(), result=ListS(), tagre=NoneV(), stag=Str(), sloc=Int(), sargs=Str(), scommand=NoneV()),
         requires=['0 <= sloc', 'start == sloc + strlen(stag)', 'start <= strlen(text)', 'strlen(stag) >= 1', 'text[sloc:sloc + strlen(stag)] == stag'],
         pre_hook=_pb_state, exit_hook=_pb_exit, raises=['ParseError'],
         ensures=dict(range="result >= start and result <= strlen(text)"),
         uses=[PT, PA, PC, PE, SK, ST + '.SubTemplate'],
         invariants={1: dict(header='1', text_var='text',
                             inv=dict(pos='0 <= sstart and sstart <= start and start <= strlen(text) and start >= s0'),
                             ghost={'s0': 'start', 'sa0': 'sargs'}, ghost_types={'s0': 'same', 'sa0': 'same'},
                             snapshot={'h_sstart': 'sstart'},
                             decreases='strlen(text) - start', havoc_heap=['blocks'],
                             types={'mo': 'opaque', 'l_': 'int', 'tag': 'str', 'args': 'opaque', 'command': 'opaque', 'coname': 'opaque',
                                    'start': 'int', 'section': 'opaque', 'tname': 'opaque', 'sname': 'opaque', 'sargs': 'opaque',
                                    'sstart': 'int', 'r': 'opaque', 'm': 'opaque'},
                             on_iteration=_pb_iter)})


def _pc_exit(E, outcome, value, env, prefix):
    ob = _ob(E, prefix, 'C01')
    _located_errors(E, prefix)
    if outcome != 'normal':
        return
    apps = [t for t in E.trace if t[0] in ('list_append',)]
    ob('close.emits_nothing', bool(not apps), 'skipping a nested block emits nothing (its text is compiled later, as part of the enclosing section)')


contract(PC, variant='C01',
         params=dict(self=Obj(ST, lazy=True), text=Str(), start=Int(), tagre=NoneV(), stag=Str(), sloc=Int(), scommand=NoneV(), sa=Opaque()),
         requires=['0 <= sloc', 'sloc <= start', 'start <= strlen(text)', 'text[sloc:sloc + strlen(stag)] == stag'],
         pre_hook=_pb_state, exit_hook=_pc_exit, raises=['ParseError'],
         ensures=dict(range="result >= start and result <= strlen(text)"),
         uses=[PT, PC, PE],
         invariants={1: dict(header='1', text_var='text', inv=dict(pos='s0 <= start and start <= strlen(text)'),
                             ghost={'s0': 'start'}, ghost_types={'s0': 'same'}, decreases='strlen(text) - start',
                             types={'mo': 'opaque', 'l_': 'int', 'tag': 'str', 'args': 'opaque', 'command': 'opaque', 'coname': 'opaque',
                                    'start': 'int', 'm': 'opaque'})})


# ------------------------------------------------------------------ parseTag: String (EPFS) and HTML versions
def _cmd(E, name, conts):
    """an enclosing block command: an object with a name and a tuple of continuation tag names"""
    return E.alloc(HObj(None, {}, name='pyobj:command')), name, conts


def _pt_state(kind, which):
    """kind: 'end' | 'open' | 'var' ; the match object carries symbolic name / args; command: None or a block command"""
    def hook(E, env):
        name, args = VS(z3.String('name')), VS(z3.String('args'))
        tag = VS(z3.String('tag'))
        if which == 'HTML':
            end = VC('/') if kind == 'end' else VC('')
            groups = {0: tag, 'end': end, 'name': name, 'args': args}
        else:
            fmt = VC(']') if kind == 'end' else (VC('[') if kind == 'open' else VC('s'))
            groups = {0: tag, 'name': name, 'args': args, 'fmt': fmt}
        env.locals['match_ob'] = E.alloc(HObj(None, {'g': groups}, name='absmatch'))
        env.locals['sargs'] = VS(z3.String('sargs'))
    return hook


def _absmatch_attr(E, obj, h, name):
    if name == 'group':
        return VBM(VBI('absmatch.group'), obj)
    from pyvc.engine import Unsupported
    raise Unsupported('absmatch.' + name)


def _absmatch_group(E, args, kwargs, node):
    g = E.heap[args[0].addr].fields['g']
    out = [g[a.v] for a in args[1:]]
    return out[0] if len(out) == 1 else VT(out)


from pyvc import builtins_ as _B  # noqa
_B.PSEUDO_OBJ_ATTR['absmatch'] = _absmatch_attr
_B.TABLE['absmatch.group'] = _absmatch_group


def _outcome_sig(E, outcome, value, env):
    """normalised outcome of parseTag for the relational comparison"""
    if outcome == 'raise':
        return ('raise', value.cls, tuple(a.v if isinstance(a, VC) else 'sym' for a in value.args[:1]))
    it = value.items
    cmd = it[2]
    if isinstance(cmd, VC) and cmd.v is None:
        c = 'none'
    elif isinstance(cmd, (VFn, VCls)):
        c = cmd.qual
    else:
        c = 'commands[name]'
    co = it[3]
    co = 'none' if isinstance(co, VC) and co.v is None else ('name' if co is env.locals_name else 'other')
    return ('ret', c, co)


PTV = []
for _which, _qual in (('String', ST), ('HTML', HT)):
    for _kind in ('end', 'open', 'var'):
        if _which == 'HTML' and _kind == 'var':
            continue
        for _cmdkind in ('none', 'block'):
            _tag = 'C07.%s.%s' % (_kind, _cmdkind)

            def _state(E, env, _k=_kind, _w=_which, _c=_cmdkind):
                _pt_state(_k, _w)(E, env)
                if _c == 'none':
                    env.locals['command'] = NONE
                else:
                    cmd = E.alloc(HObj(None, {'name': VS(z3.String('cname')), 'blockContinuations': VT([VC('else')])}, name='pyobj:command'))
                    env.locals['command'] = cmd

            def _exit(E, outcome, value, env, prefix, _k=_kind, _w=_which, _c=_cmdkind):
                ob6 = _ob(E, prefix, 'C06')
                ob7 = _ob(E, prefix, 'C07')
                if outcome == 'raise':
                    ob6('parseTag.raises_only_parse_error_with_message_and_tag',
                        bool(value.cls == 'ParseError' and not value.sym and len(value.args) == 2 and isinstance(value.args[0], VC)
                             and value.args[0].v in ('unexpected end tag', 'Unexpected tag')),
                        'parseTag raises only ParseError(message, tag text): unexpected end tag / Unexpected tag (%s)' % value.cls)
                    g0 = E.heap[env.locals['match_ob'].addr].fields['g'][0]
                    ob6('parseTag.error_names_the_tag_it_was_given',
                        bool(len(value.args) == 2) and (bool(value.args[1] is g0) or (E.is_strlike(value.args[1]) and E.as_z3_str(value.args[1]) == E.as_z3_str(g0))),
                        'the ParseError of parseTag carries the text of the tag it was given: args[1] == group(0)')
                    if _k == 'end':
                        cn = z3.String('cname')
                        ob6('parseTag.end_tag_rejected_iff_no_or_other_open_block', bool(_c == 'none') or z3.String('name') != cn,
                            'an end tag is rejected exactly when there is no open block or it names another tag')
                    return
                it = value.items
                ob7('parseTag.tag_text_is_group0', bool(it[0] is E.heap[env.locals['match_ob'].addr].fields['g'][0]), 'the tag text is group(0)')
                cmd = it[2]
                isnone = isinstance(cmd, VC) and cmd.v is None
                if _c == 'none':
                    ob6('parseTag.no_command_means_open_tag', bool(not isnone),
                        'outside any block a tag is never treated as an end or continuation tag: a command is returned (or ParseError raised)')
                if _k == 'end':
                    ob7('parseTag.end_tag_closes', bool(isnone and isinstance(it[3], VC) and it[3].v is None), 'a matching end tag yields no command and no continuation')
                if _k == 'var':
                    ob7('parseTag.epfs_plain_form_is_a_var_tag', bool(isinstance(cmd, (VCls,)) and cmd.name == 'Var'),
                        '%(name args)s is a var tag')
                    a, n = z3.String('args'), z3.String('name')
                    strip = z3.Function('str_strip', z3.StringSort(), z3.StringSort())
                    got = E.as_z3_str(it[1]) if E.is_strlike(it[1]) else None
                    if got is not None:
                        ob7('parseTag.epfs_var_arguments_are_name_then_args', z3.Or(got == n, got == z3.Concat(n, z3.StringVal(' '), strip(a))),
                            'its arguments are "name" or "name args" (args stripped): the same parameter text as <dtml-var name args>')
            contract(_qual + '.parseTag', variant=_tag, params=dict(self=Obj(_qual, lazy=False), match_ob=NoneV(), command=NoneV(), sargs=NoneV()),
                     pre_hook=_state, exit_hook=_exit)
            PTV.append(_qual + '.parseTag#' + _tag)


def parsetag_equivalence():
    """C07 R2 (relational): for the same (end?, name, args, enclosing command, sargs) the EPFS and the HTML parseTag produce
    the same outcome -- same command, same continuation name, same stripped arguments, or ParseError with the same message.
    Every pair of paths (one of each implementation) with different outcomes must be jointly infeasible."""
    from pyvc.engine import Engine
    from pyvc import contracts as C, smt
    out = []

    def collect(key):
        c = REGISTRY[key]
        paths = []
        saved = c.exit_hook

        def hook(E, outcome, value, env, prefix):
            if outcome == 'raise':
                sig = ('raise', value.cls, value.args[0].v if value.args and isinstance(value.args[0], VC) else '?', None, None)
            else:
                it = value.items
                cmd = it[2]
                cs = 'none' if (isinstance(cmd, VC) and cmd.v is None) else getattr(cmd, 'qual', None) or getattr(cmd, 'name', repr(cmd))
                co = it[3]
                cos = 'none' if (isinstance(co, VC) and co.v is None) else ('name' if (isinstance(co, VS) and co.t.eq(z3.String('name'))) else 'other')
                sig = ('ret', cs, cos, E.as_z3_str(it[1]) if E.is_strlike(it[1]) else None, None)
            paths.append((list(E.pc), sig))
        c.exit_hook = hook
        try:
            E = Engine(REGISTRY)
            res = C.verify(E, c)
        finally:
            c.exit_hook = saved
        return paths, res
    for kind in ('end', 'open'):
        for ck in ('none', 'block'):
            a, ra = collect('%s.parseTag#C07.%s.%s' % (ST, kind, ck))
            b, rb = collect('%s.parseTag#C07.%s.%s' % (HT, kind, ck))
            bad = None
            undecided = bool(ra.unsupported or rb.unsupported or not a or not b)
            for pa, sa in a:
                for pb, sb in b:
                    mism = []
                    if sa[:3] != sb[:3]:
                        mism = [z3.BoolVal(True)]
                    elif sa[0] == 'ret' and sa[3] is not None and sb[3] is not None:
                        mism = [sa[3] != sb[3]]
                    elif sa[0] == 'ret' and (sa[3] is None) != (sb[3] is None):
                        mism = [z3.BoolVal(True)]
                    if not mism:
                        continue
                    v, m, be = smt.check(pa + pb + mism)
                    if v == 'sat':
                        bad = (sa[:3], sb[:3])
                    elif v != 'unsat':
                        undecided = True
            out.append(dict(oid='C07.relational.parseTag.%s.%s' % (kind, ck), kind='relational',
                            status='refuted' if bad else ('undecided' if undecided else 'discharged'), paths=len(a) * len(b),
                            backends=['z3'], ms=0, model=None, havoced=False,
                            detail='String.parseTag and HTML.parseTag agree on every input of shape (%s tag, enclosing command: %s)%s'
                                   % (kind, ck, '' if not bad else ': outcomes %s vs %s are jointly possible' % bad)))
    return out


# ------------------------------------------------------------------ tag constructors on representative tags (C06 exception closure)
def _ctor_exit(expect=None):
    def hook(E, outcome, value, env, prefix):
        ob = _ob(E, prefix, 'C06')
        if outcome == 'raise':
            ok = value.cls == 'ParseError' and not value.sym and len(value.args) == 2
            ob('constructor_rejects_only_with_parse_error', bool(ok),
               'a tag constructor rejects its arguments only with ParseError(message, tag name) (raised: %s)' % value.cls)
        else:
            ob('constructor_rejects_only_with_parse_error', True, 'accepted')
        if expect is not None:
            ob('constructor_verdict', bool((outcome == 'normal') == (expect == 'accept')),
               'these arguments are %sed (grammar: unknown, duplicate, valueless, missing or contradictory name/expr attributes are rejected)' % expect)
    return hook


def _block_state(args):
    def hook(E, env):
        sec = E.alloc(HObj(None, {'blocks': E.alloc(HList([]))}, name='pyobj:section', lazy=True))
        env.locals['blocks'] = E.alloc(HList([VT([VC('let'), VC(args), sec])]))
    return hook


CTORS = []
for _i, _a in enumerate(('x=y', 'x="1+1"', 'x="1+"', 'x', 'x="a" y=b z="c"')):
    contract('DocumentTemplate.DT_Let.Let.__init__', variant='C06.%d' % _i,
             params=dict(self=Obj('DocumentTemplate.DT_Let.Let', lazy=False, prov='fresh'), blocks=NoneV(), encoding=NoneV()),
             pre_hook=_block_state(_a), exit_hook=_ctor_exit())
    CTORS.append('DocumentTemplate.DT_Let.Let.__init__#C06.%d' % _i)
for _i, (_a, _exp) in enumerate((('x', 'accept'), ('x upper lower', 'accept'), ('x bogus', 'reject'), ('x fmt=a fmt=b', 'reject'),
                                 ('name=x expr="y"', 'reject'), ('"1+"', None), ('x size=3 etc="."', 'accept'), ('', 'reject'),
                                 ('expr="x" y', 'reject'), ('x size=1 size=2', 'reject'), ('x null="" null=""', 'reject'),
                                 ('x missing=a missing=b', 'reject'), ('x upper upper', 'reject'), ('x fmt', 'accept'))):
    contract('DocumentTemplate.DT_Var.Var.__init__', variant='C06.%d' % _i,
             params=dict(self=Obj('DocumentTemplate.DT_Var.Var', lazy=False, prov='fresh'), args=Const(_a), fmt=Const('s'), encoding=NoneV()),
             exit_hook=_ctor_exit(_exp))
    CTORS.append('DocumentTemplate.DT_Var.Var.__init__#C06.%d' % _i)


# ------------------------------------------------------------------ C06 structural obligations
COMPILE_MODULES = ['DT_String', 'DT_HTML', 'DT_Util', 'DT_Var', 'DT_If', 'DT_In', 'DT_With', 'DT_Let', 'DT_Try', 'DT_Raise', 'DT_Return']


def _ambiguous_repetition(pattern, flags=0):
    """(X+ optional-stuff)* with X+ able to follow itself: exponentially many ways to split a run of X when the overall match
    fails (catastrophic backtracking).  Sufficient syntactic test; returns a description or None."""
    try:
        import re._parser as sp
        import re._constants as sc
    except ImportError:      # pragma: no cover
        import sre_parse as sp
        import sre_constants as sc

    def walk(items):
        for op, av in items:
            if op in (sc.MAX_REPEAT, sc.MIN_REPEAT):
                lo, hi, sub = av
                if hi == sc.MAXREPEAT:
                    body = list(sub)
                    while len(body) == 1 and body[0][0] == sc.SUBPATTERN:
                        body = list(body[0][1][3])
                    if body and body[0][0] in (sc.MAX_REPEAT, sc.MIN_REPEAT) and body[0][1][1] == sc.MAXREPEAT:
                        rest_optional = all(o in (sc.MAX_REPEAT, sc.MIN_REPEAT) and a[0] == 0 for o, a in body[1:])
                        if rest_optional:
                            return 'an unbounded repetition whose body starts with another unbounded repetition and can end right after it'
                r = walk(sub)
                if r:
                    return r
            elif op == sc.SUBPATTERN:
                r = walk(av[3])
                if r:
                    return r
            elif op == sc.BRANCH:
                for b in av[1]:
                    r = walk(b)
                    if r:
                        return r
        return None
    return walk(sp.parse(pattern, flags))


def c06_structural():
    import ast
    import os
    import re
    from pyvc.engine import REPO_SRC, Engine
    out = []

    def ob(oid, status, detail):
        out.append(dict(oid='C06.structural.' + oid, kind='structural', status=status, paths=1, backends=['ast'], ms=0, model=None,
                        detail=detail, havoced=False))
    bad = []
    n = 0
    for m in COMPILE_MODULES:
        tree = ast.parse(open(os.path.join(REPO_SRC, 'DocumentTemplate', m + '.py')).read())
        located = set()
        for fn_ in [x for x in ast.walk(tree) if isinstance(x, ast.FunctionDef) and x.name == 'parse_error']:
            located |= {id(x) for x in ast.walk(fn_)}      # the final, located error carries one formatted message
        for r in [x for x in ast.walk(tree) if isinstance(x, ast.Raise) and x.exc is not None and id(x) not in located]:
            if isinstance(r.exc, ast.Call) and isinstance(r.exc.func, ast.Name) and r.exc.func.id == 'ParseError':
                n += 1
                if len(r.exc.args) != 2 or r.exc.keywords:
                    bad.append('%s:%d' % (m, r.lineno))
    ob('parse_errors_have_message_and_tag', 'discharged' if (not bad and n >= 20) else 'refuted',
       'every raise ParseError(...) in the compiler modules passes (message, tag): %d sites%s' % (n, '' if not bad else '; offending: %s' % bad))
    E = Engine(REGISTRY)
    tag = E.lookup_qual(ST + '.tagre')
    node = getattr(tag, 'fn', tag).node
    consts = [x.value for x in ast.walk(node) if isinstance(x, ast.Constant) and isinstance(x.value, str) and x.value and x is not getattr(node.body[0], 'value', None)]
    pattern = ''.join(consts)
    try:
        re.compile(pattern)
        why = _ambiguous_repetition(pattern, re.I)
    except re.error:
        why = 'pattern not reconstructed from the source'
    ob('epfs_tag_pattern_has_no_ambiguous_repetition', 'refuted' if why else 'discharged',
       'the %%(...)x tag pattern of String.tagre %s' % ('contains %s: matching time is exponential in the length of an unterminated tag' % why
                                                        if why else 'has no nested unbounded repetition'))
    f = E.lookup_qual(RC + '.search')
    f = getattr(f, 'fn', f)
    names = [a.arg for a in f.node.args.args]
    for arg in ('name_match', 'end_match', 'start_search', 'ent_name'):
        dflt = f.defaults[names.index(arg) - (len(names) - len(f.defaults))]
        pat = dflt.self.pattern if hasattr(dflt, 'self') else None
        w = _ambiguous_repetition(pat) if pat else 'pattern not found'
        ob('scanner_pattern_%s_has_no_ambiguous_repetition' % arg, 'refuted' if w else 'discharged', 'pattern %r: %s' % (pat, w or 'linear'))
    return out


# ------------------------------------------------------------------ String.cook: what gets rendered is THIS template's parse
def _cook_exit(E, outcome, value, env, prefix):
    ob = _ob(E, prefix, 'C01')
    if outcome != 'normal':
        return
    me = E.heap[env.locals['self'].addr]
    calls = [t for t in E.trace if t[0] == 'contract-call' and t[1] == PA]
    rets = [t for t in E.trace if t[0] == 'contract-ret' and t[1] == PA]
    ob('cook.parses_once', bool(len(calls) == 1 and len(rets) == 1), 'cook runs the parser exactly once')
    if len(calls) != 1 or len(rets) != 1:
        return
    args = calls[0][2]
    ob('cook.parses_with_its_own_parser', bool(args.get('self') is env.locals['self'] or (
        isinstance(args.get('self'), VRef) and args['self'].addr == env.locals['self'].addr)),
       'the parser that runs is the one of this template object (its class decides the tag syntax and the command table)')
    txt = args.get('text')
    ok = txt is not None and E.is_strlike(txt)
    ob('cook.parses_its_own_source', (E.as_z3_str(txt) == z3.String('self.raw')) if ok else False,
       'the text parsed is the source of this template (read())')
    st = args.get('start')
    ob('cook.parses_from_the_beginning', (E.as_z3_int(st) == 0) if st is not None and E.is_intlike(st) else False, 'parsing starts at offset 0')
    blocks = me.fields.get('_v_blocks')
    ob('cook.stores_the_result_of_that_parse', bool(blocks is rets[0][2] or (
        isinstance(blocks, VRef) and isinstance(rets[0][2], VRef) and blocks.addr == rets[0][2].addr)),
       'the compiled blocks stored on the template are the list that this parse returned (not a list obtained elsewhere)')


contract(ST + '.cook', variant='C01',
         params=dict(self=Obj(ST, lazy=True, fields={'raw': Str()})),
         exit_hook=_cook_exit, uses=[PA], raises=['ParseError'])


# ------------------------------------------------------------------ C07: what the %(...) syntax accepts as tag arguments
def epfs_arguments():
    """the three syntaxes take the same attribute text: in <dtml-...> and <!--#...--> a double-quoted value may contain any
    character but a double quote (new lines and '>' / ')' included: scanner clauses dtml_tag_ends_outside_quotes).  For the
    %(...) syntax the same is a statement about the language of the ``args`` group of String.tagre, decided as a
    regular-language inclusion on the pattern read from the source: every text of the form (unquoted run, optional "quoted
    value")* is accepted as arguments."""
    import re as _re
    import z3 as _z3
    from pyvc.engine import Engine
    from pyvc.builtins_ import regex_to_z3
    from pyvc import smt
    E = Engine(REGISTRY)
    tag = E.lookup_qual(ST + '.tagre')
    node = getattr(tag, 'fn', tag).node
    consts = [x.value for x in ast.walk(node) if isinstance(x, ast.Constant) and isinstance(x.value, str) and x.value
              and x is not getattr(node.body[0], 'value', None)]
    pattern = ''.join(consts)
    oid = 'C07.epfs.arguments_accept_every_quoted_value'

    def res(status, detail, be='z3'):
        return [dict(oid=oid, kind='structural', status=status, paths=1, backends=[be], ms=0, model=None, detail=detail, havoced=False)]
    i = pattern.find('(?P<args>')
    if i < 0:
        return res('undecided', 'String.tagre has no group named args (pattern %r)' % pattern, 'ast')
    depth, j = 0, i
    while j < len(pattern):
        ch = pattern[j]
        if ch == '\\':
            j += 2
            continue
        if ch == '[':
            k = pattern.find(']', j + 2)
            j = (k if k >= 0 else j) + 1
            continue
        if ch == '(':
            depth += 1
        elif ch == ')':
            depth -= 1
            if depth == 0:
                break
        j += 1
    args_src = pattern[i + len('(?P<args>'):j]
    ref = r'([^\)"]+("[^"]*")?)*'
    try:
        a, b = regex_to_z3(ref), regex_to_z3(args_src)
    except Exception:  # noqa
        a = b = None
    if a is None or b is None:
        return res('undecided', 'the args pattern %r is outside the class of patterns translated to regular expressions' % args_src, 'ast')
    w = _z3.String('w')
    v, m, be = smt.check([_z3.InRe(w, a), _z3.Not(_z3.InRe(w, b))], want_model=True)
    if v == 'unsat':
        return res('discharged', 'every attribute text (unquoted run, optional "quoted value")* -- a quoted value being any text without a '
                                 'double quote, line breaks included -- is accepted by the args group %r of String.tagre' % args_src, be)
    if v == 'sat':
        try:
            wit = m[w].as_string() if hasattr(m, '__getitem__') else str(m)
        except Exception:  # noqa
            wit = str(m)
        return res('refuted', 'the %%(...) syntax rejects attribute text the other two syntaxes accept: %r is not matched by the args '
                              'group %r' % (wit, args_src), be)
    return res('undecided', 'solver unknown on the regular-language inclusion for %r' % args_src, be)
