"""Parser contracts (C01 tiling, C06 exception closure / termination / location, C07 syntax equivalence)."""
import z3
from pyvc.contracts import *  # noqa
from pyvc.values import *  # noqa
from pyvc import spec as _spec

RC = 'DocumentTemplate.DT_HTML.dtml_re_class'
ST = 'DocumentTemplate.DT_String.String'
HT = 'DocumentTemplate.DT_HTML.HTML'


def _ob(E, prefix, tag):
    return lambda n, c, d: E.oblige('%s::%s.%s' % (prefix, tag, n), c, kind='post', detail=d)


# ------------------------------------------------------------------ the HTML tag scanner: contract M
def _search_exit(E, outcome, value, env, prefix):
    ob6 = _ob(E, prefix, 'C06')
    ob1 = _ob(E, prefix, 'C01')
    text = z3.String('text')
    start = z3.Int('start')
    if outcome != 'normal':
        ob6('scanner_raises_nothing', False, 'the tag scanner raised %s (any text, any start offset)' % value.cls)
        return
    if isinstance(value, VC) and value.v is None:
        return
    me = E.heap[env.locals['self'].addr]
    s = me.fields.get('_start')
    tag = me.fields.get(0)
    ok = s is not None and tag is not None and E.is_intlike(s) and E.is_strlike(tag)
    ob1('match_is_located', bool(ok), 'a match records where it starts and what it covers')
    if not ok:
        return
    sz, tz = E.as_z3_int(s), E.as_z3_str(tag)
    ob1('match_not_before_the_search_position', sz >= start, 'the scanner never claims text before the position it was asked to search from')
    ob1('match_is_the_text_at_its_position', tz == z3.SubString(text, sz, z3.Length(tz)), 'group(0) is exactly the source text at the match position')
    ob1('match_is_not_empty_and_inside_the_text', z3.And(z3.Length(tz) >= 1, sz + z3.Length(tz) <= z3.Length(text)),
        'a tag is at least one character long and lies inside the text (the parser always advances)')
    opener = z3.Or(*[z3.SubString(text, sz, len(p)) == z3.StringVal(p) for p in ('<!--#', '<dtml-', '</dtml-', '&dtml-', '&dtml.')])
    ob1('match_starts_with_a_tag_opener', opener, 'only text starting with <!--#, <dtml-, </dtml-, &dtml- or &dtml. is ever claimed as a tag')
    # C07: what the entity forms stand for
    ob7 = _ob(E, prefix, 'C07')
    name, args, end = me.fields.get('name'), me.fields.get('args'), me.fields.get('end')
    if name is not None and args is not None and E.is_strlike(args):
        az = E.as_z3_str(args)
        L = z3.Length(tz)
        inner = z3.SubString(tz, 6, L - 7)            # between '&dtml-' / '&dtml.' and ';'
        is_ent = E.valid(z3.SubString(tz, 0, 5) == z3.StringVal('&dtml'))
        if is_ent:
            simple = E.valid(z3.SubString(tz, 5, 1) == z3.StringVal('-'))
            ob7('entity_is_a_var_tag', bool(isinstance(name, VC) and name.v == 'var' and isinstance(end, VC) and end.v == ''),
                'an entity reference compiles as a (non-end) var tag')
            if simple:
                ob7('entity_means_name_html_quote', az == z3.Concat(inner, z3.StringVal(' html_quote')),
                    '&dtml-NAME; has the arguments "NAME html_quote"')
            else:
                from pyvc.strings import replace_all
                dash = z3.IndexOf(inner, z3.StringVal('-'), 0)
                want = z3.Concat(z3.SubString(inner, dash + 1, z3.Length(inner) - dash - 1), z3.StringVal(' '),
                                 replace_all(z3.SubString(inner, 0, dash), z3.StringVal('.'), z3.StringVal(' ')))
                ob7('entity_with_formats_means_name_and_formats', az == want,
                    '&dtml.f1.f2-NAME; has the arguments "NAME f1 f2"')
    closer = z3.Or(*[z3.SuffixOf(z3.StringVal(p), tz) for p in ('-->', '>', ';')])
    ob1('match_ends_with_a_tag_closer', closer, 'and it ends with -->, > or ;')


_T = {'mo': 'opaque', 's': 'int', 'n': 'int', 'e': 'int', 'en': 'int', 'end': 'str', 'l_': 'int', 'args': 'str', 'nn': 'int', 'd': 'opaque'}
LOOPS = {
    1: dict(header='1', inv=dict(pos='0 <= start and start <= strlen(text)', entry='start >= s0'), ghost={'s0': 'start'}, ghost_types={'s0': 'same'},
            decreases='strlen(text) - start', types=_T),
    2: dict(header='1', inv=dict(pos='n <= e and e <= strlen(text) and (n == s + 6 or n == s + 7) and s >= start and s >= 0 and start >= s0'), decreases='strlen(text) - e', types=_T),
    3: dict(header='1', inv=dict(pos='n <= e and e <= strlen(text) and (n == s + 6 or n == s + 7) and s >= start and s >= 0 and start >= s0'), decreases='strlen(text) - e', types=_T),
}
contract(RC + '.search', variant='M',
         params=dict(self=Obj(RC, lazy=False, prov='fresh'), text=Str(), start=Int(), name_match=Default(), end_match=Default(),
                     start_search=Default(), ent_name=Default()),
         requires=['0 <= start', 'start <= strlen(text)'],
         exit_hook=_search_exit, invariants=LOOPS)
