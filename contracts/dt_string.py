"""Contracts for DocumentTemplate.DT_String (String.__call__, compile/persistence functions)."""
from pyvc.contracts import *  # noqa
from contracts.core import SN, M

S_ = 'DocumentTemplate.DT_String.String'
RB = M + ".render_blocks"


def _self():
    return Obj(S_, lazy=True, maybe=('_v_cooked',))


# C08: called as a sub-template (mapping is the caller's namespace): the namespace holds exactly
# its entry contents and level on every exit.
contract(S_ + '.__call__', variant='subtemplate',
         params=dict(self=_self(), client=Opaque(), mapping=TD(), kw=DictS()),
         ensures=dict(stack="stack_unchanged(mapping)", level="level_of(mapping) == old(level_of(mapping))"),
         exc_ensures=dict(stack="stack_unchanged(mapping)", level="level_of(mapping) == old(level_of(mapping))"),
         uses=[RB, S_ + '.cook'],
         invariants={1: dict(header="for ob in client",
                             inv=dict(own="stack_extra(md) >= 0",
                                      counted="stack_extra(md) == pushed",
                                      level="level_of(md) == old(level_of(mapping)) + 1"),
                             havoc_stack=[("md", "clients")],
                             types={'ob': 'opaque', 'pushed': 'int'})})

contract(S_ + '.cook', params=dict(self=_self()), raises_any=True)
