"""Contracts for DocumentTemplate.DT_String (String.__call__, compile/persistence functions)."""
from pyvc.contracts import *  # noqa
from contracts.core import SN, M

S_ = 'DocumentTemplate.DT_String.String'
RB = M + ".render_blocks"


def _self():
    return Obj(S_, lazy=True, maybe=('_v_cooked',))


# C08: called as a sub-template (mapping is the caller's namespace): the namespace holds exactly
# its entry contents and level on every exit.
def _call_exit(E, outcome, value, env, prefix):
    from contracts.dt_try import _renders, may_be
    rs = _renders(E.trace)
    if not rs:
        return
    ob = lambda n, c, d: E.oblige(prefix + '::C14.' + n, c, kind='trace', detail=d)  # noqa
    ob('renders_once', len(rs) == 1, 'the compiled blocks are rendered exactly once per call')
    r = rs[-1]
    if r['exc'] is not None and r['exc'].cls == 'DTReturn':
        ob('return_value_is_call_result', outcome == 'normal' and value is r['exc'].fields.get('v'),
           'dtml-return makes the template call return that value unchanged (any type)')
    elif r['exc'] is not None:
        ob('other_exceptions_propagate', outcome == 'raise' and value is r['exc'], 'other exceptions propagate to the caller')
    elif outcome == 'normal':
        ob('result_is_rendering', value is r['ret'], 'without dtml-return the call returns the rendering')


def _both_hooks(*hooks):
    def hook(E, outcome, value, env, prefix):
        for h in hooks:
            h(E, outcome, value, env, prefix)
    return hook


from contracts import dt_ns  # noqa

contract(S_ + '.__call__', variant='subtemplate',
         exit_hook=_both_hooks(_call_exit, dt_ns.call_order_hook(False)),
         params=dict(self=_self(), client=Opaque(), mapping=TD(), kw=DictS()),
         ensures=dict(stack="stack_unchanged(mapping)", level="level_of(mapping) == old(level_of(mapping))"),
         exc_ensures=dict(stack="stack_unchanged(mapping)", level="level_of(mapping) == old(level_of(mapping))"),
         uses=[RB, S_ + '.cook'],
         invariants={1: dict(header="for ob in client",
                             inv=dict(own="stack_extra(md) >= 0",
                                      counted="stack_extra(md) == pushed",
                                      level="level_of(md) == old(level_of(mapping)) + 1"),
                             havoc_stack=[("md", "clients")], on_iteration=dt_ns.client_loop_iter,
                             types={'ob': 'opaque', 'pushed': 'int'})})

def _no_taint_wrapper(E, env):
    # top-level variant: a mapping without taintWrapper (a request's taintWrapper() result is itself such a mapping)
    E.ghost[('hasattr', 'mapping', 'taintWrapper')] = False
    E.assumptions_used.add('String.__call__ top-level variant: the mapping argument is not a TemplateDict and has no taintWrapper')


# top-level call: the template builds its own namespace
contract(S_ + '.__call__', variant='toplevel',
         params=dict(self=_self(), client=Opaque(),
                     mapping=Opaque(types={'DocumentTemplate._DocumentTemplate.TemplateDict': False,
                                           'exact:DocumentTemplate._DocumentTemplate.TemplateDict': False}),
                     kw=DictS()),
         exit_hook=_both_hooks(_call_exit, dt_ns.call_order_hook(True)),
         pre_hook=_no_taint_wrapper,
         uses=[RB, S_ + '.cook'],
         invariants={1: dict(header="for ob in client",
                             ghost={'n0': "len_of(md._data) - pushed"}, ghost_types={'n0': 'same'},
                             inv=dict(counted="len_of(md._data) - pushed == n0"),
                             havoc_stack=[("md", "clients")], on_iteration=dt_ns.client_loop_iter,
                             types={'ob': 'opaque', 'pushed': 'int'})})

contract(S_ + '.cook', params=dict(self=_self()), raises_any=True)
