"""Contracts for DocumentTemplate.DT_In."""
from pyvc.contracts import *  # noqa
from contracts.core import SN, M

IN = 'DocumentTemplate.DT_In.InClass'
RB = M + ".render_blocks"
GI = M + ".TemplateDict.__getitem__"
SES = 'DocumentTemplate.DT_Util.sequence_ensure_subscription'


def _cache_holds(E, cache, sequence):
    from pyvc.values import VC, VRef, HDict
    if isinstance(cache, VC) and cache.v is None:
        return VC(True)
    if isinstance(cache, VRef) and isinstance(E.heap[cache.addr], HDict):
        ent = E.heap[cache.addr].entries
        return VC(len(ent) == 1 and ent[0][1] is sequence)
    return VC(False)


from pyvc import spec as _spec  # noqa
_spec.register('cache_holds', _cache_holds)

CACHE_CUT = dict(name="cache", before="if isinstance(sequence, str):", keep_trace=True,
                 assume={'C12.named_sequence_cached_as_wrapped':
                         "cache_holds(cache, sequence)"})


def _inself():
    return Obj(IN, lazy=True, fields={'args': DictS(types={'prefix': 'str'})})


# sort_sequence / reverse_sequence as seen by the render functions: a NEW list (C13 frame),
# nothing pushed or popped.
contract(IN + ".sort_sequence",
         params=dict(self=_inself(), sequence=Seq(kind='any'), md=TD()),
         ensures=dict(SN, same_length="len_of(result) == len_of(sequence)"), exc_ensures=dict(SN),
         raises_any=True, returns=ListS())
contract(IN + ".reverse_sequence",
         params=dict(self=_inself(), sequence=Seq(kind='any')),
         ensures=dict(same_length="len_of(result) == len_of(sequence)"),
         raises_any=True, returns=ListS())

WOB_LOOP = dict(
    header="for index in range(l_)",
    ghost={'x0': "stack_extra(md)"}, ghost_types={'x0': 'same'},
    inv=dict(stack="stack_extra(md) == x0", level="level_of(md) == old(level_of(md))"),
    havoc_heap=["kw", "result"],
    types={'client': 'opaque', 't': 'opaque', 'pushed': 'int', 'vv': 'opaque'})

BODY_LIVE = ['self', 'md', 'sequence', 'cache', 'section', 'mapping', 'no_push_item', 'index', 'pkw', 'kw',
             'result', 'append', 'render', 'push', 'pop', 'guarded_getitem', 'client', 'l_', 'last', 'vars',
             'prefix']

contract(IN + ".renderwob",
         params=dict(self=_inself(), md=TD()),
         ensures=dict(SN), exc_ensures=dict(SN),
         uses=[RB, GI, SES, IN + ".sort_sequence", IN + ".reverse_sequence", M + ".join_unicode"],
         cuts=[CACHE_CUT,
               dict(name="sorted", before="prefix = self.args.get('prefix')",
                    live=['self', 'md', 'sequence', 'cache', 'section', 'mapping', 'no_push_item'],
                    abstract={'sequence': Seq(kind='any')},
                    havoc_fields=[('self', 'sort', None)],
                    forget=['self.sort', 'self.reverse', 'self.expr', 'self.elses']),
               dict(name="fetch", before="if guarded_getitem is not None:", live=BODY_LIVE,
                    abstract={'index': Int()}, assume={'idx': "index >= 0"}, havoc_heap=["kw"]),
               dict(name="item", before="pkw['sequence-index'] = index", live=BODY_LIVE,
                    abstract={'client': Opaque(), 'index': Int()}, havoc_heap=["kw"], forget=['guarded_getitem']),
               dict(name="push", before="if no_push_item:", live=BODY_LIVE + ['t'],
                    abstract={'client': Opaque(), 't': Opaque()}, havoc_heap=["kw"]),
               ],
         invariants={2: WOB_LOOP})


# int_param (DT_In): literal digits or a namespace lookup; no push/pop.
def _int_param_frame(E, outcome, value, env, prefix):
    p = env.locals['params']
    writes = [t for t in E.trace if t[0] == 'dict_set' and t[1] == p.addr]
    E.oblige(prefix + '::frame.params_not_modified', len(writes) == 0, kind='frame',
             detail="the tag's compiled parameter dictionary is only read: literal or variable, the parameter is resolved "
                    "again on every rendering (C11 parameters given through variables, C17 repeatability)")


contract('DocumentTemplate.DT_In.int_param',
         exit_hook=_int_param_frame,
         params=dict(params=DictS(), md=TD(), name=Opaque(), default=Opaque()),
         ensures=dict(SN), exc_ensures=dict(SN), raises_any=True, returns=Opaque(), uses=[GI])

OPT = 'DocumentTemplate.DT_InSV.opt'
PB_ = "pulled(sequence) <= imax(pulled_initial(sequence), end + sz + orphan)"

WB_LOOP = dict(
    header="for index in range(first, end)",
    ghost={'x0': "stack_extra(md)"}, ghost_types={'x0': 'same'},
    inv={'stack': "stack_extra(md) == x0", 'level': "level_of(md) == old(level_of(md))", 'C12.pull_bound': PB_},
    havoc_heap=["kw", "result"], havoc_ghost=["sequence"],
    types={'client': 'opaque', 't': 'opaque', 'pushed': 'int', 'vv': 'opaque', 'pstart': 'int', 'pend': 'int',
           'psize': 'int'})

contract(IN + ".renderwb",
         params=dict(self=_inself(), md=TD()),
         ensures=dict(SN), exc_ensures=dict(SN), lazy_len=True,
         uses=[RB, GI, SES, IN + ".sort_sequence", IN + ".reverse_sequence", M + ".join_unicode",
               'DocumentTemplate.DT_In.int_param', OPT],
         cuts=[CACHE_CUT,
               dict(name="sorted", before="next = previous = 0",
                    abstract={'sequence': Seq(kind='any', lazy=True)},
                    assume={'nonempty': "len_of(sequence) >= 1"},
                    havoc_fields=[('self', 'sort', None)],
                    forget=['self.sort', 'self.reverse', 'self.expr', 'self.elses']),
               dict(name="params", before="start, end, sz = opt(start, end, size, orphan, sequence)",
                    abstract={'start': Int(assumed=True), 'end': Int(assumed=True), 'size': Int(assumed=True),
                              'overlap': Int(assumed=True), 'orphan': Int(assumed=True)},
                    suppose={'orphan_nonneg': "orphan >= 0", 'overlap_nonneg': "overlap >= 0"},
                    assume={'nonempty': "len_of(sequence) >= 1"}),
               dict(name="window", before="last = end - 1",
                    abstract={'start': Int(), 'end': Int(), 'sz': Int()},
                    # C11 (from the property): 1 <= start <= end <= length
                    assume={'C11.start_lo': "1 <= start", 'C11.ordered': "start <= end",
                            'C11.end_in_sequence': "end <= len_of(sequence)", 'size_pos': "sz >= 1",
                            'C12.pull_bound': PB_},
                    suppose={'overlap_lt_size': "overlap < sz"},
                    havoc_ghost=["sequence"]),
               dict(name="links", before="if index == last: pkw['sequence-end'] = 1",
                    abstract={'index': Int()}, live=["kw"], havoc_heap=["kw"], drop=['pstart', 'pend', 'psize'],
                    havoc_ghost=["sequence"], forget_iteration=True,
                    assume={'in_window': "first <= index and index < end", 'C12.pull_bound': PB_,
                            # C11: batch links announced on the first / last displayed element
                            'C11.previous_sequence_flag': "kw['previous-sequence'] == (1 if (index == first and first > 0) else 0)",
                            'C11.next_sequence_flag': "kw['next-sequence'] == (1 if (index == last and end < len_of(sequence)) else 0)",
                            'C11.previous_batch_ends_at_start_minus_1_plus_overlap':
                                "implies(index == first and first > 0 and overlap >= 0, "
                                "kw['previous-sequence-end-index'] + 1 == imin(start - 1 + overlap, len_of(sequence)))",
                            'C11.next_batch_starts_at_end_plus_1_minus_overlap':
                                "implies(index == last and end < len_of(sequence) and overlap <= end, "
                                "kw['next-sequence-start-index'] + 1 == imin(end + 1 - overlap, len_of(sequence)))",
                            }),
               dict(name="fetch", before="if guarded_getitem is not None:",
                    abstract={'index': Int()}, live=["kw"], havoc_heap=["kw"], havoc_ghost=["sequence"], forget_iteration=True,
                    assume={'C11.displayed_index_in_sequence': "0 <= index and index < len_of(sequence)",
                            'in_window': "first <= index and index < end", 'C12.pull_bound': PB_}),
               dict(name="item", before="pkw['sequence-index'] = index",
                    abstract={'client': Opaque(), 'index': Int()}, live=["kw"], havoc_heap=["kw"],
                    havoc_ghost=["sequence"], forget_iteration=True, assume={'C12.pull_bound': PB_}),
               dict(name="push", before="if no_push_item:",
                    abstract={'client': Opaque(), 't': Opaque()}, live=["kw"], havoc_heap=["kw"],
                    havoc_ghost=["sequence"], forget_iteration=True, assume={'C12.pull_bound': PB_}),
               ],
         invariants={2: WB_LOOP})
