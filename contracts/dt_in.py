"""Contracts for DocumentTemplate.DT_In."""
from pyvc.contracts import *  # noqa

IN = 'DocumentTemplate.DT_In.InClass'

contract(IN + ".renderwb",
         params=dict(self=Obj(IN, lazy=True), md=TD()),
         requires=[],
         ensures=dict(stack="stack_unchanged(md)"),
         exc_ensures=dict(stack="stack_unchanged(md)"),
         uses=['DocumentTemplate.DT_InSV.opt'],
         )
