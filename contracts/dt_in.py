"""Contracts for DocumentTemplate.DT_In."""
from pyvc.contracts import *  # noqa
from pyvc.values import VC, VB, Val  # noqa
from contracts.core import SN, M

IN = 'DocumentTemplate.DT_In.InClass'
RB = M + ".render_blocks"
GI = M + ".TemplateDict.__getitem__"
SES = 'DocumentTemplate.DT_Util.sequence_ensure_subscription'


def _cache_holds(E, cache, sequence):
    from pyvc.values import VC, VRef, HDict
    if isinstance(cache, VC) and cache.v is None:
        return VC(True)
    if isinstance(cache, VRef) and isinstance(E.heap[cache.addr], HDict):
        ent = E.heap[cache.addr].entries
        return VC(len(ent) == 1 and ent[0][1] is sequence)
    return VC(False)


from pyvc import spec as _spec  # noqa
_spec.register('cache_holds', _cache_holds)

def _top_entry(E, md):
    """the most recently pushed namespace entry (concrete list item), for binding clauses"""
    from pyvc.values import VRef, HList, SymSeg
    from pyvc.engine import Unsupported
    data = E.heap[E.heap[md.addr].fields['_data'].addr]
    if not data.items or isinstance(data.items[-1], SymSeg):
        raise Unsupported('top_entry: no concrete entry on the namespace stack')
    return data.items[-1]


def _bound_object(E, entry):
    """the object whose attributes a namespace entry exposes: InstanceDict(o) -> o, anything else -> itself"""
    from pyvc.values import VRef, HObj, VCls
    if isinstance(entry, VRef) and isinstance(E.heap[entry.addr], HObj):
        h = E.heap[entry.addr]
        if isinstance(h.cls, VCls) and h.cls.name == 'InstanceDict':
            return h.fields['inst']
    return entry


def _guard_fetched(E, guard, sequence, index, client):
    """the element at hand is what the security guard returned for (sequence, index) -- read off the ghost trace
    since the previous cut"""
    import z3
    calls = [t for t in E.trace if t[0] == 'call']
    rets = [t for t in E.trace if t[0] == 'returned']
    if len(calls) != 1 or len(rets) != 1:
        return VC(False)
    c = calls[0]
    ok = c[3] is guard and len(c[4]) == 2 and c[4][0] is sequence and rets[0][3] is client
    if not ok:
        return VC(False)
    return VB(z3.BoolVal(True) if c[4][1] is index else E.as_z3_int(c[4][1]) == E.as_z3_int(index))


def _elem(E, sq, k):
    return E.seq_elem(sq, E.as_z3_int(k))


def _sr_calls(E):
    out = []
    for t in E.trace:
        if t[0] == 'contract-call' and t[1] in (IN + '.sort_sequence', IN + '.reverse_sequence'):
            out.append(dict(kind=t[1].rsplit('.', 1)[1], arg=t[2].get('sequence'), ret=None))
        elif t[0] == 'contract-ret' and t[1] in (IN + '.sort_sequence', IN + '.reverse_sequence') and out:
            out[-1]['ret'] = t[2]
    return out


def _c13_order(E):
    """sort (at most once) happens before reverse (at most once); reverse works on the sorted result"""
    cs = _sr_calls(E)
    kinds = [c['kind'] for c in cs]
    if kinds not in ([], ['sort_sequence'], ['reverse_sequence'], ['sort_sequence', 'reverse_sequence']):
        return VC(False)
    if len(cs) == 2 and cs[1]['arg'] is not cs[0]['ret']:
        return VC(False)
    return VC(True)


def _c13_result(E, sequence):
    """the sequence shown is the output of the last of these steps (the caller's object only if neither ran)"""
    cs = _sr_calls(E)
    if cs:
        return VC(cs[-1]['ret'] is sequence)
    return VC(True)


def _c13_applied(E, me):
    """sort runs iff a sort option is present; reverse runs whenever the reverse option is present"""
    import z3
    cs = _sr_calls(E)
    kinds = [c['kind'] for c in cs]
    h = E.heap[me.addr]
    none = z3.Const('None', Val)

    def isnone(f):
        v = E.getattr_(me, f)
        t = E.to_val(v) == none
        if E.valid(t):
            return True
        if E.valid(z3.Not(t)):
            return False
        return None
    s_none, se_none, r_none, re_none = isnone('sort'), isnone('sort_expr'), isnone('reverse'), isnone('reverse_expr')
    if se_none is True and s_none is not None:
        if ('sort_sequence' in kinds) != (not s_none):
            return VC(False)
    if se_none is False and 'sort_sequence' not in kinds:
        return VC(False)
    if re_none is True and r_none is not None:
        if ('reverse_sequence' in kinds) != (not r_none):
            return VC(False)
    if r_none is False and re_none is not None and 'reverse_sequence' not in kinds and re_none is True:
        return VC(False)
    return VC(True)


_spec.register('c13_order', _c13_order)
_spec.register('c13_result', _c13_result)
_spec.register('c13_applied', _c13_applied)
_spec.register('guard_fetched', _guard_fetched)
_spec.register('elem_at', _elem)
_spec.register('top_entry', _top_entry)
_spec.register('bound_object', _bound_object)

CACHE_CUT = dict(name="cache", before="if isinstance(sequence, str):", keep_trace=True,
                 assume={'C12.named_sequence_cached_as_wrapped':
                         "cache_holds(cache, sequence)"})


# right after the emptiness test, before any sort / reverse (which are excepted by C12): the test itself must not have measured
# (and thereby exhausted) a lazily produced sequence -- it probes element 0 instead of asking for the truth value / length
PROBED_CUT = dict(name="probed", before="section = self.section", keep_trace=True,
                  check={'C12.emptiness_test_does_not_measure_the_sequence': "not len_called(sequence)"})


def _inself():
    return Obj(IN, lazy=True, fields={'args': DictS(types={'prefix': 'str'})})


# sort_sequence / reverse_sequence as seen by the render functions: a NEW list (C13 frame),
# nothing pushed or popped.
contract(IN + ".sort_sequence",
         params=dict(self=_inself(), sequence=Seq(kind='any'), md=TD(), sort=Opaque()),
         ensures=dict(SN, same_length="len_of(result) == len_of(sequence)"), exc_ensures=dict(SN),
         raises_any=True, returns=ListS())
contract(IN + ".reverse_sequence",
         params=dict(self=_inself(), sequence=Seq(kind='any')),
         ensures=dict(same_length="len_of(result) == len_of(sequence)"),
         raises_any=True, returns=ListS())

# ---- C10: flags, index variable, per-item binding (clauses at the cut points of the real loop bodies) ----
def _c10_flags(pos, first_pos, last, start_rule):
    """clauses that hold from the flag update at the top of an iteration to its end"""
    d = {
        'C10.index_is_position': "index == %s" % pos,
        'C10.end_flag_exactly_on_last': "kw['sequence-end'] == (1 if index == %s else 0)" % last,
        'C10.start_flag_on_first': "implies(index == %s, kw['sequence-start'] == 1)" % first_pos,
        'C10.start_flag_only_on_first_displayed': "implies(len_of(result) > 0, kw['sequence-start'] == 0)",
        'C10.at_most_one_piece_per_element': "len_of(result) <= __k_2",
        'C10.unguarded_every_element_displayed': "implies(is_none(guarded_getitem), len_of(result) == __k_2)",
    }
    d['C10.start_flag_off_after_first'] = start_rule
    return d


WOB_FLAGS = _c10_flags("__k_2", "0", "last",
                       "implies(is_none(guarded_getitem) and index > 0, kw['sequence-start'] == 0)")
WB_FLAGS = _c10_flags("first + __k_2", "first", "last", "implies(index > first, kw['sequence-start'] == 0)")
WB_FLAGS['in_window'] = "first <= index and index < end"
INDEX_VAR = {'C10.index_variable': "kw['sequence-index'] == index"}
COVER = {'guarded': "not is_none(guarded_getitem)", 'unguarded': "is_none(guarded_getitem)", 'bound': "pushed == 1",
         'not_bound': "pushed == 0", 'later_element': "__k_2 > 0", 'first_element': "__k_2 == 0"}
BINDING = {
    'C10.binding_depth': "stack_extra(md) == x0 + pushed",
    'C10.no_push_item_binds_nothing': "implies(truthy_(no_push_item), pushed == 0)",
    'C10.mapping_item_is_namespace_entry': "implies(pushed == 1 and truthy_(mapping), same(top_entry(md), client))",
    'C10.item_attributes_visible': "implies(pushed == 1 and not truthy_(mapping), same(bound_object(top_entry(md)), client))",
    'C10.only_strings_are_not_bound': "implies(not truthy_(no_push_item) and not truthy_(mapping) and pushed == 0, t in StringTypes)",
    'C10.objects_are_bound': "implies(not truthy_(no_push_item) and truthy_(mapping), pushed == 1)",
}
SORTED_CHECK = {
    'C13.sort_then_reverse': "c13_order()",
    'C13.shown_sequence_is_the_sorted_reversed_copy': "c13_result(sequence)",
    'C13.sort_and_reverse_applied_as_requested': "c13_applied(self)",
}
FETCH = {
    'C10.element_is_sequence_item_at_index': "implies(is_none(guarded_getitem), same(client, elem_at(sequence, index)))",
    'C10.guarded_element_is_item_at_index': "implies(not is_none(guarded_getitem), guard_fetched(guarded_getitem, sequence, index, client))",
}
PREFIX_ALIASES = {
    'C10.prefix_alias_end': "kw['p_end'] == kw['sequence-end']",
    'C10.prefix_alias_start': "kw['p_start'] == kw['sequence-start']",
}
PREFIX_INDEX = {'C10.prefix_alias_index': "kw['p_index'] == kw['sequence-index']"}


def _with(*ds):
    out = {}
    for d in ds:
        out.update(d)
    return out


def _wob_loop(prefixed):
    inv = dict(stack="stack_extra(md) == x0", level="level_of(md) == old(level_of(md))")
    inv.update({
        'C10.end_flag_exactly_on_last': "kw['sequence-end'] == (1 if (__k_2 >= l_ and __k_2 > 0) else 0)",
        'C10.start_flag_on_first': "implies(__k_2 == 0, kw['sequence-start'] == 1)",
        'C10.start_flag_only_on_first_displayed': "implies(len_of(result) > 0, kw['sequence-start'] == 0)",
        'C10.start_flag_off_after_first': "implies(is_none(guarded_getitem) and __k_2 > 0, kw['sequence-start'] == 0)",
        'C10.at_most_one_piece_per_element': "len_of(result) <= __k_2",
        'C10.unguarded_every_element_displayed': "implies(is_none(guarded_getitem), len_of(result) == __k_2)",
    })
    if prefixed:
        inv.update(PREFIX_ALIASES)
    return dict(
        header="for index in range(l_)",
        ghost={'x0': "stack_extra(md)"}, ghost_types={'x0': 'same'},
        inv=inv,
        havoc_heap=["kw", "result"],
        types={'client': 'opaque', 't': 'opaque', 'pushed': 'int', 'vv': 'opaque'})


BODY_LIVE = ['self', 'md', 'sequence', 'cache', 'section', 'mapping', 'no_push_item', 'index', 'pkw', 'kw',
             'result', 'append', 'render', 'push', 'pop', 'guarded_getitem', 'client', 'l_', 'last', 'vars',
             'prefix', '__k_2']


def _set_prefix(value):
    def hook(E, env):
        from pyvc.values import VC
        me = E.heap[env.locals['self'].addr]
        args = E.heap[me.fields['args'].addr]
        args.entries.append([VC('prefix'), VC(value)])
    return hook


def _make_wob(variant=None, prefixed=False):
    al = PREFIX_ALIASES if prefixed else {}
    ai = _with(al, PREFIX_INDEX) if prefixed else {}
    return contract(
        IN + ".renderwob", variant=variant,
        params=dict(self=_inself(), md=TD()),
        pre_hook=_set_prefix('p') if prefixed else None,
        ensures=dict(SN), exc_ensures=dict(SN),
        uses=[RB, GI, SES, IN + ".sort_sequence", IN + ".reverse_sequence", M + ".join_unicode"],
        cuts=[CACHE_CUT, PROBED_CUT,
              dict(name="sorted", before="prefix = self.args.get('prefix')", check=SORTED_CHECK,
                   live=['self', 'md', 'sequence', 'cache', 'section', 'mapping', 'no_push_item'],
                   abstract={'sequence': Seq(kind='any')},
                   havoc_fields=[('self', 'sort', None)],
                   forget=['self.sort', 'self.reverse', 'self.expr', 'self.elses']),
              dict(name="fetch", before="if guarded_getitem is not None:", live=BODY_LIVE,
                   abstract={'index': Int()}, assume=_with({'idx': "index >= 0"}, WOB_FLAGS, al), havoc_heap=["kw"]),
              dict(name="item", before="pkw['sequence-index'] = index", live=BODY_LIVE,
                   abstract={'client': Opaque(), 'index': Int()}, havoc_heap=["kw"],
                   assume=_with(WOB_FLAGS, al), check=FETCH),
              dict(name="push", before="if no_push_item:", live=BODY_LIVE + ['t'],
                   abstract={'client': Opaque(), 't': Opaque()}, havoc_heap=["kw"],
                   assume=_with(WOB_FLAGS, INDEX_VAR, ai)),
              dict(name="body", before="try: append(render(section, md, encoding=self.encoding))", live=BODY_LIVE + ['t', 'pushed'],
                   havoc_heap=["kw"], assume=_with(WOB_FLAGS, INDEX_VAR, ai, BINDING), cover=COVER),
              dict(name="done", before="result = join_unicode(result, encoding=self.encoding)", live=['__k_2'],
                   assume={'C10.every_element_visited_in_order': "__k_2 == len_of(sequence)"}),
              ],
        invariants={2: _wob_loop(prefixed)})


_make_wob()
_make_wob('p', True)


# int_param (DT_In): literal digits or a namespace lookup; no push/pop.
def _int_param_frame(E, outcome, value, env, prefix):
    p = env.locals['params']
    writes = [t for t in E.trace if t[0] == 'dict_set' and t[1] == p.addr]
    E.oblige(prefix + '::frame.params_not_modified', len(writes) == 0, kind='frame',
             detail="the tag's compiled parameter dictionary is only read: literal or variable, the parameter is resolved "
                    "again on every rendering (C11 parameters given through variables, C17 repeatability)")


contract('DocumentTemplate.DT_In.int_param',
         exit_hook=_int_param_frame,
         params=dict(params=DictS(), md=TD(), name=Opaque(), default=Opaque()),
         ensures=dict(SN), exc_ensures=dict(SN), raises_any=True, returns=Opaque(), uses=[GI])

OPT = 'DocumentTemplate.DT_InSV.opt'
PB_ = "pulled(sequence) <= imax(pulled_initial(sequence), end + sz + orphan)"

def _wb_loop(prefixed):
    inv = {'stack': "stack_extra(md) == x0", 'level': "level_of(md) == old(level_of(md))", 'C12.pull_bound': PB_}
    inv.update({
        'C10.end_flag_exactly_on_last': "kw['sequence-end'] == (1 if (__k_2 >= end - first and __k_2 > 0) else 0)",
        'C10.start_flag_on_first': "implies(__k_2 == 0, kw['sequence-start'] == 1)",
        'C10.start_flag_only_on_first_displayed': "implies(len_of(result) > 0, kw['sequence-start'] == 0)",
        'C10.start_flag_off_after_first': "implies(__k_2 > 0, kw['sequence-start'] == 0)",
        'C10.at_most_one_piece_per_element': "len_of(result) <= __k_2",
        'C10.unguarded_every_element_displayed': "implies(is_none(guarded_getitem), len_of(result) == __k_2)",
    })
    if prefixed:
        inv.update(PREFIX_ALIASES)
    return dict(
        header="for index in range(first, end)",
        ghost={'x0': "stack_extra(md)"}, ghost_types={'x0': 'same'},
        inv=inv,
        havoc_heap=["kw", "result"], havoc_ghost=["sequence"],
        types={'client': 'opaque', 't': 'opaque', 'pushed': 'int', 'vv': 'opaque', 'pstart': 'int', 'pend': 'int',
               'psize': 'int'})


WBL = ["kw", "__k_2"]


def _make_wb(variant=None, prefixed=False):
    al = PREFIX_ALIASES if prefixed else {}
    ai = _with(al, PREFIX_INDEX) if prefixed else {}
    before_end = _with(WB_FLAGS, al)
    before_end['C10.end_flag_exactly_on_last'] = "kw['sequence-end'] == 0"     # not yet updated for this element
    return contract(
        IN + ".renderwb", variant=variant,
        params=dict(self=_inself(), md=TD()),
        pre_hook=_set_prefix('p') if prefixed else None,
        ensures=dict(SN), exc_ensures=dict(SN), lazy_len=True,
        uses=[RB, GI, SES, IN + ".sort_sequence", IN + ".reverse_sequence", M + ".join_unicode",
              'DocumentTemplate.DT_In.int_param', OPT],
        cuts=[CACHE_CUT, PROBED_CUT,
              dict(name="sorted", before="next = previous = 0", check=SORTED_CHECK,
                   abstract={'sequence': Seq(kind='any', lazy=True)},
                   assume={'nonempty': "len_of(sequence) >= 1"},
                   havoc_fields=[('self', 'sort', None)],
                   forget=['self.sort', 'self.reverse', 'self.expr', 'self.elses']),
              dict(name="params", before="start, end, sz = opt(start, end, size, orphan, sequence)",
                   abstract={'start': Int(assumed=True), 'end': Int(assumed=True), 'size': Int(assumed=True),
                             'overlap': Int(assumed=True), 'orphan': Int(assumed=True)},
                   suppose={'orphan_nonneg': "orphan >= 0", 'overlap_nonneg': "overlap >= 0"},
                   assume={'nonempty': "len_of(sequence) >= 1"}),
              dict(name="window", before="last = end - 1",
                   abstract={'start': Int(), 'end': Int(), 'sz': Int()},
                   # C11 (from the property): 1 <= start <= end <= length
                   assume={'C11.start_lo': "1 <= start", 'C11.ordered': "start <= end",
                           'C11.end_in_sequence': "end <= len_of(sequence)", 'size_pos': "sz >= 1",
                           'C12.pull_bound': PB_},
                   suppose={'overlap_lt_size': "overlap < sz"},
                   havoc_ghost=["sequence"]),
              dict(name="links", before="if index == last: pkw['sequence-end'] = 1",
                   abstract={'index': Int()}, live=WBL, havoc_heap=["kw"], drop=['pstart', 'pend', 'psize'],
                   havoc_ghost=["sequence"], forget_iteration=True,
                   assume=_with({'in_window': "first <= index and index < end", 'C12.pull_bound': PB_,
                           # C11: batch links announced on the first / last displayed element
                           'C11.previous_sequence_flag': "kw['previous-sequence'] == (1 if (index == first and first > 0) else 0)",
                           'C11.next_sequence_flag': "kw['next-sequence'] == (1 if (index == last and end < len_of(sequence)) else 0)",
                           'C11.previous_batch_ends_at_start_minus_1_plus_overlap':
                               "implies(index == first and first > 0 and overlap >= 0, "
                               "kw['previous-sequence-end-index'] + 1 == imin(start - 1 + overlap, len_of(sequence)))",
                           'C11.next_batch_starts_at_end_plus_1_minus_overlap':
                               "implies(index == last and end < len_of(sequence) and overlap <= end, "
                               "kw['next-sequence-start-index'] + 1 == imin(end + 1 - overlap, len_of(sequence)))",
                           }, before_end)),
              dict(name="fetch", before="if guarded_getitem is not None:",
                   abstract={'index': Int()}, live=WBL, havoc_heap=["kw"], havoc_ghost=["sequence"], forget_iteration=True,
                   assume=_with({'C11.displayed_index_in_sequence': "0 <= index and index < len_of(sequence)",
                           'in_window': "first <= index and index < end", 'C12.pull_bound': PB_}, WB_FLAGS, al)),
              dict(name="item", before="pkw['sequence-index'] = index",
                   abstract={'client': Opaque(), 'index': Int()}, live=WBL, havoc_heap=["kw"],
                   havoc_ghost=["sequence"], forget_iteration=True, assume=_with({'C12.pull_bound': PB_}, WB_FLAGS, al), check=FETCH),
              dict(name="push", before="if no_push_item:",
                   abstract={'client': Opaque(), 't': Opaque()}, live=WBL, havoc_heap=["kw"],
                   havoc_ghost=["sequence"], forget_iteration=True,
                   assume=_with({'C12.pull_bound': PB_}, WB_FLAGS, INDEX_VAR, ai)),
              dict(name="body", before="try: append(render(section, md, encoding=self.encoding))",
                   live=WBL, havoc_heap=["kw"], havoc_ghost=["sequence"], forget_iteration=True,
                   assume=_with({'C12.pull_bound': PB_}, WB_FLAGS, INDEX_VAR, ai, BINDING), cover=COVER),
              dict(name="done", before="result = join_unicode(result, encoding=self.encoding)", live=['__k_2'],
                   assume={'C10.every_window_element_visited_in_order': "__k_2 == end - first"}),
              ],
        invariants={2: _wb_loop(prefixed)})


_make_wb()
_make_wb('p', True)
