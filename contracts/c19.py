"""C19: bytes in mixed output decode with the template encoding; string conversion (ustr) is safe."""
import itertools
import z3
from pyvc.contracts import *  # noqa
from pyvc.values import *  # noqa
from pyvc.library import html_escape_term
from contracts.core import M

JU = M + '.join_unicode'
RB = M + '.render_blocks'
RB_ = M + '.render_blocks_'
USTR = 'DocumentTemplate.ustr.ustr'
HQ = 'DocumentTemplate.html_quote.html_quote'
DEC = z3.Function('decode', Val, Val, z3.StringSort())


def _ob(E, prefix):
    return lambda n, c, d: E.oblige('%s::C19.%s' % (prefix, n), c, kind='post', detail=d)


# ------------------------------------------------------------------ join_unicode, per shape of the piece list
def _ju_state(shape, enc_given):
    def hook(E, env):
        items = []
        for i, k in enumerate(shape):
            if k == 's':
                items.append(VS(z3.String('piece%d' % i)))
            else:
                o = VO('piece%d' % i)
                E.tfacts[(o.name, 'bytes')] = True
                items.append(o)
        env.locals['rendered'] = E.alloc(HList(items))
        env.locals['encoding'] = VO('encoding') if enc_given else NONE
        env.locals['__g_items'] = VT(items)
    return hook


def _ju_exit(shape, enc_given):
    def hook(E, outcome, value, env, prefix):
        ob = _ob(E, prefix)
        items = env.locals['__g_items'].items
        if outcome != 'normal':
            ob('join.raises_only_decode_errors', bool('b' in shape and value.cls == 'ValueError'),
               'joining raises only when a bytes piece cannot be decoded (%s)' % value.cls)
            return
        enc = E.to_val(VO('encoding')) if enc_given else None
        want = z3.StringVal('')
        for k, it in zip(shape, items):
            if k == 's':
                want = z3.Concat(want, it.t)
            else:
                if enc is None:
                    decs = [t for t in E.trace if t[0] == 'decode' and t[1] is it]
                    e = E.to_val(decs[0][2]) if decs else z3.Const('noenc', Val)
                else:
                    e = enc
                want = z3.Concat(want, DEC(it.t, e))
        ok = E.is_strlike(value)
        ob('join.result_is_text', bool(ok), 'the joined result is text (str)')
        if ok:
            ob('join.pieces_in_order_bytes_decoded', E.as_z3_str(value) == want,
               'the result is the concatenation of the pieces in order, each bytes piece decoded (str pieces untouched)')
        if enc_given:
            decs = [t for t in E.trace if t[0] == 'decode']
            ob('join.bytes_decoded_with_the_given_encoding', bool(all(t[2] is env.locals['encoding'] for t in decs)
                                                                  and len(decs) == shape.count('b')),
               'every bytes piece is decoded exactly once, with the encoding passed in')
    return hook


JOIN = []
for _n in range(0, 4):
    for _shape in itertools.product('sb', repeat=_n):
        for _eg in ((True,) if 'b' in _shape else (True,)):
            _tag = 'shape_' + (''.join(_shape) or 'empty')
            contract(JU, variant=_tag, params=dict(rendered=NoneV(), encoding=NoneV()), requires=["not is_none(encoding)"],
                     pre_hook=_ju_state(_shape, _eg), exit_hook=_ju_exit(_shape, _eg))
            JOIN.append(JU + '#' + _tag)


def _ju_default_exit(E, outcome, value, env, prefix):
    ob = _ob(E, prefix)
    decs = [t for t in E.trace if t[0] == 'decode']
    ok = len(decs) == 1 and isinstance(decs[0][2], (VO, VC, VS))
    old = E.module_attr('DocumentTemplate', 'OLD_DEFAULT_ENCODING')
    ob('join.no_encoding_falls_back_to_the_old_default', bool(ok and (decs[0][2] is old or (isinstance(old, VC) and isinstance(decs[0][2], VC)
                                                                                      and decs[0][2].v == old.v))),
       'without an encoding the documented fallback DocumentTemplate.OLD_DEFAULT_ENCODING is used')


contract(JU, variant='no_encoding', params=dict(rendered=NoneV(), encoding=NoneV()),
         pre_hook=_ju_state(('s', 'b'), False), exit_hook=_ju_default_exit)
JOIN.append(JU + '#no_encoding')


# ------------------------------------------------------------------ render_blocks: '' / the single piece / join with ITS encoding
def _rb_exit(E, outcome, value, env, prefix):
    ob = _ob(E, prefix)
    if outcome != 'normal':
        return
    calls = [t for t in E.trace if t[0] == 'contract-call' and t[1] == JU]
    rb_ = [t for t in E.trace if t[0] == 'contract-call' and t[1] == RB_]
    ob('render_blocks.renders_with_its_encoding', bool(len(rb_) == 1 and rb_[0][2].get('encoding') is env.locals['encoding']
                                                       and rb_[0][2].get('md') is env.locals['md'] and rb_[0][2].get('blocks') is env.locals['blocks']),
       'the blocks are rendered once, with the encoding render_blocks was given')
    if calls:
        ob('render_blocks.joins_with_its_encoding', bool(len(calls) == 1 and calls[0][2].get('encoding') is env.locals['encoding']
                                                         and rb_ and calls[0][2].get('rendered') is rb_[0][2].get('rendered')),
           'more than one piece: the pieces are joined by join_unicode with the same encoding')
        rets = [t for t in E.trace if t[0] == 'contract-ret' and t[1] == JU]
        ob('render_blocks.returns_the_joined_text', bool(rets and rets[-1][2] is value), 'and the joined text is returned')
    else:
        r = E.heap[rb_[0][2]['rendered'].addr] if rb_ else None
        n = E.list_len(r) if r is not None else None
        n = z3.IntVal(n) if isinstance(n, int) else n
        ob('render_blocks.no_join_only_for_0_or_1_pieces', (n <= 1) if n is not None else False, 'no join only for zero or one piece')


contract(JU, params=dict(rendered=ListS(), encoding=Opaque()), raises_any=True, returns=Str())
contract(RB, variant='C19', params=dict(blocks=Seq(), md=TD(), encoding=Opaque()), exit_hook=_rb_exit, uses=[RB_, JU])
RENDER = [RB + '#C19']


# ------------------------------------------------------------------ ustr
def _ustr_exit(kind):
    def hook(E, outcome, value, env, prefix):
        ob = _ob(E, prefix)
        v = env.locals['v']
        calls = [t for t in E.trace if t[0] == 'call']
        if kind in ('str', 'bytes'):
            ob('ustr.%s_returned_as_is' % kind, bool(outcome == 'normal' and value is v and not calls), 'a %s value is returned as it is' % kind)
            return
        if kind == 'object':
            # only the value's own __str__ is called; its str/bytes result is returned, anything else is a ValueError
            own = [c for c in calls if not c[1].endswith('__str__') and c[1] not in ('str()',)]
            ob('ustr.only_the_values_own_str_is_called', bool(not own), "only the value's own __str__ (or str()) is invoked")
            if outcome == 'raise' and not value.sym:
                ob('ustr.raises_only_for_misbehaving_str', bool(value.cls == 'ValueError'),
                   'conversion raises by itself only when __str__ returns neither str nor bytes (ValueError)')
            return
    return hook


contract(USTR, variant='C19.str', params=dict(v=Str()), exit_hook=_ustr_exit('str'))
contract(USTR, variant='C19.bytes', params=dict(v=Opaque(types={'bytes': True})), exit_hook=_ustr_exit('bytes'))
contract(USTR, variant='C19.object', params=dict(v=Opaque(types={'bytes': False, 'str': False})), exit_hook=_ustr_exit('object'),
         uses=['DocumentTemplate.ustr._exception_str'])
USTRV = [USTR + '#C19.str', USTR + '#C19.bytes', USTR + '#C19.object']


def _exc_state(nargs):
    def hook(E, env):
        args = [VO('arg%d' % i) for i in range(nargs)]
        env.locals['exc'] = VExc('ValueError', args)
        env.locals['__g_args'] = VT(args)
    return hook


def _exc_exit(nargs):
    def hook(E, outcome, value, env, prefix):
        ob = _ob(E, prefix)
        args = env.locals['__g_args'].items
        us = [t for t in E.trace if t[0] == 'contract-call' and t[1] == USTR]
        rets = [t for t in E.trace if t[0] == 'contract-ret' and t[1] == USTR]
        if nargs == 0:
            ob('ustr.exception_without_arguments_is_empty', bool(outcome == 'normal' and isinstance(value, VC) and value.v == '' and not us),
               'an exception without arguments converts to the empty string')
        elif nargs == 1:
            if outcome == 'normal':
                ob('ustr.exception_with_one_argument_is_its_message', bool(len(us) == 1 and us[0][2].get('v') is args[0] and rets and rets[-1][2] is value),
                   'an exception with one argument converts to the string form of that argument (bytes stay bytes, no repr)')
            else:
                ob('ustr.exception_with_one_argument_is_its_message', bool(value.sym and len(us) == 1), 'raises only what converting the argument raises')
        else:
            ob('ustr.exception_with_several_arguments_is_str_of_the_tuple', bool(outcome == 'normal' and not us and E.is_strlike(value)),
               'an exception with several arguments converts to str(args)')
    return hook


EXC = []
for _k in (0, 1, 2):
    contract('DocumentTemplate.ustr._exception_str', variant='args%d' % _k, params=dict(exc=NoneV()),
             pre_hook=_exc_state(_k), exit_hook=_exc_exit(_k), uses=[USTR])
    EXC.append('DocumentTemplate.ustr._exception_str#args%d' % _k)


def _ustr_exc_exit(E, outcome, value, env, prefix):
    ob = _ob(E, prefix)
    cs = [t for t in E.trace if t[0] == 'contract-call' and t[1] == 'DocumentTemplate.ustr._exception_str']
    ob('ustr.exceptions_use_their_message', bool(len(cs) == 1 and cs[0][2].get('exc') is env.locals['v']),
       'an exception object is converted through its arguments (never through a failing __str__)')


contract('DocumentTemplate.ustr._exception_str', params=dict(exc=Opaque()), raises_any=True, returns=Opaque())
contract(USTR, variant='C19.exception', params=dict(v=NoneV()),
         pre_hook=lambda E, env: env.locals.__setitem__('v', VExc('ValueError', [VO('arg0')])),
         exit_hook=_ustr_exc_exit, uses=['DocumentTemplate.ustr._exception_str'])
USTRV.append(USTR + '#C19.exception')


# ------------------------------------------------------------------ html_quote: bytes are decoded before escaping
def _hq_exit(enc_given):
    def hook(E, outcome, value, env, prefix):
        ob = _ob(E, prefix)
        if outcome != 'normal':
            ob('html_quote.raises_only_decode_errors', bool(value.cls == 'ValueError'), 'only decoding can fail')
            return
        decs = [t for t in E.trace if t[0] == 'decode']
        v = env.locals['v']
        ok = len(decs) == 1 and decs[0][1] is v
        ob('html_quote.bytes_decoded_once_before_escaping', bool(ok), 'a bytes value is decoded (once) before it is escaped')
        if not ok:
            return
        if enc_given:
            ob('html_quote.decodes_with_the_given_encoding', bool(decs[0][2] is env.locals['encoding']), 'with the encoding passed in')
        else:
            ob('html_quote.without_encoding_latin1', bool(isinstance(decs[0][2], VC) and decs[0][2].v == 'Latin-1'), 'Latin-1 when none is passed')
        ob('html_quote.escapes_the_decoded_text', E.as_z3_str(value) == html_escape_term(DEC(v.t, E.to_val(decs[0][2]))),
           'the result is html.escape(decoded text)')
    return hook


contract(HQ, variant='C19.bytes', params=dict(v=Opaque(types={'bytes': True}), name=Default(), md=Default(), encoding=Opaque()),
         requires=["truthy_(encoding)"], exit_hook=_hq_exit(True))
contract(HQ, variant='C19.bytes.noenc', params=dict(v=Opaque(types={'bytes': True}), name=Default(), md=Default(), encoding=NoneV()),
         exit_hook=_hq_exit(False))
HQV = [HQ + '#C19.bytes', HQ + '#C19.bytes.noenc']


# ------------------------------------------------------------------ the full dtml-var path: which encoding decodes a bytes value?
from contracts.dt_var import _render_state, VAR, GI as _GI, HAS as _HAS  # noqa


def _full_state(args, use_modifier):
    def hook(E, env):
        _render_state(args, 0)(E, env)
        me = E.heap[env.locals['self'].addr]
        me.fields['encoding'] = VO('self.encoding')
        if use_modifier:
            me.fields['modifiers'] = VT([E.lookup_qual(HQ)])
    return hook


def _bytes_hook(E, loc):
    return loc['v'] if E.tfacts.get((getattr(loc['v'], 'name', None), 'bytes')) else None


contract(USTR, variant='bytes_or_str', params=dict(v=Opaque()), raises_any=True, returns=Str(),
         call_hook=lambda E, loc: loc['v'] if (E.is_strlike(loc['v']) or E.tfacts.get((getattr(loc['v'], 'name', None), 'bytes'))) else None)
contract(_GI, variant='bytes', params=dict(self=TD(), name=Opaque()), raises_any=True, returns=Opaque(types={'bytes': True}),
         ensures=dict(stack="stack_unchanged(self)", level="level_of(self) == old(level_of(self))"))


def _full_exit(E, outcome, value, env, prefix):
    ob = _ob(E, prefix)
    decs = [t for t in E.trace if t[0] == 'decode']
    if outcome != 'normal' or not decs:
        return
    me = E.heap[env.locals['self'].addr]
    ob('full_path_decodes_with_template_encoding', bool(all(t[2] is me.fields['encoding'] for t in decs)),
       'a bytes value quoted on the full dtml-var path is decoded with the encoding of the template (the tag\'s encoding), '
       'as on the simple-form path')


FULLV = []
for _tag, _args, _um in (('modifier', {'': 'x', 'null': 'NULL'}, True), ('fmt', {'': 'x', 'fmt': 'html-quote'}, False)):
    contract(VAR + '.render', variant='C19.' + _tag, params=dict(self=NoneV(), md=TD()),
             pre_hook=_full_state(_args, _um), exit_hook=_full_exit, uses=[_GI + '#bytes', _HAS, USTR + '#bytes_or_str'])
    FULLV.append(VAR + '.render#C19.' + _tag)
