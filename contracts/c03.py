"""C03: html_quote / &dtml-name; output is exactly the HTML-escaped value (string VCs, z3 then cvc5)."""
import z3
from pyvc.contracts import *  # noqa
from pyvc.values import *  # noqa
from pyvc.library import html_escape_term
from contracts.core import M

GI = M + '.TemplateDict.__getitem__'
contract(GI, variant='str', params=dict(self=TD(), name=Opaque()), raises_any=True, returns=Str(),
         ensures=dict(stack="stack_unchanged(self)", level="level_of(self) == old(level_of(self))"))


NAME = object()


def _blocks_state(block):
    def hook(E, env):
        # the variable name is ANY string (symbolic): a name must not be mistaken for a marker of the block format
        env.locals['blocks'] = E.alloc(HList([VT([VS(z3.String('varname')) if x is NAME else VC(x) for x in block])]))
        env.locals['rendered'] = E.alloc(HList([]))
        env.locals['__g_rendered'] = env.locals['rendered']
    return hook


def _v_exit(quoted):
    def hook(E, outcome, value, env, prefix):
        ob = lambda n, c, d: E.oblige('%s::C03.%s' % (prefix, n), c, kind='post', detail=d)  # noqa
        if outcome != 'normal':
            return
        rets = [t for t in E.trace if t[0] == 'contract-ret' and t[1] == GI]
        out = E.heap[env.locals['__g_rendered'].addr].items
        ob('one_lookup', bool(len(rets) == 1), 'the value is looked up exactly once')
        if len(rets) != 1:
            return
        t = E.as_z3_str(rets[0][2])
        if len(out) == 0:
            ob('nothing_inserted_only_for_the_empty_string', t == z3.StringVal(''), 'nothing is inserted only when the value is the empty string')
            return
        ob('one_piece', bool(len(out) == 1), 'the tag inserts exactly one piece')
        if len(out) != 1:
            return
        o = out[0]
        if not E.is_strlike(o):
            ob('text', False, 'the piece inserted is text')
            return
        if quoted:
            ob('entity_output_is_exactly_the_escaped_value', E.as_z3_str(o) == html_escape_term(t),
               'the text inserted for &dtml-name; / <dtml-var name html_quote> is html.escape(value, quote=True), whichever internal '
               'path (fast or full) is taken')
        else:
            ob('plain_insertion_leaves_strings_unchanged', E.as_z3_str(o) == t, 'plain insertion leaves an ordinary string unchanged')
    return hook


RB_ = M + '.render_blocks_'
contract(RB_, variant='C03.quoted', params=dict(blocks=NoneV(), rendered=NoneV(), md=TD(), encoding=Opaque()),
         pre_hook=_blocks_state(('v', NAME, 'h')), exit_hook=_v_exit(True), uses=[GI + '#str'])
contract(RB_, variant='C03.plain', params=dict(blocks=NoneV(), rendered=NoneV(), md=TD(), encoding=Opaque()),
         pre_hook=_blocks_state(('v', NAME)), exit_hook=_v_exit(False), uses=[GI + '#str'])


def _hq_exit(E, outcome, value, env, prefix):
    ob = lambda n, c, d: E.oblige('%s::C03.%s' % (prefix, n), c, kind='post', detail=d)  # noqa
    ok = outcome == 'normal' and E.is_strlike(value)
    ob('html_quote_is_escape', (E.as_z3_str(value) == html_escape_term(z3.String('v'))) if ok else False,
       'html_quote(s) == html.escape(s, quote=True) for a string s')


contract('DocumentTemplate.html_quote.html_quote', variant='C03', params=dict(v=Str(), name=Default(), md=Default(), encoding=Opaque()),
         exit_hook=_hq_exit)
C03 = [RB_ + '#C03.quoted', RB_ + '#C03.plain', 'DocumentTemplate.html_quote.html_quote#C03']
