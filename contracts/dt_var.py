"""Contracts for DocumentTemplate.DT_Var (C15 pipeline, C04 taint, C03 quoting)."""
import z3
from pyvc.contracts import *  # noqa
from pyvc.values import *  # noqa
from pyvc import spec as _spec
from contracts.core import M

DV = 'DocumentTemplate.DT_Var'
VAR = DV + '.Var'

# the documented, fixed order of the value modifiers
ORDER = ['html_quote', 'url_quote', 'url_quote_plus', 'url_unquote', 'url_unquote_plus', 'newline_to_br', 'lower', 'upper',
         'capitalize', 'spacify', 'thousands_commas', 'sql_quote']


def _ob(E, prefix, tag='C15'):
    return lambda n, c, d: E.oblige('%s::%s.%s' % (prefix, tag, n), c, kind='post', detail=d)


def _fname(f):
    if isinstance(f, VFn):
        return f.qual.rsplit('.', 1)[1]
    return getattr(f, 'name', repr(f))


# ------------------------------------------------------------------ Var.__init__: option parsing, fixed modifier order
def _init_exit(requested, written):
    def hook(E, outcome, value, env, prefix):
        ob = _ob(E, prefix)
        if outcome != 'normal':
            ob('init.accepts', False, 'a valid dtml-var tag is accepted (%s raised)' % value.cls)
            return
        me = E.heap[env.locals['self'].addr]
        mods = me.fields.get('modifiers')
        names = [_fname(f) for f in (mods.items if isinstance(mods, VT) else [])]
        want = [n for n in ORDER if n in requested]
        ob('init.modifiers_in_fixed_order', bool(names == want),
           'the modifiers applied are exactly those requested, each once, in the fixed documented order whatever order they are '
           'written in (written: %s; compiled: %s)' % (' '.join(written), ' '.join(names)))
    return hook


INIT = []
for _i, _written in enumerate((
        ['upper', 'lower'], ['lower', 'upper'], ['sql_quote', 'html_quote', 'url_quote'], ['spacify', 'capitalize', 'newline_to_br'],
        ['url_unquote'], ['url_unquote_plus', 'url_quote_plus'], ['thousands_commas', 'upper', 'html_quote'],
        list(reversed(ORDER)), list(ORDER))):
    _tag = 'order%d' % _i
    contract(VAR + '.__init__', variant=_tag,
             params=dict(self=Obj(VAR, lazy=False, prov='fresh'), args=Const('x ' + ' '.join(_written)), fmt=Const('s'), encoding=NoneV()),
             exit_hook=_init_exit(set(_written), _written))
    INIT.append(VAR + '.__init__#' + _tag)


# ------------------------------------------------------------------ Var.render: the pipeline
USTR = 'DocumentTemplate.ustr.ustr'
GI = M + '.TemplateDict.__getitem__'
HAS = M + '.TemplateDict.__contains__'

contract(M + '.TemplateDict.__contains__', params=dict(self=TD(), key=Opaque()), raises_any=False, returns=Bool())
def _ustr_hook(E, loc):
    """ustr(v) is v itself for a str (proved for the real ustr in C19: clause str_returned_as_is)"""
    v = loc['v']
    if E.is_strlike(v):
        return v
    return None


contract(USTR, variant='str', params=dict(v=Opaque()), raises_any=True, returns=Str(), call_hook=_ustr_hook)


def _render_state(args, nmods=0, fmt='s', str_mods=True):
    def hook(E, env):
        cls = E.lookup_qual(VAR)
        d = HDict()
        d.entries = [[VC(k), (VC(v) if not isinstance(v, V) else v)] for k, v in args.items()]
        proto = str_mods if callable(str_mods) else ('str-valued' if str_mods else None)
        mods = VT([VO('mod%d' % i, proto) for i in range(nmods)])
        me = E.alloc(HObj(cls, {'args': E.alloc(d), 'modifiers': mods, '__name__': VC('x'), 'expr': NONE, 'fmt': VC(fmt),
                                'encoding': NONE}, name='self'))
        env.locals['self'] = me
    return hook


def _events(E):
    """the stages as they appear on the ghost trace"""
    ev = []
    for t in E.trace:
        if t[0] == 'contract-call' and t[1] == GI:
            ev.append(('lookup', t[2].get('name')))
        elif t[0] == 'contract-call' and t[1] == HAS:
            ev.append(('defined?', t[2].get('key')))
        elif t[0] == 'contract-call' and t[1] == USTR:
            ev.append(('ustr', t[2].get('v')))
        elif t[0] == 'contract-ret' and t[1] in (GI, USTR):
            ev.append(('ret', t[2]))
        elif t[0] == 'call':
            ev.append(('call', t[1], t[4]))
        elif t[0] == 'returned':
            ev.append(('ret', t[3]))
    return ev


def _trunc_exit(E, outcome, value, env, prefix):
    """size/etc truncation of a plain string (no format, no modifiers)"""
    ob = _ob(E, prefix)
    if outcome != 'normal':
        return
    ev = _events(E)
    us = [e for i, e in enumerate(ev) if e[0] == 'ret' and i > 0 and ev[i - 1][0] == 'ustr']
    if not us:
        return      # a tainted value keeps its wrapper through the pipeline (C04); plain values are converted by ustr
    s = E.as_z3_str(us[-1][1])
    size = z3.Int('size')
    etc = z3.String('etc')
    r = E.as_z3_str(value)
    n = z3.Length(s)
    cut = z3.SubString(s, 0, size)
    l = z3.LastIndexOf(cut, z3.StringVal(' '))
    k = z3.If(2 * l > size, l + 1, size)
    ob('truncate.short_values_untouched', z3.Implies(n <= size, r == s), 'a value no longer than size is left untouched')
    ob('truncate.cut_and_etc', z3.Implies(z3.And(n > size, size >= 0), r == z3.Concat(z3.SubString(s, 0, k), etc)),
       'a longer value becomes its first k characters followed by etc, k == size, or l+1 when the last blank of the first size '
       'characters (position l) lies in the second half (l > size/2)')
    ob('truncate.at_most_size_characters_of_the_value', z3.Implies(z3.And(n > size, size >= 0), z3.And(k <= size, k >= 0)),
       'at most size characters of the value are emitted')


def _trunc_state(E, env):
    _render_state({'': 'x', 'size': VI(z3.Int('size')), 'etc': VS(z3.String('etc'))})(E, env)


contract(VAR + '.render', variant='truncate', params=dict(self=NoneV(), md=TD()),
         pre_hook=_trunc_state, exit_hook=_trunc_exit, uses=[GI, HAS, USTR + '#str'])


# ---- stage order: lookup -> missing/null -> fmt -> C-format -> modifiers (table order) -> size/etc -> quoting of tainted values
def _order_exit(nmods, has_null, has_missing, fmtkind):
    def hook(E, outcome, value, env, prefix):
        ob = _ob(E, prefix)
        ev = _events(E)
        kinds = [e[0] if e[0] != 'call' else 'call:' + e[1] for e in ev if e[0] != 'ret']
        defined = [e for e in ev if e[0] == 'defined?']
        ob('pipeline.name_checked_first', bool(kinds[:1] == ['defined?']), 'the name is resolved first')
        mods = [e for e in ev if e[0] == 'call' and e[1].startswith('mod')]
        ended_early = isinstance(value, VC) and value.v in ('NULL', 'MISSING')
        # modifiers: each once, in table order, each fed with the previous stage's result
        names = [e[1] for e in mods]
        if outcome == 'normal' and not ended_early:
            idx = [int(n[3:]) for n in names]
            skipped = [i for i in range(nmods) if i not in idx]
            cn = z3.Function('class_name', Val, z3.StringSort())
            skip_ok = all(E.valid(cn(z3.Const('mod%d' % i, Val)) == z3.StringVal('html_quote')) for i in skipped)
            ob('pipeline.modifiers_folded_in_table_order', bool(idx == sorted(set(idx)) and skip_ok),
               'modifiers are applied in the order of the compiled table, each exactly once; only html_quote is skipped, and only '
               'for a tainted value, which is quoted at the end anyway (%s)' % names)
        # data flow: every stage consumes the previous stage's output
        flow_ok = True
        last = None
        for i, e in enumerate(ev):
            if e[0] == 'ret':
                last = e[1]
            elif e[0] == 'ustr' and last is not None:
                flow_ok = flow_ok and (e[1] is last)
            elif e[0] == 'call' and e[1].startswith('mod') and last is not None:
                flow_ok = flow_ok and len(e[2]) == 1 and e[2][0] is last
        if fmtkind is None and E.heap[env.locals['self'].addr].fields['fmt'].v == 's':
            ob('pipeline.each_stage_consumes_the_previous_result', bool(flow_ok), 'each stage is applied to the previous stage\'s result')
        # missing= / null=
        hasret = [e[1] for i, e in enumerate(ev) if e[0] == 'ret' and i > 0 and ev[i - 1][0] == 'defined?']
        lookups = [e for e in ev if e[0] == 'lookup']
        if hasret:
            present = E.as_z3_bool(hasret[0])
            present = z3.BoolVal(present) if isinstance(present, bool) else present
            if E.valid(z3.Not(present)):
                if has_missing:
                    ob('pipeline.missing_replaces_undefined_name', bool(outcome == 'normal' and isinstance(value, VC) and value.v == 'MISSING'
                                                                        and not lookups and not mods),
                       'an undefined name yields the missing= text and nothing else happens')
                else:
                    ob('pipeline.undefined_name_is_keyerror', bool(outcome == 'raise' and value.cls == 'KeyError' and not value.sym and not lookups),
                       'without missing= an undefined name raises KeyError(name)')
            elif E.valid(present):
                ob('pipeline.defined_name_is_looked_up_once', bool(len(lookups) == 1 and isinstance(lookups[0][1], VC) and lookups[0][1].v == 'x'),
                   'a defined name is looked up exactly once (called if callable: namespace rule)')
        if has_null and outcome == 'normal' and lookups:
            vals = [e[1] for i, e in enumerate(ev) if e[0] == 'ret' and i > 0 and ev[i - 1][0] == 'lookup']
            if vals:
                v = vals[0]
                t = E.truth_term(v)
                t = z3.BoolVal(t) if isinstance(t, bool) else t
                from pyvc import ops as _ops
                z = _ops.val_eq(E, v, VC(0))
                z = z3.BoolVal(z) if isinstance(z, bool) else z
                isnull = z3.And(z3.Not(t), z3.Not(z))
                if isinstance(value, VC) and value.v == 'NULL':
                    ob('pipeline.null_only_for_null_values', isnull, 'null= is used only for a value that is false and not 0')
                    ob('pipeline.null_ends_the_pipeline', bool(not mods and 'ustr' not in kinds), 'a null value is not formatted further')
                else:
                    ob('pipeline.non_null_values_continue', z3.Not(isnull), 'a value that is true, or 0, is never replaced by null=')
        if fmtkind == 'mymethod' and outcome == 'normal' and not ended_early:
            ms = [i for i, k in enumerate(kinds) if k.endswith('.mymethod')]
            reads = [t for t in E.trace if t[0] == 'attr-read' and t[2] == 'mymethod']
            if ms:
                ob('pipeline.method_format_before_string_form', bool(len(ms) == 1 and ('ustr' not in kinds or ms[0] < kinds.index('ustr'))
                                                                     and ('call:mod0' not in kinds or ms[0] < kinds.index('call:mod0'))),
                   'fmt=<method> calls that method of the value (once) before anything else is applied')
        ik = {k: i for i, k in reversed(list(enumerate(kinds)))}
        if 'ustr' in ik and mods:
            ob('pipeline.string_form_before_modifiers', bool(ik['ustr'] < kinds.index('call:mod0')), 'string conversion precedes the modifiers')
        if 'lookup' in ik and 'ustr' in ik:
            ob('pipeline.lookup_before_string_form', bool(ik['lookup'] < ik['ustr']), 'the value is looked up before it is formatted')
    return hook


ORDERV = []
for _tag, _args, _n, _cf in (('mods2', {'': 'x'}, 2, 's'), ('mods3.size', {'': 'x', 'size': '10'}, 3, 's'),
                             ('null.mods1', {'': 'x', 'null': 'NULL'}, 1, 's'),
                             ('missing.mods1', {'': 'x', 'missing': 'MISSING'}, 1, 's'),
                             ('fmt.method.mods1', {'': 'x', 'fmt': 'mymethod'}, 1, 's'),
                             ('fmt.special.mods1', {'': 'x', 'fmt': 'collection-length'}, 1, 's'),
                             ('cformat.mods1', {'': 'x'}, 1, 'd')):
    contract(VAR + '.render', variant='order.' + _tag, params=dict(self=NoneV(), md=TD()),
             pre_hook=_render_state(_args, _n, fmt=_cf), exit_hook=_order_exit(_n, 'null' in _args, 'missing' in _args, _args.get('fmt')),
             uses=[GI, HAS, USTR + '#str'])
    ORDERV.append(VAR + '.render#order.' + _tag)


# ------------------------------------------------------------------ modifier functions
from pyvc.strings import replace_all as _ra  # noqa


def _sv(s):
    return z3.StringVal(s)


def _mod_exit(want, text, extra=None):
    def hook(E, outcome, value, env, prefix):
        ob = _ob(E, prefix)
        v = z3.String('val') if 'val' in env.locals else z3.String('v')
        ok = outcome == 'normal' and E.is_strlike(value)
        ob('modifier.value', (E.as_z3_str(value) == want(v)) if ok else False, text)
        if ok and extra:
            for nm, (f, t) in extra.items():
                ob('modifier.' + nm, f(v, E.as_z3_str(value)), t)
    return hook


_U = lambda n: z3.Function('str_' + n, z3.StringSort(), z3.StringSort())  # noqa
MODS = []
for _n in ('lower', 'upper', 'capitalize'):
    contract(DV + '.' + _n, variant='C15', params=dict(val=Str()),
             exit_hook=_mod_exit(lambda v, _n=_n: _U(_n)(v), '%s equals the string method str.%s' % (_n, _n)))
    MODS.append(DV + '.' + _n + '#C15')
contract(DV + '.spacify', variant='C15', params=dict(val=Str()),
         exit_hook=_mod_exit(lambda v: _ra(v, _sv('_'), _sv(' ')), "spacify replaces every underscore by a blank (str.replace('_', ' '))"))
MODS.append(DV + '.spacify#C15')


def _sql(v):
    for ch in ('\x00', '\x1a', '\r'):
        v = _ra(v, _sv(ch), _sv(''))
    return _ra(v, _sv("'"), _sv("''"))


contract(DV + '.sql_quote', variant='C15', params=dict(v=Str(), name=Default(), md=Default()),
         exit_hook=_mod_exit(_sql, "sql_quote removes NUL, Ctrl-Z and CR and then doubles every single quote"))
MODS.append(DV + '.sql_quote#C15')
for _n, _lib in (('url_quote', 'quote'), ('url_quote_plus', 'quote_plus'), ('url_unquote', 'unquote'), ('url_unquote_plus', 'unquote_plus')):
    contract(DV + '.' + _n, variant='C15', params=dict(v=Str(), name=Default(), md=Default()),
             exit_hook=_mod_exit(lambda v, _lib=_lib: z3.Function('urllib.' + _lib, z3.StringSort(), z3.StringSort())(v),
                                 '%s(v) is urllib.parse.%s(str(v))' % (_n, _lib)))
    MODS.append(DV + '.' + _n + '#C15')


# ------------------------------------------------------------------ C03: the full dtml-var path quotes like the simple form
from pyvc.library import html_escape_term  # noqa


def _full_state(args, use_modifier):
    def hook(E, env):
        _render_state(args, 0)(E, env)
        if use_modifier:
            me = E.heap[env.locals['self'].addr]
            me.fields['modifiers'] = VT([E.lookup_qual('DocumentTemplate.html_quote.html_quote')])
    return hook


def _full_exit(E, outcome, value, env, prefix):
    ob = _ob(E, prefix, 'C03')
    if outcome != 'normal' or (isinstance(value, VC) and value.v in ('NULL', 'MISSING')):
        return
    ev = _events(E)
    us = [e[1] for i, e in enumerate(ev) if e[0] == 'ret' and i > 0 and ev[i - 1][0] == 'ustr']
    tainted = any(t[0] == 'call' and t[1].endswith('.quoted') for t in E.trace)
    if tainted:
        return          # tainted values: C04
    if any(t[0] == 'call' for t in E.trace):
        return          # the value has a method named like the format: method formats take precedence (documented order)
    if not us or not E.is_strlike(value):
        ob('full_path_output_is_exactly_the_escaped_value', False, 'the full dtml-var path did not produce text from the string form of the value')
        return
    ob('full_path_output_is_exactly_the_escaped_value', E.as_z3_str(value) == html_escape_term(E.as_z3_str(us[0])),
       'with html_quote among other options (or fmt=html-quote) the output is html.escape(string form of the value): the same text '
       'as the simple form')


FULL = []
for _tag, _args, _um in (('modifier', {'': 'x', 'null': 'NULL'}, True), ('modifier.missing', {'': 'x', 'missing': 'MISSING'}, True),
                         ('fmt', {'': 'x', 'fmt': 'html-quote'}, False)):
    contract(VAR + '.render', variant='C03.' + _tag, params=dict(self=NoneV(), md=TD()),
             pre_hook=_full_state(_args, _um), exit_hook=_full_exit, uses=[GI, HAS, USTR + '#str'])
    FULL.append(VAR + '.render#C03.' + _tag)


def _simple_exit(want):
    def hook(E, outcome, value, env, prefix):
        ob = _ob(E, prefix, 'C03')
        me = E.heap[env.locals['self'].addr]
        sf = me.fields.get('simple_form')
        got = tuple(x.v if isinstance(x, VC) else '?' for x in sf.items) if isinstance(sf, VT) else None
        ob('simple_form', bool(outcome == 'normal' and got == want),
           'the tag compiles to the simple form %r (got %r)' % (want, got))
    return hook


SIMPLE = []
for _i, (_a, _w) in enumerate((('x html_quote', ('v', 'x', 'h')), ('x', ('v', 'x')), ('name=x html_quote', ('v', 'x', 'h')),
                               ('x html_quote null=""', None), ('x upper', None))):
    contract(VAR + '.__init__', variant='C03.simple%d' % _i,
             params=dict(self=Obj(VAR, lazy=False, prov='fresh'), args=Const(_a), fmt=Const('s'), encoding=NoneV()),
             exit_hook=_simple_exit(_w))
    SIMPLE.append(VAR + '.__init__#C03.simple%d' % _i)


# ------------------------------------------------------------------ C15: the C-style format stage is never skipped by the shortcut
# %(x html_quote).2f / %(x)05d: only a tag with the plain format 's' may compile to the renderer's shortcut form
# (('v', name[, 'h']) blocks are inserted without Var.render, i.e. without the format stage)
def _cformat_exit(E, outcome, value, env, prefix):
    ob = _ob(E, prefix, 'C15')
    if outcome != 'normal':
        return
    me = E.heap[env.locals['self'].addr]
    ob('init.no_shortcut_form_with_a_c_format', bool('simple_form' not in me.fields),
       'a tag with a C-style format other than plain s does not compile to the shortcut form: its value goes through the '
       'format stage of the pipeline')


CFORMAT = []
for _i, (_a, _f) in enumerate((('x html_quote', '.2f'), ('x', '05d'), ('name=x html_quote', '10s'), ('x html_quote', 'd'))):
    contract(VAR + '.__init__', variant='C15.cformat%d' % _i,
             params=dict(self=Obj(VAR, lazy=False, prov='fresh'), args=Const(_a), fmt=Const(_f), encoding=NoneV()),
             exit_hook=_cformat_exit)
    CFORMAT.append(VAR + '.__init__#C15.cformat%d' % _i)
