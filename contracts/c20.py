"""C20: tree state codec -- the exactly decidable parts.  (The codec round trip for all lengths, apply_diff and the click
histories are bounded stand-ins in native/c20.py, labelled as such.)"""
import ast
import os


def codec_obligations():
    from pyvc.engine import REPO_SRC
    out = []

    def ob(oid, ok, detail, backend='ast'):
        out.append(dict(oid='C20.codec.' + oid, kind='structural', status='discharged' if ok else 'refuted', paths=1, backends=[backend], ms=0,
                        model=None, detail=detail, havoced=False))
    path = os.path.join(REPO_SRC, 'TreeDisplay', 'TreeTag.py')
    tree = ast.parse(open(path).read())
    fns = {n.name: n for n in ast.walk(tree) if isinstance(n, ast.FunctionDef)}
    # 1. translation tables (finite: all 256 byte values), computed from the module-level assignments of the real source
    env = {}
    for st in tree.body:
        if isinstance(st, ast.Assign) and isinstance(st.targets[0], ast.Name) and st.targets[0].id in ('tbl', 'tplus', 'tminus'):
            exec(compile(ast.Module([st], []), path, 'exec'), env)
    tplus, tminus = env.get('tplus'), env.get('tminus')
    alphabet = b'ABCDEFGHIJKLMNOPQRSTUVWXYZabcdefghijklmnopqrstuvwxyz0123456789+/'
    ok = isinstance(tplus, bytes) and isinstance(tminus, bytes) and len(tplus) == 256 and len(tminus) == 256
    ob('tables_are_total', ok, 'tplus / tminus are 256-entry translation tables', 'finite-enumeration')
    if ok:
        ob('tminus_inverts_tplus_on_the_base64_alphabet', all(tminus[tplus[c]] == c for c in alphabet),
           'translate(tminus) undoes translate(tplus) on every base64 character (all 64 checked)', 'finite-enumeration')
        ob('tplus_only_replaces_plus', all(tplus[c] == c for c in range(256) if c != ord('+')) and tplus[ord('+')] == ord('-'),
           'tplus changes + to - and nothing else (all 256 byte values checked); - is not a base64 character, so the change is unambiguous',
           'finite-enumeration')
    # (the chunk sizes, newline stripping, padding removal / restoration and the order of the steps used to be AST pattern
    # obligations here; they are now consequences of the contracts on the real function bodies below)
    if ok:
        ob('tables_keep_ascii_ascii', all(tplus[c] < 128 and tminus[c] < 128 for c in range(128)),
           'both tables map 0..127 into 0..127 (so translated base64 text is still ASCII)', 'finite-enumeration')
    return out


# =====================================================================================================================
# The codec functions under contract (symbolic bytes model, pyvc/bytesmodel.py): chunk loops, newline stripping, padding
# removal / restoration, translation and the compression / JSON layers, for every length.
# =====================================================================================================================
import z3  # noqa: E402
from pyvc.contracts import *  # noqa: E402,F401,F403
from pyvc.values import *  # noqa: E402,F401,F403
from pyvc import spec as _spec  # noqa: E402
from pyvc import bytesmodel as BM  # noqa: E402

TT = 'TreeDisplay.TreeTag'


def _sz(E, v):
    return BM.bz(E, v) if BM.is_bytes(v) else E.as_z3_str(v)


def _table(E, name):
    v = E.module_attr(TT, name)
    if not (isinstance(v, VC) and isinstance(v.v, bytes) and len(v.v) == 256):
        from pyvc.engine import Unsupported
        raise Unsupported('TreeTag.%s is not a constant 256-byte table' % name)
    return v.v


def _sp_b64(E, x):
    return VBy(BM.ax_b64(E, _sz(E, x)))


def _sp_strip_pad(E, t):
    """the text up to the first '=' (all of it when there is none)"""
    s = _sz(E, t)
    k = z3.IndexOf(s, z3.StringVal('='), 0)
    return VBy(z3.If(k >= 0, z3.SubString(s, 0, k), s))


def _sp_repad(E, t):
    """the text padded with '=' to a multiple of 4 characters"""
    s = _sz(E, t)
    k = z3.Length(s) % 4
    return VBy(z3.If(k == 0, s, z3.If(k == 1, z3.Concat(s, z3.StringVal('===')),
                                       z3.If(k == 2, z3.Concat(s, z3.StringVal('==')), z3.Concat(s, z3.StringVal('='))))))


def _sp_tr(name):
    def f(E, t):
        return VBy(BM.translate_fn(_table(E, name))(_sz(E, t)))
    return f


def _sp_bjoin(E, lst):
    return VBy(BM.bjoin_term(E, lst))


def _sp_as_text(E, b):
    return VS(_sz(E, b))


def _sp_as_bytes(E, s):
    return VBy(_sz(E, s))


def _sp_pred(fn):
    def f(E, x):
        return VB(fn(_sz(E, x)))
    return f


def _sp_fun(fn, out):
    def f(E, x):
        if fn is BM.unb64:
            E.assume(BM.unb64(z3.StringVal('')) == z3.StringVal(''))       # binascii: a2b_base64(b'') == b''
        return out(fn(_sz(E, x)))
    return f


def _sp_hint_b64_hom(E, x, y):
    return VB(BM.ax_b64_hom(E, _sz(E, x), _sz(E, y)))


def _sp_hint_unb64_hom(E, a, b):
    return VB(BM.ax_unb64_hom(E, _sz(E, a), _sz(E, b)))


def _sp_json_value(E, s):
    from pyvc.engine import VO_term
    return VO_term(BM.jl(_sz(E, s)), E.fresh('jv'))


for _n, _f in (('b64', _sp_b64), ('strip_pad', _sp_strip_pad), ('repad', _sp_repad), ('tr_plus', _sp_tr('tplus')),
               ('tr_minus', _sp_tr('tminus')), ('bjoin', _sp_bjoin), ('as_text', _sp_as_text), ('as_bytes', _sp_as_bytes),
               ('is_ascii_', _sp_pred(BM.is_ascii)), ('b64chars_', _sp_pred(BM.b64chars)), ('b64ok_', _sp_pred(BM.b64ok)),
               ('zok_', _sp_pred(BM.zok)), ('utf8ok_', _sp_pred(BM.utf8ok)), ('jok_', _sp_pred(BM.jok)),
               ('unb64', _sp_fun(BM.unb64, VBy)), ('zc', _sp_fun(BM.zc, VBy)), ('zd', _sp_fun(BM.zd, VBy)),
               ('utf8e', _sp_fun(BM.utf8e, VBy)), ('utf8d', _sp_fun(BM.utf8d, VS)),
               ('jdumps', lambda E, v: VS(BM.jd(E.to_val(v)))), ('jloads', _sp_json_value),
               ('axiom_b64_hom', _sp_hint_b64_hom), ('axiom_unb64_hom', _sp_hint_unb64_hom)):
    _spec.register(_n, _f)


def _bytes_list(*names):
    """pre-iteration hook: the named lists hold bytes only (so their abstract prefix may be joined)"""
    def hook(E, env):
        for n in names:
            v = env.locals.get(n)
            if isinstance(v, VRef) and E.heap[v.addr].base is not None:
                E.ghost[('bytes_list', E.heap[v.addr].base.name)] = True
    return hook


# ---- encode_str(state: bytes): URL-safe base64 text of the bytes, padding removed ----
ENC_LOOP = {1: dict(header='for i in range(0, l_, 57)',
                    inv={'C20.chunks_so_far_are_the_base64_of_the_prefix': "bjoin(states) == b64(state[:57 * __k_1])"},
                    havoc_heap=['states'], after_havoc=_bytes_list('states'), types={'i': 'int'},
                    hints=["axiom_b64_hom(state[:i], state[i:i + 57])"])}
contract(TT + '.encode_str', variant='C20',
         params=dict(state=Bytes()),
         ensures={'C20.codec.encode_str_is_translated_unpadded_base64': "result == tr_plus(strip_pad(b64(state)))",
                  'C20.codec.encode_str_output_is_ascii': "is_ascii_(result)"},
         raises=[], invariants=ENC_LOOP)

# ---- encode_seq(state): json -> utf-8 -> zlib -> the same chunked base64, as ASCII text ----
contract(TT + '.encode_seq', variant='C20',
         params=dict(state=Opaque()),
         ensures={'C20.codec.encode_seq_is_translated_unpadded_base64_of_the_compressed_json':
                  "result == as_text(tr_plus(strip_pad(b64(zc(utf8e(jdumps(state)))))))"},
         raises=[], invariants=ENC_LOOP)

# ---- compress / decompress: the type checks and the library layering ----
contract(TT + '.compress', variant='C20', params=dict(input=Str()),
         ensures={'C20.codec.compress_is_zlib_of_utf8': "result == zc(utf8e(input))"}, raises=[])
contract(TT + '.decompress', variant='C20', params=dict(input=Bytes()),
         requires=["zok_(input)", "utf8ok_(zd(input))"],
         ensures={'C20.codec.decompress_is_utf8_of_unzlib': "result == utf8d(zd(input))"}, raises=[])

# ---- decode_seq(text): undo the translation, restore the padding, decode in 76-character chunks, decompress, load ----
_T_TEXT = "tr_minus(as_bytes(state))"
_T_BYTES = "tr_minus(state)"


def _dec_contract(variant, spec, T):
    X = "utf8d(zd(unb64(repad(%s))))" % T
    contract(TT + '.decode_seq', variant=variant,
             params=dict(state=spec),
             # the domain of the round trip: URL-safe base64 text without padding, as encode_seq / encode_str produce it,
             # of a zlib stream of utf-8 text
             requires=(["is_ascii_(state)"] if isinstance(spec, Str) else []) + [
                 "b64chars_(%s)" % T, "b64ok_(repad(%s))" % T, "zok_(unb64(repad(%s)))" % T, "utf8ok_(zd(unb64(repad(%s))))" % T],
             ensures={'C20.codec.decode_seq_inverts_translation_padding_chunking_and_compression':
                      "implies(jok_(%s), val_is(result, jloads(%s)))" % (X, X),
                      'C20.codec.decode_seq_gives_the_empty_state_for_text_that_is_not_json':
                      "implies(not jok_(%s), len_of(result) == 0)" % X},
             raises=[],
             invariants={1: dict(header='for i in range(l_ // 76)',
                                 inv={'C20.position_is_a_multiple_of_76': "j == 76 * __k_1",
                                      'C20.chunks_so_far_decode_the_prefix': "bjoin(states) == unb64(state[:j])"},
                                 havoc_heap=['states'], after_havoc=_bytes_list('states'), types={'i': 'int', 'j': 'int', 'k': 'int'},
                                 hints=["axiom_unb64_hom(state[:j], state[j:j + 76])", "axiom_unb64_hom(state[j:j + 76], b'')"],
                                 exit_hints=["axiom_unb64_hom(state[:j], repad(state[j:]))", "axiom_unb64_hom(state[:j], b'')"])})


_dec_contract('C20.text', Str(), _T_TEXT)
_dec_contract('C20.bytes', Bytes(), _T_BYTES)
CODEC = [TT + '.encode_str#C20', TT + '.encode_seq#C20', TT + '.compress#C20', TT + '.decompress#C20',
         TT + '.decode_seq#C20.text', TT + '.decode_seq#C20.bytes']


# ---- the round trip, as a lemma over the two contracts and the assumed library axioms ----
class _Collect:
    """stands in for the engine when axiom instances are built outside a symbolic execution"""

    def __init__(self):
        self.lib_used = set()
        self.facts = []

    def assume(self, f):
        self.facts.append(f)


def roundtrip_lemma():
    from pyvc.run import Lemma
    from pyvc.engine import REPO_SRC  # noqa: F401

    def build():
        import ast as _ast
        # the tables as written in the source (the finite facts about them are obligations of their own, see codec_obligations)
        path = os.path.join(REPO_SRC, 'TreeDisplay', 'TreeTag.py')
        env = {}
        for st in _ast.parse(open(path).read()).body:
            if isinstance(st, _ast.Assign) and isinstance(st.targets[0], _ast.Name) and st.targets[0].id in ('tbl', 'tplus', 'tminus'):
                exec(compile(_ast.Module([st], []), path, 'exec'), env)
        trp, trm = BM.translate_fn(env['tplus']), BM.translate_fn(env['tminus'])
        C = _Collect()
        s = z3.Const('state', Val)
        J = BM.jd(s)
        U = BM.utf8e(J)
        X = BM.zc(U)
        B = BM.ax_b64(C, X)
        eq = z3.StringVal('=')
        k = z3.IndexOf(B, eq, 0)
        P = z3.If(k >= 0, z3.SubString(B, 0, k), B)                       # strip_pad(b64(X))
        enc = trp(P)                                                       # encode_seq's result (contract clause), as text
        T = trm(enc)                                                       # decode_seq: translation undone
        r = z3.Length(T) % 4
        RP = z3.If(r == 0, T, z3.If(r == 1, z3.Concat(T, z3.StringVal('===')),
                                    z3.If(r == 2, z3.Concat(T, z3.StringVal('==')), z3.Concat(T, eq))))   # repad(T)
        hyps = list(C.facts)
        # library round trips (assumed; the same statements the library models of pyvc/bytesmodel.py assume)
        hyps += [BM.zok(X), BM.zd(X) == U, BM.utf8ok(U), BM.utf8d(U) == J, BM.jok(J), BM.jl(J) == s]
        # translation tables: character-wise maps; tminus undoes tplus on alphabet text (finite enumeration obligation
        # C20.codec.tminus_inverts_tplus_on_the_base64_alphabet), ASCII stays ASCII
        t = z3.String('t!any')
        hyps += [z3.ForAll([t], z3.Implies(BM.b64chars(t), trm(trp(t)) == t)),
                 z3.ForAll([t], z3.Implies(BM.is_ascii(t), BM.is_ascii(trp(t)))),
                 z3.Implies(BM.is_ascii(B), BM.is_ascii(P)), z3.Implies(BM.b64chars(z3.SubString(B, 0, k)), BM.b64chars(P))]
        X2 = BM.utf8d(BM.zd(BM.unb64(RP)))
        goal = z3.And(BM.is_ascii(enc),                                    # decode_seq's preconditions hold on encode_seq's output ...
                      BM.b64chars(T), BM.b64ok(RP), BM.zok(BM.unb64(RP)), BM.utf8ok(BM.zd(BM.unb64(RP))),
                      BM.jok(X2), BM.jl(X2) == s)                          # ... and its result is the state that was encoded
        return hyps, goal
    return Lemma('C20.codec.lemma.decode_seq_inverts_encode_seq', build,
                 uses=[TT + '.encode_seq#C20', TT + '.decode_seq#C20.text'],
                 text='decode_seq(encode_seq(state)) == state for every state (any size, any ids): from the postcondition of encode_seq, '
                      'the pre/postcondition of decode_seq and the assumed library round trips (base64, zlib, utf-8, json) and table facts')


def lemma_hypotheses_canary():
    """vacuity guard: the hypotheses of the round-trip lemma must not be refutable"""
    from pyvc import smt
    hyps, goal = roundtrip_lemma().build()
    v, _m, be = smt.check(list(hyps))
    return [dict(oid='C20.codec.lemma.hypotheses_not_contradictory', kind='vacuity', status='refuted' if v == 'unsat' else 'discharged',
                 paths=1, backends=[be], ms=0, model=None, havoced=False,
                 detail='the library axioms and contract clauses the round-trip lemma rests on are not contradictory '
                        '(solver verdict on their conjunction: %s; unsat would make the lemma vacuous)' % v)]
