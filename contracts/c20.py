"""C20: tree state codec -- the exactly decidable parts.  (The codec round trip for all lengths, apply_diff and the click
histories are bounded stand-ins in native/c20.py, labelled as such.)"""
import ast
import os


def codec_obligations():
    from pyvc.engine import REPO_SRC
    out = []

    def ob(oid, ok, detail, backend='ast'):
        out.append(dict(oid='C20.codec.' + oid, kind='structural', status='discharged' if ok else 'refuted', paths=1, backends=[backend], ms=0,
                        model=None, detail=detail, havoced=False))
    path = os.path.join(REPO_SRC, 'TreeDisplay', 'TreeTag.py')
    tree = ast.parse(open(path).read())
    fns = {n.name: n for n in ast.walk(tree) if isinstance(n, ast.FunctionDef)}
    # 1. translation tables (finite: all 256 byte values), computed from the module-level assignments of the real source
    env = {}
    for st in tree.body:
        if isinstance(st, ast.Assign) and isinstance(st.targets[0], ast.Name) and st.targets[0].id in ('tbl', 'tplus', 'tminus'):
            exec(compile(ast.Module([st], []), path, 'exec'), env)
    tplus, tminus = env.get('tplus'), env.get('tminus')
    alphabet = b'ABCDEFGHIJKLMNOPQRSTUVWXYZabcdefghijklmnopqrstuvwxyz0123456789+/'
    ok = isinstance(tplus, bytes) and isinstance(tminus, bytes) and len(tplus) == 256 and len(tminus) == 256
    ob('tables_are_total', ok, 'tplus / tminus are 256-entry translation tables', 'finite-enumeration')
    if ok:
        ob('tminus_inverts_tplus_on_the_base64_alphabet', all(tminus[tplus[c]] == c for c in alphabet),
           'translate(tminus) undoes translate(tplus) on every base64 character (all 64 checked)', 'finite-enumeration')
        ob('tplus_only_replaces_plus', all(tplus[c] == c for c in range(256) if c != ord('+')) and tplus[ord('+')] == ord('-'),
           'tplus changes + to - and nothing else (all 256 byte values checked); - is not a base64 character, so the change is unambiguous',
           'finite-enumeration')
    # 2. chunk sizes: base64 of a concatenation is the concatenation of the base64 texts only at multiples of 3 bytes / 4 characters
    for name in ('encode_seq', 'encode_str'):
        f = fns[name]
        consts = sorted({n.value for n in ast.walk(f) if isinstance(n, ast.Constant) and isinstance(n.value, int) and n.value > 4})
        ob('%s.chunks_are_multiples_of_3_bytes' % name, consts == [57] and 57 % 3 == 0,
           '%s encodes in chunks of %s bytes: a multiple of 3, so each chunk encodes without padding and the pieces concatenate to the '
           'base64 text of the whole' % (name, consts))
        calls = [c for c in ast.walk(f) if isinstance(c, ast.Call) and getattr(c.func, 'id', None) == 'b2a_base64']
        good = True
        for c in calls:
            nl_false = any(k.arg == 'newline' and isinstance(k.value, ast.Constant) and k.value.value is False for k in c.keywords)
            parent = [p for p in ast.walk(f) if isinstance(p, ast.Subscript) and p.value is c]
            strips = bool(parent) and ast.unparse(parent[0].slice) == ':-1'
            good = good and (strips != nl_false)
        ob('%s.strips_exactly_the_newline' % name, bool(calls) and good,
           'every b2a_base64 call either keeps the trailing newline and strips exactly that one character ([:-1]) or suppresses it and '
           'strips nothing')
        src = ast.unparse(f)
        ob('%s.padding_removed_at_the_first_equals_sign' % name, "l_ = state.find(b'=')" in src and 'state = state[:l_]' in src,
           'padding (= only occurs at the end of base64 text) is cut off at the first =')
    d = fns['decode_seq']
    consts = sorted({n.value for n in ast.walk(d) if isinstance(n, ast.Constant) and isinstance(n.value, int) and n.value > 4})
    ob('decode_seq.chunks_are_multiples_of_4_characters', consts == [76] and 76 % 4 == 0 and 76 == 57 // 3 * 4,
       'decode_seq decodes in chunks of %s characters: a multiple of 4 and exactly the text of one 57-byte chunk' % consts)
    src = ast.unparse(d)
    ob('decode_seq.repads_to_a_multiple_of_4', src.count('k = l_ % 4') == 2 and src.count("state = state + b'=' * (4 - k)") == 2 and src.count('if k:') == 2,
       'the remainder is padded with 4 - (length mod 4) = characters when the length is not a multiple of 4 (both branches)')
    ob('decode_seq.undoes_the_translation_first', src.find('state.translate(tminus)') >= 0 and src.find('state.translate(tminus)') < src.find('a2b_base64'),
       'the URL-safe translation is undone before base64 decoding')
    return out
