"""Contracts for DocumentTemplate._DocumentTemplate (renderer core)."""
from pyvc.contracts import *  # noqa

M = 'DocumentTemplate._DocumentTemplate'

# SN: the stack-neutral protocol (C08) every render function is proved against and every
# block / condition / expression called through ``md`` is assumed to obey.
SN = dict(stack="stack_unchanged(md)", level="level_of(md) == old(level_of(md))")


def _rb_effects(E, env, outcome):
    pass


contract(M + ".render_blocks",
         params=dict(blocks=Seq(), md=TD(), encoding=Opaque()),
         ensures=dict(SN), exc_ensures=dict(SN),
         raises_any=True, raises=None,
         uses=[M + ".render_blocks_", M + ".join_unicode"],
         returns=Opaque())


def _rb__effects(E, env, outcome):
    r = env['rendered']
    E.havoc_heap(r)


contract(M + ".render_blocks_",
         params=dict(blocks=Seq(), rendered=ListS(), md=TD(), encoding=Opaque()),
         ensures=dict(SN), exc_ensures=dict(SN),
         raises_any=True, raises=None,
         uses=[M + ".render_blocks_", M + ".TemplateDict.__getitem__", 'DocumentTemplate.ustr.ustr',
               'DocumentTemplate.html_quote.html_quote'],
         effects=_rb__effects,
         invariants={
             1: dict(header="for block in blocks", inv=dict(SN), havoc_heap=["rendered"],
                     types={'block': 'opaque', 'append': 'bool', 't': 'opaque', 'cond': 'opaque', 'n': 'opaque',
                            'bs': 'int', 'm': 'int', 'icond': 'int', 'cache': 'opaque', 'first_char': 'opaque',
                            'skip_html_quote': 'int', 'untaintmethod': 'opaque'}),
             2: dict(header="icond < m",
                     inv=dict(pushed="stack_extra(md) == 1", level="level_of(md) == old(level_of(md))",
                              ),
                     havoc_heap=["rendered", "cache"],
                     types={'cond': 'opaque', 'n': 'opaque'}),
         })

contract(M + ".join_unicode",
         params=dict(rendered=ListS(), encoding=Opaque()),
         raises_any=True, returns=Opaque())

# Namespace lookup as seen by callers: may run arbitrary namespace callables (which obey SN by
# assumption / by proof for the repo's own templates), may raise anything (KeyError included).
TD_ = M + ".TemplateDict"
contract(TD_ + ".__getitem__",
         params=dict(self=TD(), name=Opaque()),
         ensures=dict(stack="stack_unchanged(self)", level="level_of(self) == old(level_of(self))"),
         exc_ensures=dict(stack="stack_unchanged(self)", level="level_of(self) == old(level_of(self))"),
         raises_any=True, returns=Opaque(), uses=[TD_ + ".getitem"])
contract(TD_ + ".getitem",
         params=dict(self=TD(), key=Opaque(), call=Opaque()),
         raises_any=True, returns=Opaque())

contract('DocumentTemplate.ustr.ustr', params=dict(v=Opaque()), raises_any=True, returns=Opaque())
contract('DocumentTemplate.html_quote.html_quote', params=dict(v=Opaque(), encoding=Opaque()),
         raises_any=True, returns=Opaque())
