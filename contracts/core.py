"""Contracts for DocumentTemplate._DocumentTemplate (renderer core)."""
from pyvc.contracts import *  # noqa

M = 'DocumentTemplate._DocumentTemplate'

# SN: the stack-neutral protocol (C08) every render function is proved against and every
# block / condition / expression called through ``md`` is assumed to obey.
SN = dict(stack="stack_unchanged(md)", level="level_of(md) == old(level_of(md))")


def _rb_effects(E, env, outcome):
    pass


contract(M + ".render_blocks",
         params=dict(blocks=Seq(), md=TD(), encoding=Opaque()),
         ensures=dict(SN), exc_ensures=dict(SN),
         raises_any=True, raises=None,
         uses=[M + ".render_blocks_", M + ".join_unicode"],
         # callers treat the rendering as text: '' + result does not raise (assumption, listed)
         returns=Opaque(types={'str': True}))


def _rb__effects(E, env, outcome):
    r = env['rendered']
    E.havoc_heap(r)


# ---- C09: ghost evaluation trace of the 'i' (if/elif/else/unless/call) interpreter -------------
GI_ = M + ".TemplateDict.__getitem__"
RB__ = M + ".render_blocks_"


def _same(E, a, b):
    import z3
    try:
        return E.to_val(a) == E.to_val(b)
    except Exception:
        return z3.BoolVal(a is b)


def _events(trace):
    ev = []
    for t in trace:
        if t[0] == 'contract-call' and t[1] == GI_:
            ev.append(['lookup', t[2].get('name'), None, None])
        elif t[0] == 'contract-ret' and t[1] == GI_ and ev and ev[-1][0] == 'lookup':
            ev[-1][2] = 'ret'
            ev[-1][3] = t[2]
        elif t[0] == 'contract-raise' and t[1] == GI_ and ev and ev[-1][0] == 'lookup':
            ev[-1][2] = 'raise'
        elif t[0] == 'call':
            ev.append(['callcond', t[3], None, None])
        elif t[0] == 'contract-call' and t[1] == RB__:
            ev.append(['render', t[2].get('blocks'), None, None])
        elif t[0] == 'dict_set':
            ev.append(['dict_set', t[1], t[3], t[4]])
    return ev


def _check_eval(E, env, ev, cond0, fq, tag):
    """exactly one evaluation of the condition at hand; a successful name lookup is cached"""
    evals = [e for e in ev if e[0] in ('lookup', 'callcond')]
    E.oblige('%s::C09.%s.one_evaluation' % (fq, tag), len(evals) == 1, kind='trace',
             detail='each loop iteration evaluates exactly one condition (found %d)' % len(evals))
    if len(evals) != 1:
        return
    e = evals[0]
    E.oblige('%s::C09.%s.evaluates_current_condition' % (fq, tag), _same(E, e[1], cond0), kind='trace',
             detail='the condition evaluated is block[icond+1]')
    if e[0] == 'lookup' and e[2] == 'ret':
        cache = env.locals.get('cache')
        sets = [d for d in ev if d[0] == 'dict_set' and cache is not None and d[1] == cache.addr]
        ok = len(sets) == 1
        E.oblige('%s::C09.%s.lookup_cached_once' % (fq, tag), ok, kind='trace',
                 detail='a successful name lookup stores the value in the block cache exactly once (found %d)' % len(sets))
        if ok:
            E.oblige('%s::C09.%s.cached_key_is_name' % (fq, tag), _same(E, sets[0][2], e[1]), kind='trace',
                     detail='cache key is the condition name')
            E.oblige('%s::C09.%s.cached_value_is_result' % (fq, tag), _same(E, sets[0][3], e[3]), kind='trace',
                     detail='cache value is the looked-up value (reused, not recomputed)')
    if e[0] == 'lookup' and e[2] == 'raise':
        cache = env.locals.get('cache')
        sets = [d for d in ev if d[0] == 'dict_set' and cache is not None and d[1] == cache.addr]
        E.oblige('%s::C09.%s.undefined_not_cached' % (fq, tag), len(sets) == 0, kind='trace',
                 detail='an undefined name is not cached')
        # stated over behaviour, not over the temporary that holds the value: the iteration that found the name undefined
        # goes on to the next condition ('iteration'); it is never the one whose body is chosen ('chosen')
        E.oblige('%s::C09.%s.undefined_is_false' % (fq, tag), bool(tag == 'iteration'),
                 kind='trace', detail='an undefined name counts as false: the chain moves on to the next condition, its body is not rendered')


def _i_on_iteration(E, env, trace, fq, ordn):
    ev = _events(trace)
    cond0 = E.eval_spec("blk[icond - 1]", env, E.ghost_env(env))
    _check_eval(E, env, ev, cond0, fq, 'iteration')
    renders = [e for e in ev if e[0] == 'render']
    E.oblige('%s::C09.iteration.false_condition_renders_nothing' % fq, len(renders) == 0, kind='trace',
             detail='a condition that is false renders nothing')


def _i_on_break(E, env, trace, fq, ordn):
    ev = _events(trace)
    cond0 = E.eval_spec("blk[icond + 1]", env, E.ghost_env(env))
    _check_eval(E, env, ev, cond0, fq, 'chosen')
    renders = [e for e in ev if e[0] == 'render']
    E.oblige('%s::C09.chosen.renders_at_most_once' % fq, len(renders) <= 1, kind='trace', detail='chosen body rendered at most once')
    if len(renders) == 1:
        body = E.eval_spec("blk[icond + 2]", env, E.ghost_env(env))
        E.oblige('%s::C09.chosen.renders_own_body' % fq, _same(E, renders[0][1], body), kind='trace',
                 detail='the body rendered is block[icond+2], the body of the first true condition')
        order = [e[0] for e in ev if e[0] in ('lookup', 'callcond', 'render')]
        E.oblige('%s::C09.chosen.evaluate_then_render' % fq, order[-1] == 'render' and len(order) == 2, kind='trace',
                 detail='condition evaluated before its body is rendered')
    # (that the else body is not rendered after a true condition is the clause C09.after.nothing_else_rendered below,
    # stated over the trace; an earlier clause "m == -1" pinned the temporary the code happens to use and raised a false
    # alarm on an equivalent while/else formulation: removed)


def _outer_on_iteration(E, env, trace, fq, ordn):
    """one block processed; for an 'i' block check what happens after the condition loop"""
    marks = [i for i, t in enumerate(trace) if t[0] in ('loop_exit', 'loop_break') and t[1] == 2]
    if not marks:
        return
    kind = trace[marks[-1]][0]
    after = _events(trace[marks[-1] + 1:])
    evals = [e for e in after if e[0] in ('lookup', 'callcond')]
    E.oblige('%s::C09.after.no_further_evaluation' % fq, len(evals) == 0, kind='trace',
             detail='no condition is evaluated after the first true one / after the chain is exhausted')
    renders = [e for e in after if e[0] == 'render']
    if kind == 'loop_break':
        E.oblige('%s::C09.after.nothing_else_rendered' % fq, len(renders) == 0, kind='trace',
                 detail='after the chosen body nothing else of the conditional is rendered')
    else:
        E.oblige('%s::C09.else.renders_at_most_once' % fq, len(renders) <= 1, kind='trace', detail='else body rendered at most once')
        if len(renders) == 1:
            genv = E.ghost_env(env)
            body = E.eval_spec("blk[icond + 1]", env, genv)
            E.oblige('%s::C09.else.renders_else_body' % fq, _same(E, renders[0][1], body), kind='trace',
                     detail='only the else body block[icond+1] is rendered when no condition was true')
            E.oblige('%s::C09.else.only_when_present' % fq,
                     E.as_z3_int(env.locals['icond']) == E.as_z3_int(env.locals['m']), kind='trace',
                     detail='else rendered only when an else section exists (icond == m)')
    app = env.locals.get('append')
    E.oblige('%s::C09.after.block_emits_nothing_itself' % fq, isinstance(app, VC_) and app.v is False, kind='trace',
             detail="the conditional itself appends no piece (append is False)")


from pyvc.values import NONE as NONE_, VC as VC_  # noqa

contract(M + ".render_blocks_",
         params=dict(blocks=Seq(), rendered=ListS(), md=TD(), encoding=Opaque()),
         ensures=dict(SN), exc_ensures=dict(SN),
         raises_any=True, raises=None,
         uses=[M + ".render_blocks_", M + ".TemplateDict.__getitem__", 'DocumentTemplate.ustr.ustr',
               'DocumentTemplate.html_quote.html_quote'],
         effects=_rb__effects,
         invariants={
             1: dict(header="for block in blocks", inv=dict(SN), havoc_heap=["rendered"],
                     on_iteration=_outer_on_iteration,
                     types={'block': 'opaque', 'append': 'bool', 't': 'opaque', 'cond': 'opaque', 'n': 'opaque',
                            'bs': 'int', 'm': 'int', 'icond': 'int', 'cache': 'opaque', 'first_char': 'opaque',
                            'skip_html_quote': 'int', 'untaintmethod': 'opaque'}),
             2: dict(header="icond < m",
                     inv=dict(pushed="stack_extra(md) == 1", level="level_of(md) == old(level_of(md))",
                              # C09
                              icond_nonneg="icond >= 0", icond_even="icond % 2 == 0",
                              m_is_last="m == bs - 1", bs_is_len="bs == len_of(blk) - 1",
                              nothing_rendered_yet="len_of(rendered) == r0"),
                     ghost={'blk': 'block', 'r0': 'len_of(rendered)'}, ghost_types={'blk': 'same', 'r0': 'same'},
                     havoc_heap=["cache"],
                     types={'cond': 'opaque', 'n': 'opaque', 'block': 'same'},
                     decreases="m - icond",
                     on_iteration=_i_on_iteration, on_break=_i_on_break),
         })

contract(M + ".join_unicode",
         params=dict(rendered=ListS(), encoding=Opaque()),
         raises_any=True, returns=Opaque())

# Namespace lookup as seen by callers: may run arbitrary namespace callables (which obey SN by
# assumption / by proof for the repo's own templates), may raise anything (KeyError included).
TD_ = M + ".TemplateDict"
contract(TD_ + ".__getitem__",
         params=dict(self=TD(), name=Opaque()),
         ensures=dict(stack="stack_unchanged(self)", level="level_of(self) == old(level_of(self))"),
         exc_ensures=dict(stack="stack_unchanged(self)", level="level_of(self) == old(level_of(self))"),
         raises_any=True, returns=Opaque(), uses=[TD_ + ".getitem"])
contract(TD_ + ".getitem",
         params=dict(self=TD(), key=Opaque(), call=Opaque()),
         raises_any=True, returns=Opaque())

contract('DocumentTemplate.ustr.ustr', params=dict(v=Opaque()), raises_any=True, returns=Opaque())
contract('DocumentTemplate.html_quote.html_quote', params=dict(v=Opaque(), encoding=Opaque()),
         raises_any=True, returns=Opaque())
