"""Contracts for DocumentTemplate.DT_InSV (opt, sequence_variables)."""
from pyvc.contracts import *  # noqa

# --------------------------------------------------------------------- opt
# Strongest postcondition by the four start/end sign cases, plus the range
# clause taken from property C11 and the laziness clauses of C12.
OPT_ENSURES = {
    # C11 (from the property statement)
    "start_lo":   "1 <= result[0]",
    "ordered":    "result[0] <= result[1]",
    # opt clamps the end to the sequence length except for an explicit start+end pair, which it
    # returns as given (pinned by tests/test_DT_InSV.py::test_opt: opt(1, 80, 10, 1, <52 items>) ==
    # (1, 80, 10)); the caller renderwb owns the remaining clamp (see its contract, clause
    # window_in_range).
    "end_in_seq": "implies(not (start > 0 and end > 0), result[1] <= len_of(sequence))",
    "start_in_seq": "result[0] <= len_of(sequence) or (start <= 0 and end > 0)",
    # strongest post (derived from the code, needed by callers and lemmas)
    "size_out":   "result[2] == (size if size >= 1 else ((end + 1 - start) if (start > 0 and end > 0 and end >= start) else 7))",
    "win_A": "implies(start > 0 and end <= 0, result[0] == imin(start, len_of(sequence)) and "
             "result[1] == ((result[0] + result[2] - 1) if (result[0] + result[2] - 1 + orphan <= len_of(sequence)) else len_of(sequence)))",
    "win_B": "implies(start <= 0 and end > 0, result[1] == imin(end, len_of(sequence)) and "
             "result[0] == (1 if (result[1] - result[2] < orphan) else (result[1] + 1 - result[2])))",
    "win_C": "implies(start <= 0 and end <= 0, result[0] == 1 and "
             "result[1] == (result[2] if (result[2] + orphan <= len_of(sequence)) else len_of(sequence)))",
    "win_D": "implies(start > 0 and end > 0, result[0] == imin(start, len_of(sequence)) and "
             "result[1] == imax(end, result[0]))",
    # C12
    "no_neg_probe": "not neg_probes(sequence)",
    "len_only_after_failed_probe": "implies(len_called(sequence), failed_probe(sequence))",
    "pull_bound": "pulled(sequence) <= imax(old(pulled(sequence)), "
                  "imax(imin(start, len_of(sequence)), imax(imin(end, len_of(sequence)), "
                  "(result[1] + orphan) if end <= 0 else 0)))",
}


def _opt_effects(E, env, outcome):
    """call-site effect of opt: the sequence's ghost pull counter moves (bounded by pull_bound)"""
    import z3
    sq = env['sequence']
    if getattr(sq, 'ghost', None) is not None:
        old = sq.ghost['pulled']
        new = E.fresh_int('pulled')
        E.assume(new >= old)
        E.assume(new <= sq.length)
        sq.ghost['pulled'] = new


contract("DocumentTemplate.DT_InSV.opt",
         params=dict(start=Int(), end=Int(), size=Int(), orphan=Int(),
                     sequence=Seq(lazy=True, kind='lazy')),
         requires=["orphan >= 0", "len_of(sequence) >= 1"],
         ensures=OPT_ENSURES,
         raises=[],
         returns=TupleS(Int(), Int(), Int()),
         effects=_opt_effects)


# ------------------------------------------------- previous_batches (C12)
# previous-batches is NOT among the requests the property excepts (next-batches is: it needs the length).  The
# real method, on a lazily produced sequence: never pulls beyond what the displayed window already needed or the
# announced previous window needs -- every probe lies before the current window's start plus the overlap, which
# is within "window end + size" for overlap < size.
SVQ = 'DocumentTemplate.DT_InSV.sequence_variables'
SES = 'DocumentTemplate.DT_Util.sequence_ensure_subscription'


def _pb_state(E, env):
    import z3
    from pyvc.values import VSeq, VI, VC, VO, HDict, HObj
    cls = E.lookup_qual(SVQ)
    L = z3.Int('len_items')
    p0 = z3.Int('pulled0_items')
    E.assume(L >= 1)
    E.assume(p0 >= 0)
    E.assume(p0 <= L)
    items = VSeq('items', L, 'lazy', {'pulled': p0, 'maxidx': p0 - 1, 'infinite': False, 'pulled_initial': p0})
    d = HDict()
    for k, g in (('previous-sequence', 'gprev'), ('sequence-step-size', 'gsize'), ('sequence-step-start', 'gstart'),
                 ('sequence-step-end', 'gend'), ('sequence-step-orphan', 'gorphan'), ('sequence-step-overlap', 'goverlap')):
        t = z3.Int(g)
        d.entries.append([VC(k), VI(t)])
        env.locals['__g_' + g] = VI(t)
    d.entries.append([VC('mapping'), VO('mapping')])
    data = E.alloc(d)
    me = E.alloc(HObj(cls, {'items': items, 'data': data, 'query_string': VC(''), 'start_name_re': VC(None)}, name='vars'))
    env.locals['self'] = me
    env.locals['__g_items'] = items


PB_BOUND = "pulled(items) <= imax(pulled_initial(items), gstart - 1 + goverlap)"
contract(SVQ + '.previous_batches', variant='C12',
         params=dict(self=NoneV(), suffix=Const('batches'), key=Const('previous-batches')),
         pre_hook=_pb_state,
         # as the batch renderer leaves them: 1 <= start <= end <= length, the window's elements have been pulled
         requires=["gstart >= 1", "gend >= gstart", "gend <= len_of(items)", "gsize >= 1", "gorphan >= 0", "0 <= goverlap",
                   "goverlap < gsize", "pulled(items) >= gend"],
         ensures={'C12.previous_batches_pull_nothing_beyond_the_previous_window': PB_BOUND,
                  'C12.previous_batches_within_the_look_ahead_bound': "pulled(items) <= imax(pulled_initial(items), gend + gsize)"},
         raises=[],
         uses=["DocumentTemplate.DT_InSV.opt", SES],
         invariants={1: dict(header="start > 1",
                             inv={'start_mono': "start <= gstart", 'C12.pull_bound': PB_BOUND},
                             types={'start': 'int', 'end': 'int', 'spam': 'int', 'v': 'opaque', 'd': 'opaque'},
                             havoc_ghost=["items"], havoc_heap=["r"],
                             decreases="start")})
