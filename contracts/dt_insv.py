"""Contracts for DocumentTemplate.DT_InSV (opt, sequence_variables)."""
from pyvc.contracts import *  # noqa

# --------------------------------------------------------------------- opt
# Strongest postcondition by the four start/end sign cases, plus the range
# clause taken from property C11 and the laziness clauses of C12.
OPT_ENSURES = {
    # C11 (from the property statement)
    "start_lo":   "1 <= result[0]",
    "ordered":    "result[0] <= result[1]",
    # opt clamps the end to the sequence length except for an explicit start+end pair, which it
    # returns as given (pinned by tests/test_DT_InSV.py::test_opt: opt(1, 80, 10, 1, <52 items>) ==
    # (1, 80, 10)); the caller renderwb owns the remaining clamp (see its contract, clause
    # window_in_range).
    "end_in_seq": "implies(not (start > 0 and end > 0), result[1] <= len_of(sequence))",
    "start_in_seq": "result[0] <= len_of(sequence) or (start <= 0 and end > 0)",
    # strongest post (derived from the code, needed by callers and lemmas)
    "size_out":   "result[2] == (size if size >= 1 else ((end + 1 - start) if (start > 0 and end > 0 and end >= start) else 7))",
    "win_A": "implies(start > 0 and end <= 0, result[0] == imin(start, len_of(sequence)) and "
             "result[1] == ((result[0] + result[2] - 1) if (result[0] + result[2] - 1 + orphan <= len_of(sequence)) else len_of(sequence)))",
    "win_B": "implies(start <= 0 and end > 0, result[1] == imin(end, len_of(sequence)) and "
             "result[0] == (1 if (result[1] - result[2] < orphan) else (result[1] + 1 - result[2])))",
    "win_C": "implies(start <= 0 and end <= 0, result[0] == 1 and "
             "result[1] == (result[2] if (result[2] + orphan <= len_of(sequence)) else len_of(sequence)))",
    "win_D": "implies(start > 0 and end > 0, result[0] == imin(start, len_of(sequence)) and "
             "result[1] == imax(end, result[0]))",
    # C12
    "no_neg_probe": "not neg_probes(sequence)",
    "len_only_after_failed_probe": "implies(len_called(sequence), failed_probe(sequence))",
    "pull_bound": "pulled(sequence) <= imax(old(pulled(sequence)), "
                  "imax(imin(start, len_of(sequence)), imax(imin(end, len_of(sequence)), "
                  "(result[1] + orphan) if end <= 0 else 0)))",
}


def _opt_effects(E, env, outcome):
    """call-site effect of opt: the sequence's ghost pull counter moves (bounded by pull_bound)"""
    import z3
    sq = env['sequence']
    if getattr(sq, 'ghost', None) is not None:
        old = sq.ghost['pulled']
        new = E.fresh_int('pulled')
        E.assume(new >= old)
        E.assume(new <= sq.length)
        sq.ghost['pulled'] = new


contract("DocumentTemplate.DT_InSV.opt",
         params=dict(start=Int(), end=Int(), size=Int(), orphan=Int(),
                     sequence=Seq(lazy=True, kind='lazy')),
         requires=["orphan >= 0", "len_of(sequence) >= 1"],
         ensures=OPT_ENSURES,
         raises=[],
         returns=TupleS(Int(), Int(), Int()),
         effects=_opt_effects)
