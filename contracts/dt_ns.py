"""Contracts for name resolution (C02): TemplateDict.getitem, InstanceDict.__getitem__, String.__call__ push
order, String.initvars, scoping of With/Let."""
import z3
from pyvc.contracts import *  # noqa
from pyvc.values import *  # noqa
from pyvc.engine import Unsupported
from contracts.core import M, _same

TD_ = M + '.TemplateDict'
ID_ = M + '.InstanceDict'
RB = M + ".render_blocks"


def decided(E, v):
    """truthiness of v on this path: True / False / None (undecided)"""
    t = E.truth_term(v)
    if isinstance(t, bool):
        return t
    if E.valid(t):
        return True
    if E.valid(z3.Not(t)):
        return False
    return None


def _calls(trace):
    """opaque calls with their outcome: list of dict(fn, args, ret | exc)"""
    out = []
    for t in trace:
        if t[0] == 'call':
            out.append(dict(fn=t[3], args=t[4], label=t[1], ret=None, raised=False))
        elif t[0] == 'returned' and out:
            out[-1]['ret'] = t[3]
        elif t[0] == 'raised-by' and out:
            out[-1]['raised'] = True
    return out


# ------------------------------------------------------------------ TemplateDict.getitem
def _gi_iter(E, env, trace, fq, ordn):
    """a completed iteration = the mapping at hand does not define the key (KeyError/NameError)"""
    cs = _calls(trace)
    ob = lambda n, c, d: E.oblige(fq + '::C02.' + n, c, kind='trace', detail=d)  # noqa
    ob('skip.one_lookup', len(cs) == 1 and cs[0]['raised'], 'a mapping is skipped only because its lookup raised')
    k = env.locals['__k_1']
    n = E.eval_spec('len_of(self._data)', env)
    want = E.eval_spec('self._data[%s]' % 'len_of(self._data) - __k_1', env) if False else None
    if len(cs) == 1:
        data = E.heap[E.heap[env.locals['self'].addr].fields['_data'].addr]
        idx = z3.simplify(E.as_z3_int(n) - E.as_z3_int(k))      # k already incremented: element n-1-(k-1)
        tgt = E.list_get(data, idx)
        ob('skip.top_down_order', _same(E, cs[0]['fn'], tgt), 'mappings are consulted from the most recently pushed downwards')
        ob('skip.by_key', len(cs[0]['args']) == 1 and cs[0]['args'][0] is env.locals['key'], 'looked up by the requested key')


def _gi_exit(E, outcome, value, env, prefix):
    ob = lambda n, c, d: E.oblige(prefix + '::C02.' + n, c, kind='trace', detail=d)  # noqa
    marks = [i for i, t in enumerate(E.trace) if t[0] == 'loop_head' and t[1] == 1]
    if not marks:
        return
    tail = E.trace[marks[-1]:]
    exited = any(t[0] == 'loop_exit' for t in tail)
    cs = _calls(tail)
    if exited:
        ob('undefined.KeyError', outcome == 'raise' and value.cls == 'KeyError' and not value.sym
           and len(value.args) == 1 and value.args[0] is env.locals['key'] and not cs,
           'a name no mapping defines raises KeyError(name) after all mappings were consulted')
        return
    if not cs:
        return
    look = cs[0]
    if look['raised']:
        if outcome == 'raise' and value.sym:
            ob('other_errors_propagate', True, 'errors other than KeyError/NameError propagate')
        return
    v = look['ret']
    call = env.locals['call']
    rest = cs[1:]
    tt = E.truth_term(call)
    tt = z3.BoolVal(tt) if isinstance(tt, bool) else tt
    if rest:
        ob('uncalled.no_invocation_unless_call_is_true', tt,
           'the value found is invoked only when call is true (names in tags), never for expressions (call=0)')
    if outcome == 'normal':
        if not rest:
            ob('value_returned_as_is', value is v, 'a value that is not invoked is returned as is')
        else:
            last = rest[-1]
            ob('called.single_invocation', len([c for c in rest if c['ret'] is value]) == 1 and value is last['ret'],
               'a callable value is invoked once and its result returned')


contract(TD_ + '.getitem', variant='C02',
         params=dict(self=TD(), key=Opaque(), call=Opaque()),
         exit_hook=_gi_exit,
         invariants={1: dict(header="for e in reversed(self._data)", inv=dict(t="True"),
                             types={'e': 'opaque', 'base': 'opaque'}, on_iteration=_gi_iter)})


# ------------------------------------------------------------------ InstanceDict.__getitem__
def _id_exit(E, outcome, value, env, prefix):
    ob = lambda n, c, d: E.oblige(prefix + '::' + n, c, kind='trace', detail=d)  # noqa
    cs = _calls(E.trace)
    key = env.locals['key']
    k = E.as_z3_str(key)
    me = E.heap[env.locals['self'].addr]
    private = z3.And(z3.SubString(k, 0, 1) == z3.StringVal('_'), k != z3.StringVal('__str__'))
    cache_hit = E.trace and any(t[0] == 'cache-hit' for t in E.trace)
    # C05: underscore names are never resolved from client objects
    reads = [c for c in cs if c['label'] not in ('str()',)]
    if reads:
        ob('C05.private_name_never_read', z3.Not(private),
           "no attribute of the client object is read for a name starting with '_' (other than __str__)")
    if E.valid(private):
        if not _from_cache(E, env, outcome, value):
            ob('C05.private_name_refused', outcome == 'raise' and value.cls == 'KeyError' and not value.sym and not reads,
               "a name starting with '_' (other than __str__) raises KeyError without touching the client object")
        return
    if E.valid(z3.Not(private)) and reads:
        guard = me.fields.get('guarded_getattr')
        c0 = reads[0]
        ob('C02.single_read', len(reads) == 1, 'the client attribute is read exactly once')
        ob('C02.reads_requested_attribute', len(c0['args']) == 2 and c0['args'][0] is me.fields['inst'] and c0['args'][1] is key,
           'the attribute read is (inst, key)')
        has_guard = decided_not_none(E, guard)
        if has_guard is True:
            ob('C05.read_via_guard', c0['fn'] is guard, 'with a security guard the read goes through the guard')
        elif has_guard is False:
            ob('C02.read_via_getattr', isinstance(c0['fn'], VO) and c0['fn'].name == 'getattr', 'without a guard plain getattr is used')
        if not c0['raised'] and outcome == 'normal':
            ob('C02.result_is_attribute', value is c0['ret'], 'the attribute value is returned')


def decided_not_none(E, v):
    if isinstance(v, VC):
        return v.v is not None
    t = E.to_val(v) == E.to_val(NONE)
    if E.valid(t):
        return False
    if E.valid(z3.Not(t)):
        return True
    return None


def _from_cache(E, env, outcome, value):
    # the cache.get(key, _marker) path: no read at all and a normal return of a cache value
    me = E.heap[env.locals['self'].addr]
    cache = E.heap[me.fields['cache'].addr]
    return outcome == 'normal' and isinstance(value, VO) and cache.base is not None and cache.base in value.name


contract(ID_ + '.__getitem__',
         params=dict(self=Obj(ID_, lazy=False, prov='fresh',
                              fields={'inst': Opaque(), 'namespace': Opaque(), 'cache': DictS(), 'guarded_getattr': Opaque()}),
                     key=Str()),
         requires=["strlen(key) >= 1"],
         exit_hook=_id_exit)


# ------------------------------------------------------------------ String.__call__ push order
def _is_instancedict_of(E, v, inst):
    if not (isinstance(v, VRef) and isinstance(E.heap[v.addr], HObj)):
        return False
    h = E.heap[v.addr]
    return getattr(h.cls, 'name', '') == 'InstanceDict' and h.fields.get('inst') is inst


def call_order_hook(top_level):
    def hook(E, outcome, value, env, prefix):
        ob = lambda n, c, d: E.oblige(prefix + '::C02.' + n, c, kind='trace', detail=d)  # noqa
        ev = [t for t in E.trace if t[0] == 'contract-call' and t[1] == RB]
        if not ev:
            return
        if not isinstance(env.final.get('md'), VRef):
            return      # the namespace is somebody else's opaque object: not this variant's case
        st = list(ev[-1][3].get('md') or [])
        me = env.locals['self']
        slots = []
        if top_level:
            slots += [('shared_globals', E.eval_spec('self.shared_globals', env)), ('globals', E.eval_spec('self.globals', env)),
                      ('mapping', env.final.get('mapping'))]
        else:
            slots += [('globals', E.eval_spec('self.globals', env))]
        pos = 0
        okay = True
        for name, val in slots:
            d = decided(E, val)
            if d is None:
                ob('order.%s_decided' % name, False, 'truthiness of %s undecided on this path' % name)
                return
            if d:
                good = pos < len(st) and st[pos] is val
                ob('order.%s_in_place' % name, good, '%s (when non-empty) is pushed at its place in the documented order' % name)
                okay = okay and good
                pos += 1
        client = env.locals['client']
        cd = decided_not_none(E, client)
        if cd is None:
            ob('order.client_decided', False, 'client None-ness undecided')
            return
        if cd:
            if E.tfacts.get((getattr(client, 'name', ''), 'tuple')):
                good = pos < len(st) and isinstance(st[pos], SymSeg)
                ob('order.client_tuple_in_place', good, 'the objects of a client tuple are pushed (in order) after the mappings')
                pos += 1
            else:
                good = pos < len(st) and _is_instancedict_of(E, st[pos], client)
                ob('order.client_in_place', good, 'the client object is pushed (wrapped) after the mappings')
                pos += 1
        for name, val in [('_vars', E.eval_spec('self._vars', env)), ('kw', env.locals['kw'])]:
            d = decided(E, val)
            if d is None:
                ob('order.%s_decided' % name, False, 'truthiness of %s undecided' % name)
                return
            if d:
                good = pos < len(st) and st[pos] is val
                ob('order.%s_in_place' % name, good, '%s is pushed above the client (searched before it)' % name)
                pos += 1
        ob('order.nothing_else_pushed', pos == len(st), 'nothing else is on the namespace when the blocks are rendered '
           '(%d expected, %d found)' % (pos, len(st)))
    return hook


def client_loop_iter(E, env, trace, fq, ordn):
    ob = lambda n, c, d: E.oblige(fq + '::C02.' + n, c, kind='trace', detail=d)  # noqa
    md = env.locals['md']
    data = E.heap[md.addr].fields['_data']
    pushes = [t for t in trace if t[0] == 'list_append' and t[1] == data.addr]
    ob('clients.one_push_each', len(pushes) == 1, 'each client object of the tuple is pushed exactly once')
    if len(pushes) == 1:
        ob('clients.in_tuple_order', _is_instancedict_of(E, pushes[0][3], env.locals['ob']),
           'client objects are pushed in tuple order, so the last one is searched first')


# ------------------------------------------------------------------ scoping: With / Let
GI = M + ".TemplateDict.__getitem__"


def _with_exit(E, outcome, value, env, prefix):
    ob = lambda n, c, d: E.oblige(prefix + '::C02.' + n, c, kind='trace', detail=d)  # noqa
    ev = [t for t in E.trace if t[0] == 'contract-call' and t[1] == RB]
    if not ev:
        return
    ob('with.body_rendered_once', len(ev) == 1, 'the body is rendered exactly once')
    call_md = ev[-1][2].get('md')
    st = list(ev[-1][3].get('md') or [])
    entry_md = env.locals['md']
    only = decided(E, E.eval_spec('self.only', env))
    mapping = decided(E, E.eval_spec('self.mapping', env))
    ob('with.one_binding_on_top', len(st) == 1, 'exactly one entry (the with-object) is pushed for the body')
    if len(st) != 1:
        return
    top = st[0]
    if mapping is True:
        ob('with.mapping_pushed_as_is', not (isinstance(top, VRef) and isinstance(E.heap[top.addr], HObj)
                                              and getattr(E.heap[top.addr].cls, 'name', '') == 'InstanceDict'),
           'with "mapping" the value itself is the namespace entry')
    elif mapping is False:
        ok = isinstance(top, VRef) and isinstance(E.heap[top.addr], HObj) and getattr(E.heap[top.addr].cls, 'name', '') == 'InstanceDict'
        ob('with.object_wrapped', ok, 'an object is pushed wrapped in an InstanceDict (attribute lookup, guarded)')
    if only is True:
        fresh = isinstance(call_md, VRef) and call_md.addr != entry_md.addr
        ob('with.only_uses_fresh_namespace', fresh, 'with "only" the body sees a new namespace holding the with-object alone')
        if fresh:
            d = E.heap[E.heap[call_md.addr].fields['_dict'].addr]
            ent = {k.v: v for k, v in d.entries if isinstance(k, VC)}
            src = E.heap[E.heap[entry_md.addr].fields['_dict'].addr]
            sent = {k.v: v for k, v in src.entries if isinstance(k, VC)}
            ob('C05.with_only_keeps_guards', ent.get('guarded_getattr') is sent.get('guarded_getattr')
               and ent.get('guarded_getitem') is sent.get('guarded_getitem'),
               'the new namespace carries the same security guards')
    elif only is False:
        ob('with.pushes_on_callers_namespace', isinstance(call_md, VRef) and call_md.addr == entry_md.addr,
           'without "only" the binding is laid on top of the current namespace')


contract('DocumentTemplate.DT_With.With.render', variant='C02',
         params=dict(self=Obj('DocumentTemplate.DT_With.With', lazy=True), md=TD()),
         exit_hook=_with_exit, uses=[RB, GI])


def _let_dict(E, env):
    """the dictionary of let bindings: the entry Let.render pushed on the namespace (whatever the local is called)"""
    md = env.locals['md']
    data = E.heap[E.heap[md.addr].fields['_data'].addr]
    top = data.items[-1] if data.items else None
    return top if isinstance(top, VRef) else VRef(-1)


def _let_iter(E, env, trace, fq, ordn):
    ob = lambda n, c, d: E.oblige(fq + '::C02.' + n, c, kind='trace', detail=d)  # noqa
    d = _let_dict(E, env)
    sets = [t for t in trace if t[0] == 'dict_set' and t[1] == d.addr]
    ob('let.one_binding_per_pair', len(sets) == 1, 'each name=value pair binds exactly one name')
    looks = [t for t in trace if t[0] == 'contract-call' and t[1] == GI]
    for t in looks:
        st = list(t[3].get('self') or [])
        ob('let.later_bindings_see_earlier', len(st) == 1 and st[0] is d,
           'values are looked up with the let bindings made so far on top of the namespace')


def _let_exit(E, outcome, value, env, prefix):
    ob = lambda n, c, d: E.oblige(prefix + '::C02.' + n, c, kind='trace', detail=d)  # noqa
    ev = [t for t in E.trace if t[0] == 'contract-call' and t[1] == RB]
    if not ev:
        return
    st = list(ev[-1][3].get('md') or [])
    fresh = [v for v in env.final.values() if isinstance(v, VRef) and v.addr in E.heap and isinstance(E.heap[v.addr], HDict)]
    ob('let.bindings_on_top_for_body', len(st) == 1 and any(st[0] is v or (isinstance(st[0], VRef) and st[0].addr == v.addr) for v in fresh),
       'the body is rendered with the let bindings as the top namespace entry')


contract('DocumentTemplate.DT_Let.Let.render', variant='C02',
         params=dict(self=Obj('DocumentTemplate.DT_Let.Let', lazy=True, fields={'args': Seq()}), md=TD()),
         exit_hook=_let_exit, uses=[RB, GI],
         invariants={1: dict(header="for (name, expr) in self.args",
                             inv=dict(pushed="stack_extra(md) == 1"),
                             havoc_heap=["d"], types={'name': 'opaque', 'expr': 'opaque'}, on_iteration=_let_iter)})


# ------------------------------------------------------------------ initvars
def _iv_iter(E, env, trace, fq, ordn):
    ob = lambda n, c, d: E.oblige(fq + '::C02.' + n, c, kind='trace', detail=d)  # noqa
    v = env.locals['vars']
    sets = [t for t in trace if t[0] == 'dict_set' and t[1] == v.addr]
    k = env.locals['k']
    ob('initvars.at_most_one_write', len(sets) <= 1, 'a mapping key sets at most one default')
    if sets:
        ob('initvars.writes_own_key', sets[0][3] is k, 'the default is stored under the same key')
        kk = E.as_z3_str(k) if E.is_strlike(k) else None
        if kk is not None:
            ob('initvars.private_keys_skipped', z3.SubString(kk, 0, 1) != z3.StringVal('_'),
               "mapping keys starting with '_' never become defaults")
        from pyvc import ops
        pre = E.heap[v.addr].clone()
        pre.entries = pre.entries[:-1]
        has = ops.dict_has(E, pre, k)
        ob('initvars.keyword_defaults_win', (not has) if isinstance(has, bool) else z3.Not(has),
           'a name given as construction keyword is not overwritten by the construction mapping')


contract('DocumentTemplate.DT_String.String.initvars',
         params=dict(self=Obj('DocumentTemplate.DT_String.String', lazy=True), globals=Opaque(), vars=DictS()),
         ensures=dict(globals_is_vars="same(self.globals, vars)"),
         invariants={1: dict(header="for k in globals.keys()", inv=dict(t="True"), havoc_heap=["vars"],
                             types={'k': 'str'}, on_iteration=_iv_iter)})


# ------------------------------------------------------------------ Eval.eval: names are passed uncalled
GETITEM = M + ".TemplateDict.getitem"


def _eval_iter(E, env, trace, fq, ordn):
    ob = lambda n, c, d: E.oblige(fq + '::C02.' + n, c, kind='trace', detail=d)  # noqa
    for t in trace:
        if t[0] == 'contract-call' and t[1] == GETITEM:
            call = t[2].get('call')
            ob('expr.names_passed_uncalled', isinstance(call, VC) and call.v == 0,
               'names used by an expression are fetched with call=0 (callables are passed uncalled)')
            ob('expr.fetches_the_used_name', t[2].get('key') is env.locals['name'], 'the name fetched is the name used')
        if t[0] == 'contract-call' and t[1] == GI:
            ob('expr.no_calling_lookup', False, 'expressions never use the calling lookup md[name]')


contract('DocumentTemplate.DT_Util.Eval.eval',
         params=dict(self=Obj('DocumentTemplate.DT_Util.Eval', lazy=True, fields={'globals': DictS()}), md=TD()),
         uses=[GETITEM, GI],
         invariants={1: dict(header="for name in self.used", inv=dict(t="True"), havoc_heap=["d"],
                             types={'name': 'opaque'}, on_iteration=_eval_iter)})


# ------------------------------------------------------------------ Let.__init__: what each binding compiles to (C02: values reach
# expressions uncalled -- a quoted binding is an expression, evaluated by Eval.eval with names fetched uncalled; only an
# unquoted binding is a plain name lookup, which calls the value)
def _let_ctor_state(E, env):
    sec = E.alloc(HObj(None, {'blocks': E.alloc(HList([]))}, name='pyobj:section', lazy=True))
    env.locals['blocks'] = E.alloc(HList([VT([VC('let'), VC('x=y z="w" v="a+1"'), sec])]))


def _let_ctor_exit(E, outcome, value, env, prefix):
    ob = lambda n, c, d: E.oblige(prefix + '::C02.' + n, c, kind='post', detail=d)  # noqa
    if outcome != 'normal':
        return      # rejections are C06 (the library model of Eval() may raise SyntaxError for any text)
    me = E.heap[env.locals['self'].addr]
    args = me.fields.get('args')
    items = E.heap[args.addr].items if isinstance(args, VRef) and isinstance(E.heap[args.addr], HList) else []
    pairs = []
    for it in items:
        pairs.append(it.items if isinstance(it, VT) else (E.heap[it.addr].items if isinstance(it, VRef) else [None, None]))
    ok_shape = len(pairs) == 3 and all(len(p) == 2 for p in pairs)
    ob('let.compile.one_pair_per_binding_in_order', bool(ok_shape and [getattr(p[0], 'v', None) for p in pairs] == ['x', 'z', 'v']),
       'self.args holds one (name, value source) pair per binding, in source order')
    if not ok_shape:
        return
    ob('let.compile.unquoted_binding_is_a_name_lookup', bool(isinstance(pairs[0][1], VC) and pairs[0][1].v == 'y'),
       'x=y: the value source is the name y (looked up, and called, through the namespace when the let is rendered)')

    def is_eval_of(v, text):
        if not isinstance(v, VBM):
            return False
        fn, obj = v.fn, v.self
        qual = getattr(fn, 'qual', '') or getattr(fn, 'name', '')
        if not str(qual).endswith('Eval.eval'):
            return False
        h = E.heap.get(obj.addr) if isinstance(obj, VRef) else None
        ex = h.fields.get('expr') if h is not None else None
        return ex is None or (isinstance(ex, VC) and ex.v == text)
    ob('let.compile.quoted_binding_is_an_expression', bool(is_eval_of(pairs[1][1], 'w') and is_eval_of(pairs[2][1], 'a+1')),
       'z="w", v="a+1": a quoted value -- also one that is just a name -- compiles to the evaluation of that expression '
       '(Eval.eval fetches names with call=0, so callables and templates reach the expression uncalled)')


contract('DocumentTemplate.DT_Let.Let.__init__', variant='C02.compile',
         params=dict(self=Obj('DocumentTemplate.DT_Let.Let', lazy=False, prov='fresh'), blocks=NoneV(), encoding=NoneV()),
         pre_hook=_let_ctor_state, exit_hook=_let_ctor_exit)
