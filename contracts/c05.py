"""C05: security guards mediate every read of client data; '_' names stay private.

Two kinds of obligations:
  * contracts on the functions that wire the guards (Eval.eval, careful_getattr / careful_hasattr, InstanceDict.__getitem__,
    With.render, Var.render method formats, the dtml-in element fetch), proved by symbolic execution;
  * a site ledger: every attribute / item read in the rendering code (getattr / hasattr / .get(...) calls and the listed
    subscript / method reads) is enumerated from the AST on every run and must be classified; a read of client data that
    does not go through the guard is a refuted obligation (recorded known findings carry a native witness); a read that
    is not in the ledger at all is refuted as well, so a new getattr anywhere in the renderer cannot go unnoticed."""
import z3
from pyvc.contracts import *  # noqa
from pyvc.values import *  # noqa
from contracts.core import M

EV = 'DocumentTemplate.DT_Util.Eval'
GETITEM = M + '.TemplateDict.getitem'


def _lib_globals_keys():
    """keys of RestrictionCapableEval.globals as installed (library fact, read natively on every run)"""
    from RestrictedPython.Eval import RestrictionCapableEval
    import DocumentTemplate.DT_Util  # noqa  (its import patches the safe globals)
    return sorted(RestrictionCapableEval.globals.keys())


def _eval_state(guarded):
    def hook(E, env):
        cls = E.lookup_qual(EV)
        g = HDict()
        for k in _lib_globals_keys():
            g.entries.append([VC(k), VO('lib.globals[%s]' % k)])
        me = E.alloc(HObj(cls, {'globals': E.alloc(g), 'used': VT([VC('x')]), 'rcode': VO('self.rcode'), 'ucode': VO('self.ucode'),
                                'expr': VC('x')}, name='self', lazy=True))
        env.locals['self'] = me
        md = env.locals['md']
        dct = E.heap[E.heap[md.addr].fields['_dict'].addr]
        for e in dct.entries:
            if e[0].v == 'guarded_getattr':
                e[1] = VO('md.guarded_getattr') if guarded else NONE
        if guarded:
            E.assume(E.to_val(VO('md.guarded_getattr')) != z3.Const('None', Val))
            E.assume(E.to_val(VO('md.guarded_getitem')) != z3.Const('None', Val))
    return hook


def _eval_exit(guarded):
    def hook(E, outcome, value, env, prefix):
        ob = lambda n, c, d: E.oblige('%s::C05.%s' % (prefix, n), c, kind='post', detail=d)  # noqa
        evs = [t for t in E.trace if t[0] == 'call' and t[1] == 'eval']
        if not evs:
            return
        code, d = evs[-1][4][0], evs[-1][4][1]
        dd = E.heap[d.addr]
        ent = {}
        for k, v in dd.entries:
            if isinstance(k, VC):
                ent[k.v] = v
        me = E.heap[env.locals['self'].addr]
        if guarded:
            ob('eval.restricted_code_when_guarded', bool(code is me.fields.get('rcode')),
               'with security guards the expression runs as restricted code (every attribute / item access is rewritten to the guard hooks; '
               'underscore-prefixed attribute names are rejected by RestrictedPython at compile time)')
            ob('eval.getattr_hook_is_the_template_guard', bool(ent.get('_getattr_') is not None and ent['_getattr_'].name == 'md.guarded_getattr'),
               "attribute access inside the expression goes through the template's guarded_getattr")
            ob('eval.getitem_hook_is_the_template_guard', bool(ent.get('_getitem_') is not None and getattr(ent['_getitem_'], 'name', '') == 'md.guarded_getitem'),
               "item access inside the expression goes through the template's guarded_getitem")
        else:
            ob('eval.unrestricted_without_guards', bool(code is me.fields.get('ucode')), 'without guards the plain code object is used')
        ob('eval.namespace_is_underscore', bool(ent.get('_') is env.locals['md'] and ent.get('_vars') is env.locals['md']),
           'the namespace is available as _ (and _vars)')
    return hook


contract(GETITEM, variant='opaque', params=dict(self=TD(), key=Opaque(), call=Opaque()), raises_any=True, returns=Opaque())
EVAL = []
for _g in (True, False):
    _t = 'guarded' if _g else 'unguarded'
    contract(EV + '.eval', variant='C05.' + _t, params=dict(self=NoneV(), md=TD()), pre_hook=_eval_state(_g), exit_hook=_eval_exit(_g),
             uses=[GETITEM + '#opaque'])
    EVAL.append(EV + '.eval#C05.' + _t)


# ------------------------------------------------------------------ the site ledger
# (module, function, source text of the read) -> (class, remark); classes:
#   wiring   the read fetches the guard itself from the namespace
#   own      the object read is the namespace, the tag, its compiled arguments or another object of the renderer itself
#   probe    protocol / existence probe of a value (hasattr, dunder or marker attributes); no client data flows out of it
#            and the data read that follows goes through the guard
#   guarded  client data read through the guard variable
#   CLIENT   client data read directly -- a violation of the property (known findings carry a native witness)
LEDGER = {
    ('_DocumentTemplate', 'render_blocks_', "getattr(t, '__untaint__', None)"): ('probe', 'taint protocol of the value'),
    ('_DocumentTemplate', 'safe_callable', "hasattr(ob, '__class__')"): ('probe', ''),
    ('_DocumentTemplate', 'safe_callable', "hasattr(ob, '__call__')"): ('probe', ''),
    ('_DocumentTemplate', 'getitem', "hasattr(e, '__render_with_namespace__')"): ('probe', 'namespace value protocol'),
    ('_DocumentTemplate', 'getitem', "getattr(base, 'isDocTemp', False)"): ('probe', 'marker attribute'),
    ('_DocumentTemplate', '__getitem__', 'self.cache.get(key, _marker)'): ('own', 'InstanceDict cache'),
    ('DT_Util', 'namespace', "getattr(self, '__class__', None)"): ('own', ''),
    ('DT_Util', 'render', "hasattr(v, '__render_with_namespace__')"): ('probe', ''),
    ('DT_Util', 'render', "getattr(v, 'aq_base', v)"): ('probe', 'acquisition unwrapping'),
    ('DT_Util', 'render', "getattr(vbase, 'isDocTemp', 0)"): ('probe', ''),
    ('DT_Util', 'sequence_supports_subscription', "hasattr(obj, 'get')"): ('probe', ''),
    ('DT_Util', 'sequence_supports_subscription', "hasattr(obj, 'keys')"): ('probe', ''),
    ('DT_Util', 'sequence_supports_subscription', "hasattr(obj, '__getitem__')"): ('probe', ''),
    ('DT_Util', 'sequence_supports_subscription', "hasattr(obj, '__len__')"): ('probe', ''),
    ('DT_Util', '__getattr__', 'getattr(string, key)'): ('own', 'the string module'),
    ('DT_Util', 'eval', "getattr(md, 'guarded_getattr', None)"): ('wiring', ''),
    ('DT_Util', 'eval', "getattr(md, 'guarded_getitem', None)"): ('wiring', ''),
    ('DT_Util', 'int_param', 'params.get(name, default)'): ('own', 'compiled tag parameters'),
    ('DT_In', 'renderwb', "getattr(md, 'guarded_getitem', None)"): ('wiring', ''),
    ('DT_In', 'renderwob', "getattr(md, 'guarded_getitem', None)"): ('wiring', ''),
    ('DT_In', '__init__', "args.get('prefix')"): ('own', ''),
    ('DT_In', 'renderwb', "params.get('prefix')"): ('own', ''),
    ('DT_In', 'renderwob', "self.args.get('prefix')"): ('own', ''),
    ('DT_In', 'sort_sequence', 'getattr(v, sort, None)'): ('CLIENT', 'DT_In.sort_sequence.getattr'),
    ('DT_In', 'sort_sequence', 'getattr(v, sk, None)'): ('CLIENT', 'DT_In.sort_sequence.getattr.multi'),
    ('DT_In', 'sort_sequence', 'v.get(sort)'): ('CLIENT', 'DT_In.sort_sequence.get'),
    ('DT_In', 'sort_sequence', 'v.get(sk)'): ('CLIENT', 'DT_In.sort_sequence.get.multi'),
    ('DT_InSV', 'value', 'getattr(item, name)'): ('CLIENT', 'DT_InSV.value.getattr'),
    ('DT_InSV', 'value', 'item[name]'): ('CLIENT', 'DT_InSV.value.item'),
    ('DT_InSV', 'statistics', 'getattr(item, name)'): ('CLIENT', 'DT_InSV.statistics.getattr'),
    ('DT_InSV', 'statistics', 'item[name]'): ('CLIENT', 'DT_InSV.statistics.item'),
    ('DT_InSV', '__getitem__', 'hasattr(self, suffix)'): ('own', 'sequence_variables helper methods'),
    ('DT_InSV', '__getitem__', 'getattr(self, suffix)'): ('own', ''),
    ('DT_Var', 'render', "getattr(md, 'guarded_getattr', None)"): ('wiring', ''),
    ('DT_Var', 'render', 'hasattr(val, fmt)'): ('probe', 'followed by _get(val, fmt): guarded'),
    ('DT_Var', 'render', "hasattr(sys, 'exc_info')"): ('own', ''),
    ('DT_Var', 'render', '_get(val, fmt)'): ('guarded', 'method formats'),
    ('DT_Var', 'render', 'val.absolute_url()'): ('CLIENT', 'DT_Var.render.absolute_url'),
    ('DT_With', 'render', "hasattr(_md, 'guarded_getattr')"): ('wiring', ''),
    ('DT_With', 'render', "hasattr(_md, 'guarded_getitem')"): ('wiring', ''),
    ('TreeTag', 'try_call_attr', 'getattr(ob, attrname)'): ('CLIENT', 'TreeTag.try_call_attr'),
    ('TreeTag', 'tpRenderTABLE', "getattr(md, 'guarded_getitem', None)"): ('wiring', ''),
    ('TreeTag', 'tpRenderTABLE', 'hasattr(self, urlattr)'): ('probe', ''),
    ('TreeTag', 'tpRenderTABLE', "hasattr(self, args['branches'])"): ('probe', "followed by get(self, args['branches']): guarded"),
    ('TreeTag', 'tpRenderTABLE', "get(self, args['branches'])"): ('guarded', 'tree branches'),
    ('TreeTag', 'tpRenderTABLE', 'getattr(v, sort)'): ('CLIENT', 'TreeTag.tpRenderTABLE.sort'),
    ('TreeTag', 'tpRenderTABLE', "args.get('prefix')"): ('own', ''),
    ('TreeTag', 'tpRenderTABLE', "args.get('nowrap')"): ('own', ''),
    ('TreeTag', 'tpRender', "args.get('prefix')"): ('own', ''),
    ('TreeTag', '__init__', "args.get('prefix')"): ('own', ''),
    ('TreeTag', 'extract_id', 'hasattr(item, idattr)'): ('probe', ''),
    ('TreeTag', 'extract_id', "getattr(item, '_p_oid', None)"): ('CLIENT', 'TreeTag.extract_id._p_oid'),
}
# reads that are not getattr / hasattr / .get( calls and therefore listed by text: they must still exist as written
EXTRA_READS = {
    ('DT_InSV', 'value'): ['item[name]'],
    ('DT_InSV', 'statistics'): ['item[name]'],
    ('DT_Var', 'render'): ['_get(val, fmt)', 'val.absolute_url()'],
    ('TreeTag', 'tpRenderTABLE'): ["get(self, args['branches'])"],
}
MODULES = {'_DocumentTemplate': 'DocumentTemplate/_DocumentTemplate.py', 'DT_Util': 'DocumentTemplate/DT_Util.py',
           'DT_In': 'DocumentTemplate/DT_In.py', 'DT_InSV': 'DocumentTemplate/DT_InSV.py', 'DT_Var': 'DocumentTemplate/DT_Var.py',
           'DT_With': 'DocumentTemplate/DT_With.py', 'DT_Let': 'DocumentTemplate/DT_Let.py', 'DT_Try': 'DocumentTemplate/DT_Try.py',
           'DT_Raise': 'DocumentTemplate/DT_Raise.py', 'DT_Return': 'DocumentTemplate/DT_Return.py', 'DT_If': 'DocumentTemplate/DT_If.py',
           'TreeTag': 'TreeDisplay/TreeTag.py'}


def site_obligations():
    import ast
    import os
    from pyvc.engine import REPO_SRC
    out = []
    seen = set()

    def ob(oid, status, detail):
        out.append(dict(oid='C05.site.' + oid, kind='structural', status=status, paths=1, backends=['ast'], ms=0, model=None,
                        detail=detail, havoced=False))
    for m, rel in MODULES.items():
        tree = ast.parse(open(os.path.join(REPO_SRC, rel)).read())
        for fn in [n for n in ast.walk(tree) if isinstance(n, ast.FunctionDef)]:
            texts = []
            for c in ast.walk(fn):
                if isinstance(c, ast.Call) and isinstance(c.func, ast.Name) and c.func.id in ('getattr', 'hasattr'):
                    texts.append(ast.unparse(c))
                elif isinstance(c, ast.Call) and isinstance(c.func, ast.Attribute) and c.func.attr == 'get':
                    texts.append(ast.unparse(c))
            src = ast.unparse(fn)
            for t in EXTRA_READS.get((m, fn.name), []):
                if t in src:
                    texts.append(t)
            ordn = {}
            for t in texts:
                key = (m, fn.name, t)
                ordn[t] = ordn.get(t, 0) + 1
                oid = '%s.%s.%s%s' % (m, fn.name, t.replace(' ', ''), '' if ordn[t] == 1 else '#%d' % ordn[t])
                if oid in seen:
                    continue
                seen.add(oid)
                cls = LEDGER.get(key)
                if cls is None:
                    ob(oid, 'refuted', 'unclassified read in rendering code: %s in %s.%s -- every read of a value must be a guard-wiring, own-object, '
                                       'probe or guarded read' % (t, m, fn.name))
                elif cls[0] == 'CLIENT':
                    ob(oid, 'refuted', 'client data is read without the guard: %s in %s.%s [%s]' % (t, m, fn.name, cls[1]))
                else:
                    ob(oid, 'discharged', '%s: %s %s' % (t, cls[0], cls[1]))
    for key in LEDGER:
        m, f, t = key
        oid = '%s.%s.%s' % (m, f, t.replace(' ', ''))
        if oid not in seen:
            ob(oid, 'refuted', 'the ledger names a read that no longer exists as written: %s in %s.%s' % (t, m, f))
    return out


# ------------------------------------------------------------------ careful_getattr / careful_hasattr, method formats
def _careful_exit(E, outcome, value, env, prefix):
    ob = lambda n, c, d: E.oblige('%s::C05.%s' % (prefix, n), c, kind='post', detail=d)  # noqa
    calls = [t for t in E.trace if t[0] == 'call']
    md = E.heap[env.locals['md'].addr]
    dct = E.heap[md.fields['_dict'].addr]
    guard = dict((k.v, v) for k, v in dct.entries if isinstance(k, VC)).get('guarded_getattr')
    none = E.valid(E.to_val(guard) == z3.Const('None', Val))
    notnone = E.valid(E.to_val(guard) != z3.Const('None', Val))
    ok = len(calls) == 1 and len(calls[0][4]) == 2 and calls[0][4][0] is env.locals['inst'] and calls[0][4][1] is env.locals['name']
    ob('careful.reads_once', bool(ok), '_.getattr / _.hasattr read the attribute (inst, name) exactly once')
    if ok and notnone:
        ob('careful.via_guard', bool(calls[0][3] is guard), 'through the guard when there is one')
    if ok and none:
        ob('careful.plain_without_guard', bool(getattr(calls[0][3], 'name', '') == 'getattr'), 'with plain getattr when there is none')


CAREFUL = []
for _f in ('careful_getattr', 'careful_hasattr'):
    contract('DocumentTemplate.DT_Util.' + _f, variant='C05', params=dict(md=TD(), inst=Opaque(), name=Opaque(types={'str': True}), default=Default())
             if _f == 'careful_getattr' else dict(md=TD(), inst=Opaque(), name=Opaque(types={'str': True})), exit_hook=_careful_exit)
    CAREFUL.append('DocumentTemplate.DT_Util.' + _f + '#C05')


# ------------------------------------------------------------------ Var.render: method formats go through the guard
from contracts.dt_var import _render_state, VAR, GI as _GI, HAS as _HAS, USTR as _USTR  # noqa


def _fmt_exit(E, outcome, value, env, prefix):
    ob = lambda n, c, d: E.oblige('%s::C05.%s' % (prefix, n), c, kind='post', detail=d)  # noqa
    calls = [t for t in E.trace if t[0] == 'call']
    reads = [c for c in calls if len(c[4]) == 2 and isinstance(c[4][1], VC) and c[4][1].v == 'mymethod']
    direct = [t for t in E.trace if t[0] == 'attr-read' and t[2] == 'mymethod']
    md = E.heap[env.locals['md'].addr]
    dct = E.heap[md.fields['_dict'].addr]
    guard = dict((k.v, v) for k, v in dct.entries if isinstance(k, VC)).get('guarded_getattr')
    notnone = E.valid(E.to_val(guard) != z3.Const('None', Val))
    if notnone:
        ob('method_format_read_via_guard', bool(not direct and all(c[3] is guard for c in reads)),
           'fmt=<method>: the method is fetched from the value through the guard, never with plain getattr')
    if reads or direct:
        ob('method_format_read_once', bool(len(reads) + len(direct) == 1), 'the method is fetched once')


contract(VAR + '.render', variant='C05.fmt', params=dict(self=NoneV(), md=TD()),
         pre_hook=_render_state({'': 'x', 'fmt': 'mymethod'}, 0), exit_hook=_fmt_exit, uses=[_GI, _HAS, _USTR + '#str'])
FMT = [VAR + '.render#C05.fmt']
