"""C05: security guards mediate every read of client data; '_' names stay private.

Two kinds of obligations:
  * contracts on the functions that wire the guards (Eval.eval, careful_getattr / careful_hasattr, InstanceDict.__getitem__,
    With.render, Var.render method formats, the dtml-in element fetch), proved by symbolic execution;
  * a site ledger: every attribute / item read in the rendering code (getattr / hasattr / .get(...) calls and the listed
    subscript / method reads) is enumerated from the AST on every run and must be classified; a read of client data that
    does not go through the guard is a refuted obligation (recorded known findings carry a native witness); a read that
    is not in the ledger at all is refuted as well, so a new getattr anywhere in the renderer cannot go unnoticed."""
import z3
from pyvc.contracts import *  # noqa
from pyvc.values import *  # noqa
from contracts.core import M

EV = 'DocumentTemplate.DT_Util.Eval'
GETITEM = M + '.TemplateDict.getitem'


def _lib_globals_keys():
    """keys of RestrictionCapableEval.globals as installed (library fact, read natively on every run)"""
    from RestrictedPython.Eval import RestrictionCapableEval
    import DocumentTemplate.DT_Util  # noqa  (its import patches the safe globals)
    return sorted(RestrictionCapableEval.globals.keys())


def _eval_state(guarded):
    def hook(E, env):
        cls = E.lookup_qual(EV)
        g = HDict()
        for k in _lib_globals_keys():
            g.entries.append([VC(k), VO('lib.globals[%s]' % k)])
        me = E.alloc(HObj(cls, {'globals': E.alloc(g), 'used': VT([VC('x')]), 'rcode': VO('self.rcode'), 'ucode': VO('self.ucode'),
                                'expr': VC('x')}, name='self', lazy=True))
        env.locals['self'] = me
        md = env.locals['md']
        dct = E.heap[E.heap[md.addr].fields['_dict'].addr]
        for e in dct.entries:
            if e[0].v == 'guarded_getattr':
                e[1] = VO('md.guarded_getattr') if guarded else NONE
        if guarded:
            E.assume(E.to_val(VO('md.guarded_getattr')) != z3.Const('None', Val))
            E.assume(E.to_val(VO('md.guarded_getitem')) != z3.Const('None', Val))
    return hook


def _eval_exit(guarded):
    def hook(E, outcome, value, env, prefix):
        ob = lambda n, c, d: E.oblige('%s::C05.%s' % (prefix, n), c, kind='post', detail=d)  # noqa
        evs = [t for t in E.trace if t[0] == 'call' and t[1] == 'eval']
        if not evs:
            return
        code, d = evs[-1][4][0], evs[-1][4][1]
        dd = E.heap[d.addr]
        ent = {}
        for k, v in dd.entries:
            if isinstance(k, VC):
                ent[k.v] = v
        me = E.heap[env.locals['self'].addr]
        if guarded:
            ob('eval.restricted_code_when_guarded', bool(code is me.fields.get('rcode')),
               'with security guards the expression runs as restricted code (every attribute / item access is rewritten to the guard hooks; '
               'underscore-prefixed attribute names are rejected by RestrictedPython at compile time)')
            ob('eval.getattr_hook_is_the_template_guard', bool(ent.get('_getattr_') is not None and ent['_getattr_'].name == 'md.guarded_getattr'),
               "attribute access inside the expression goes through the template's guarded_getattr")
            ob('eval.getitem_hook_is_the_template_guard', bool(ent.get('_getitem_') is not None and getattr(ent['_getitem_'], 'name', '') == 'md.guarded_getitem'),
               "item access inside the expression goes through the template's guarded_getitem")
        else:
            ob('eval.unrestricted_without_guards', bool(code is me.fields.get('ucode')), 'without guards the plain code object is used')
        ob('eval.namespace_is_underscore', bool(ent.get('_') is env.locals['md'] and ent.get('_vars') is env.locals['md']),
           'the namespace is available as _ (and _vars)')
    return hook


contract(GETITEM, variant='opaque', params=dict(self=TD(), key=Opaque(), call=Opaque()), raises_any=True, returns=Opaque())
EVAL = []
for _g in (True, False):
    _t = 'guarded' if _g else 'unguarded'
    contract(EV + '.eval', variant='C05.' + _t, params=dict(self=NoneV(), md=TD()), pre_hook=_eval_state(_g), exit_hook=_eval_exit(_g),
             uses=[GETITEM + '#opaque'])
    EVAL.append(EV + '.eval#C05.' + _t)


# ------------------------------------------------------------------ the site ledger
# Every getattr / hasattr / .get( call, every call of .absolute_url() and every subscript "local[parameter]" in the rendering
# modules is enumerated from the AST on every run and classified by WHAT IT READS, not by how the code is spelled (variable
# names, the enclosing helper function and the formatting of the call do not matter):
#   probe    hasattr(...): an existence probe, no data flows out of it; getattr(x, '<protocol name>'): protocol / marker
#            attributes of a value (taint protocol, isDocTemp, aq_base, ...) -- not client data
#   wiring   getattr(namespace, 'guarded_getattr' / 'guarded_getitem'): the read fetches the guard itself
#   own      getattr(self, <computed>) / getattr(<module>, ...) / self.<attr>.get(...) / <dict>.get('<constant key>'):
#            the object read is the tag, the namespace helper, a module or a dictionary of compiled tag parameters
#   CLIENT   anything else: an attribute / item whose NAME IS COMPUTED (or a non-protocol constant name) read directly from
#            a value -- client data read without the guard.  The sites that exist on the unchanged tree are recorded known
#            findings (by module, function, kind of read and ordinal among the reads of that kind in the function); any
#            further one is a refuted obligation.
PROTOCOL = {'__untaint__', '__class__', '__call__', '__render_with_namespace__', 'isDocTemp', 'aq_base', 'get', 'keys', '__getitem__',
            '__len__', 'exc_info', '__name__', '__bases__', 'simple_form', 'blockContinuations'}
GUARDS = {'guarded_getattr', 'guarded_getitem'}
OWN_MODULES = {'string', 'sys', 'math', 'random', 'os', 're'}
# (module, function, kind) -> [(class, remark / native witness site), ...] in source order
KNOWN_SITES = {
    ('DT_In', 'sort_sequence', 'getattr-dynamic'): [('CLIENT', 'DT_In.sort_sequence.getattr.multi'), ('CLIENT', 'DT_In.sort_sequence.getattr')],
    ('DT_In', 'sort_sequence', 'get-dynamic'): [('CLIENT', 'DT_In.sort_sequence.get.multi'), ('CLIENT', 'DT_In.sort_sequence.get')],
    ('DT_InSV', 'value', 'getattr-dynamic'): [('CLIENT', 'DT_InSV.value.getattr')],
    ('DT_InSV', 'value', 'subscript-dynamic'): [('CLIENT', 'DT_InSV.value.item')],
    ('DT_InSV', 'statistics', 'getattr-dynamic'): [('CLIENT', 'DT_InSV.statistics.getattr')],
    ('DT_InSV', 'statistics', 'subscript-dynamic'): [('CLIENT', 'DT_InSV.statistics.item')],
    ('DT_Var', 'render', 'call-absolute_url'): [('CLIENT', 'DT_Var.render.absolute_url'), ('CLIENT', 'DT_Var.render.absolute_url')],
    ('TreeTag', 'try_call_attr', 'getattr-dynamic'): [('CLIENT', 'TreeTag.try_call_attr')],
    ('TreeTag', 'tpRenderTABLE', 'getattr-dynamic'): [('CLIENT', 'TreeTag.tpRenderTABLE.sort')],
    ('TreeTag', 'extract_id', 'getattr-_p_oid'): [('CLIENT', 'TreeTag.extract_id._p_oid')],
    ('DT_Util', 'int_param', 'get-dynamic'): [('own', 'compiled tag parameters (the tag\'s own args dictionary, handed over by the renderer)')],
}
MODULES = {'_DocumentTemplate': 'DocumentTemplate/_DocumentTemplate.py', 'DT_Util': 'DocumentTemplate/DT_Util.py',
           'DT_In': 'DocumentTemplate/DT_In.py', 'DT_InSV': 'DocumentTemplate/DT_InSV.py', 'DT_Var': 'DocumentTemplate/DT_Var.py',
           'DT_With': 'DocumentTemplate/DT_With.py', 'DT_Let': 'DocumentTemplate/DT_Let.py', 'DT_Try': 'DocumentTemplate/DT_Try.py',
           'DT_Raise': 'DocumentTemplate/DT_Raise.py', 'DT_Return': 'DocumentTemplate/DT_Return.py', 'DT_If': 'DocumentTemplate/DT_If.py',
           'TreeTag': 'TreeDisplay/TreeTag.py'}


def known_client_sites():
    """oid -> native witness site, for the recorded known findings"""
    out = {}
    for (m, f, kind), entries in KNOWN_SITES.items():
        for i, (cls, rem) in enumerate(entries):
            if cls == 'CLIENT':
                out['C05.site.%s.%s.%s#%d' % (m, f, kind, i + 1)] = rem
    return out


def _classify_read(c, params):
    """(kind, class or None, remark) of one AST node; kind None: not a read the ledger looks at"""
    import ast
    if isinstance(c, ast.Call) and isinstance(c.func, ast.Name) and c.func.id == 'hasattr' and len(c.args) == 2:
        return 'hasattr', 'probe', 'existence probe'
    if isinstance(c, ast.Call) and isinstance(c.func, ast.Name) and c.func.id == 'getattr' and len(c.args) >= 2:
        recv, name = c.args[0], c.args[1]
        if isinstance(name, ast.Constant) and isinstance(name.value, str):
            if name.value in GUARDS:
                return 'getattr-guard', 'wiring', 'fetches the guard from the namespace'
            if name.value in PROTOCOL:
                return 'getattr-protocol', 'probe', 'protocol / marker attribute %s' % name.value
            return 'getattr-' + name.value, None, 'attribute %r read with plain getattr' % name.value
        if isinstance(recv, ast.Name) and (recv.id == 'self' or recv.id in OWN_MODULES):
            return 'getattr-own', 'own', 'computed attribute of the tag / helper object itself or of a module'
        return 'getattr-dynamic', None, 'attribute with a computed name read with plain getattr'
    if isinstance(c, ast.Call) and isinstance(c.func, ast.Attribute) and c.func.attr == 'get' and c.args:
        recv, key = c.func.value, c.args[0]
        if isinstance(key, ast.Constant):
            return 'get-constant', 'own', 'dictionary of compiled tag parameters, constant key'
        if isinstance(recv, ast.Attribute) and isinstance(recv.value, ast.Name) and recv.value.id == 'self':
            return 'get-own', 'own', 'dictionary held by the object itself'
        return 'get-dynamic', None, 'item with a computed key read with .get()'
    if isinstance(c, ast.Call) and isinstance(c.func, ast.Attribute) and c.func.attr == 'absolute_url':
        return 'call-absolute_url', None, 'absolute_url() of a value called directly'
    return None, None, None


def site_obligations():
    import ast
    import os
    from pyvc.engine import REPO_SRC
    out = []

    def ob(oid, status, detail):
        out.append(dict(oid='C05.site.' + oid, kind='structural', status=status, paths=1, backends=['ast'], ms=0, model=None,
                        detail=detail, havoced=False))
    for m, rel in MODULES.items():
        tree = ast.parse(open(os.path.join(REPO_SRC, rel)).read())
        for fn in [n for n in ast.walk(tree) if isinstance(n, ast.FunctionDef)]:
            params = {a.arg for a in fn.args.args + fn.args.kwonlyargs}
            nested = {id(x) for sub in ast.walk(fn) if isinstance(sub, ast.FunctionDef) and sub is not fn for x in ast.walk(sub)}
            counts = {}
            nodes = [c for c in ast.walk(fn) if id(c) not in nested]
            # the idiom "item[name] if mapping else getattr(item, name)": a subscript with the same receiver and key as a
            # computed getattr in the same function reads the same client data
            pairs = {(c.args[0].id, c.args[1].id) for c in nodes if isinstance(c, ast.Call) and isinstance(c.func, ast.Name) and c.func.id == 'getattr'
                     and len(c.args) >= 2 and isinstance(c.args[0], ast.Name) and isinstance(c.args[1], ast.Name)
                     and c.args[0].id != 'self' and c.args[0].id not in OWN_MODULES}
            nodes.sort(key=lambda c: (getattr(c, 'lineno', 0), getattr(c, 'col_offset', 0)))
            for c in nodes:
                kind, cls, rem = _classify_read(c, params)
                if kind is None and isinstance(c, ast.Subscript) and isinstance(c.ctx, ast.Load) and isinstance(c.value, ast.Name) \
                        and isinstance(c.slice, ast.Name) and (c.value.id, c.slice.id) in pairs:
                    kind, cls, rem = 'subscript-dynamic', None, 'item named by a parameter read with a plain subscript'
                if kind is None:
                    continue
                counts[kind] = counts.get(kind, 0) + 1
                oid = '%s.%s.%s#%d' % (m, fn.name, kind, counts[kind])
                text = ast.unparse(c)
                if cls is not None:
                    ob(oid, 'discharged', '%s: %s (%s)' % (text, cls, rem))
                    continue
                known = KNOWN_SITES.get((m, fn.name, kind), [])
                if counts[kind] <= len(known):
                    kc, krem = known[counts[kind] - 1]
                    if kc == 'CLIENT':
                        ob(oid, 'refuted', 'client data is read without the guard: %s in %s.%s [%s]' % (text, m, fn.name, krem))
                    else:
                        ob(oid, 'discharged', '%s: %s (%s)' % (text, kc, krem))
                else:
                    ob(oid, 'refuted', 'a read of a value that does not go through the guard and is not a probe, guard wiring or a read of the '
                                       'renderer\'s own objects: %s in %s.%s (%s)' % (text, m, fn.name, rem))
    return out


# ------------------------------------------------------------------ careful_getattr / careful_hasattr, method formats
def _careful_exit(E, outcome, value, env, prefix):
    ob = lambda n, c, d: E.oblige('%s::C05.%s' % (prefix, n), c, kind='post', detail=d)  # noqa
    calls = [t for t in E.trace if t[0] == 'call']
    md = E.heap[env.locals['md'].addr]
    dct = E.heap[md.fields['_dict'].addr]
    guard = dict((k.v, v) for k, v in dct.entries if isinstance(k, VC)).get('guarded_getattr')
    none = E.valid(E.to_val(guard) == z3.Const('None', Val))
    notnone = E.valid(E.to_val(guard) != z3.Const('None', Val))
    ok = len(calls) == 1 and len(calls[0][4]) == 2 and calls[0][4][0] is env.locals['inst'] and calls[0][4][1] is env.locals['name']
    ob('careful.reads_once', bool(ok), '_.getattr / _.hasattr read the attribute (inst, name) exactly once')
    if ok and notnone:
        ob('careful.via_guard', bool(calls[0][3] is guard), 'through the guard when there is one')
    if ok and none:
        ob('careful.plain_without_guard', bool(getattr(calls[0][3], 'name', '') == 'getattr'), 'with plain getattr when there is none')


CAREFUL = []
for _f in ('careful_getattr', 'careful_hasattr'):
    contract('DocumentTemplate.DT_Util.' + _f, variant='C05', params=dict(md=TD(), inst=Opaque(), name=Opaque(types={'str': True}), default=Default())
             if _f == 'careful_getattr' else dict(md=TD(), inst=Opaque(), name=Opaque(types={'str': True})), exit_hook=_careful_exit)
    CAREFUL.append('DocumentTemplate.DT_Util.' + _f + '#C05')


# ------------------------------------------------------------------ Var.render: method formats go through the guard
from contracts.dt_var import _render_state, VAR, GI as _GI, HAS as _HAS, USTR as _USTR  # noqa


def _fmt_exit(E, outcome, value, env, prefix):
    ob = lambda n, c, d: E.oblige('%s::C05.%s' % (prefix, n), c, kind='post', detail=d)  # noqa
    calls = [t for t in E.trace if t[0] == 'call']
    reads = [c for c in calls if len(c[4]) == 2 and isinstance(c[4][1], VC) and c[4][1].v == 'mymethod']
    direct = [t for t in E.trace if t[0] == 'attr-read' and t[2] == 'mymethod']
    md = E.heap[env.locals['md'].addr]
    dct = E.heap[md.fields['_dict'].addr]
    guard = dict((k.v, v) for k, v in dct.entries if isinstance(k, VC)).get('guarded_getattr')
    notnone = E.valid(E.to_val(guard) != z3.Const('None', Val))
    if notnone:
        ob('method_format_read_via_guard', bool(not direct and all(c[3] is guard for c in reads)),
           'fmt=<method>: the method is fetched from the value through the guard, never with plain getattr')
    if reads or direct:
        ob('method_format_read_once', bool(len(reads) + len(direct) == 1), 'the method is fetched once')


contract(VAR + '.render', variant='C05.fmt', params=dict(self=NoneV(), md=TD()),
         pre_hook=_render_state({'': 'x', 'fmt': 'mymethod'}, 0), exit_hook=_fmt_exit, uses=[_GI, _HAS, _USTR + '#str'])
FMT = [VAR + '.render#C05.fmt']
