"""Contracts for DT_Try / DT_Raise / DT_Return control flow (C14)."""
import z3
from pyvc.contracts import *  # noqa
from pyvc.values import *  # noqa
from pyvc.engine import Unsupported
from contracts.core import M, _same

RB = M + ".render_blocks"
GI = M + ".TemplateDict.__getitem__"
TRY = 'DocumentTemplate.DT_Try.Try'
SS = z3.StringSort()

# uninterpreted class-graph observers: name of a class, "some proper ancestor of c is named n"
cname = z3.Function('class_name', Val, SS)
anc = z3.Function('anc', Val, SS, z3.BoolSort())


def _renders(trace):
    out = []
    for t in trace:
        if t[0] == 'contract-call' and t[1] == RB:
            out.append(dict(blocks=t[2].get('blocks'), md=t[2].get('md'), stack=t[3].get('md'), ret=None, exc=None))
        elif t[0] == 'contract-ret' and t[1] == RB and out and out[-1]['ret'] is None and out[-1]['exc'] is None:
            out[-1]['ret'] = t[2]
        elif t[0] == 'contract-raise' and t[1] == RB and out and out[-1]['ret'] is None and out[-1]['exc'] is None:
            out[-1]['exc'] = t[2]
    return out


def may_be(e, cls):
    """can the (possibly symbolic) exception e be an instance of cls?"""
    if not e.sym:
        return exc_is_sub(e.cls, cls)
    if exc_is_sub(e.cls, cls):
        return True
    return exc_is_sub(cls, e.cls) and not any(exc_is_sub(cls, g) for g in e.neg)


def _add(E, a, b):
    saved = E.spec_mode
    E.spec_mode = True
    try:
        return E.binop('Add', a, b)
    finally:
        E.spec_mode = saved


def _field(E, env, name):
    return E.eval_spec('self.' + name, env)


# ------------------------------------------------------------------ match_base
def _mb_pre(E, env):
    exc = env.locals['exception']
    name = env.locals['name']
    bases = VSeq('bases_' + exc.name, z3.Int('len_bases_' + exc.name))
    E.assume(bases.length >= 0)
    E.ghost[('attr', exc.name, '__bases__')] = bases
    i = z3.Int('i!anc')
    n = E.as_z3_str(name)
    # definition of anc at this class (well-founded class graph assumed)
    E.assume(anc(exc.t, n) == z3.Exists([i], z3.And(i >= 0, i < bases.length,
                                                    z3.Or(cname(bases.elem(i)) == n, anc(bases.elem(i), n)))))
    env.locals['__bases'] = bases


contract(TRY + '.match_base',
         params=dict(self=Obj(TRY, lazy=True), exception=Opaque(), name=Str()),
         pre_hook=_mb_pre,
         ensures=dict(iff_ancestor="truthy_(result) == anc_(exception, name)"),
         raises=[], uses=[TRY + '.match_base'],
         returns=Opaque(),
         invariants={1: dict(header="for base in exception.__bases__",
                             inv=dict(none_so_far="forall_bases_before_no_match(__bases, __k_1, name)"),
                             types={'base': 'opaque'})})

from pyvc import spec as _spec  # noqa


def _anc(E, exc, name):
    return VB(anc(E.to_val(exc), E.as_z3_str(name)))


def _no_match_before(E, bases, k, name):
    i = z3.Int('i!nm')
    n = E.as_z3_str(name)
    kk = E.as_z3_int(k)
    return VB(z3.ForAll([i], z3.Implies(z3.And(i >= 0, i < kk),
                                        z3.Not(z3.Or(cname(bases.elem(i)) == n, anc(bases.elem(i), n))))))


_spec.register('anc_', _anc)
_spec.register('forall_bases_before_no_match', _no_match_before)


# ------------------------------------------------------------------ find_handler
def _fh_pre(k):
    def hook(E, env):
        items = [VT([VS(z3.String('hname%d' % i)), VO('hblock%d' % i)]) for i in range(k)]
        E.heap[env.locals['self'].addr].fields['handlers'] = E.alloc(HList(items))
        env.locals['__handlers'] = VT(items)
    return hook


def _fh_exit(k):
    def hook(E, outcome, value, env, prefix):
        if outcome != 'normal':
            return
        exc = env.locals['exception']
        hs = env.locals['__handlers'].items
        match = [z3.Or(E.as_z3_str(h.items[0]) == cname(exc.t), E.as_z3_str(h.items[0]) == z3.StringVal(''),
                       anc(exc.t, E.as_z3_str(h.items[0]))) for h in hs]
        res = E.to_val(value)
        for j in range(k):
            first_j = z3.And(match[j], *[z3.Not(m) for m in match[:j]])
            E.oblige(prefix + '::C14.first_matching_handler_%d' % j, z3.Implies(first_j, res == E.to_val(hs[j].items[1])),
                     kind='post', detail='handler %d is chosen iff it is the first naming the class, a base class, or bare' % j)
        E.oblige(prefix + '::C14.no_handler_none', z3.Implies(z3.And(*[z3.Not(m) for m in match]) if match else z3.BoolVal(True),
                                                              res == E.to_val(NONE)),
                 kind='post', detail='no matching handler: None')
    return hook


for _k in range(0, 5):
    contract(TRY + '.find_handler', variant='handlers%d' % _k,
             params=dict(self=Obj(TRY, lazy=True), exception=Opaque()),
             pre_hook=_fh_pre(_k), exit_hook=_fh_exit(_k), raises=[], uses=[TRY + '.match_base'])


# ---- find_handler for a handler list of ANY length: loop invariant "no handler before position k matches" -------
hname = z3.Function('handler_name', z3.IntSort(), SS)
hblock = z3.Function('handler_block', z3.IntSort(), Val)


def _hmatch(exc_t, i):
    return z3.Or(hname(i) == cname(exc_t), hname(i) == z3.StringVal(''), anc(exc_t, hname(i)))


def _fhN_pre(E, env):
    from pyvc.engine import VO_term
    n = z3.Int('n_handlers')
    E.assume(n >= 0)

    def elem(E_, k):
        return VT([VS(hname(k)), VO_term(hblock(k), 'handler_block[%s]' % z3.simplify(k))])
    hs = VSeq('handlers', n, kind='list', elem_fn=elem)
    E.heap[env.locals['self'].addr].fields['handlers'] = hs
    env.locals['__handlers'] = hs


def _no_handler_before(E, k, exc):
    i = z3.Int('i!nh')
    return VB(z3.ForAll([i], z3.Implies(z3.And(i >= 0, i < E.as_z3_int(k)), z3.Not(_hmatch(E.to_val(exc), i)))))


_spec.register('forall_handlers_before_no_match', _no_handler_before)


def _fhN_exit(E, outcome, value, env, prefix):
    if outcome != 'normal':
        return
    exc = env.locals['exception']
    n = z3.Int('n_handlers')
    res = E.to_val(value)
    i, j = z3.Int('i!fh'), z3.Int('j!fh')
    first_j = z3.And(j >= 0, j < n, _hmatch(exc.t, j), z3.ForAll([i], z3.Implies(z3.And(i >= 0, i < j), z3.Not(_hmatch(exc.t, i)))))
    E.oblige(prefix + '::C14.first_matching_handler_any_length', z3.ForAll([j], z3.Implies(first_j, res == hblock(j))), kind='post',
             detail='for a handler list of any length: the result is the body of the first handler naming the class, one of its '
                    '(transitive) base classes, or nothing (bare except)')
    E.oblige(prefix + '::C14.no_handler_none_any_length',
             z3.Implies(z3.ForAll([i], z3.Implies(z3.And(i >= 0, i < n), z3.Not(_hmatch(exc.t, i)))), res == E.to_val(NONE)), kind='post',
             detail='for a handler list of any length: None when no handler matches')


contract(TRY + '.find_handler', variant='handlersN',
         params=dict(self=Obj(TRY, lazy=True), exception=Opaque()),
         pre_hook=_fhN_pre, exit_hook=_fhN_exit, raises=[], uses=[TRY + '.match_base'],
         invariants={1: dict(header='for e, h in self.handlers',
                             inv=dict(none_so_far="forall_handlers_before_no_match(__k_1, exception)"),
                             types={'e': 'str', 'h': 'opaque'})})


# ------------------------------------------------------------------ render_try_except
def _rte_exit(E, outcome, value, env, prefix):
    if getattr(E, 'trace_truncated', False):
        raise Unsupported('trace truncated')
    rs = _renders(E.trace)
    section = _field(E, env, 'section')
    ob = lambda n, c, d: E.oblige(prefix + '::C14.' + n, c, kind='trace', detail=d)  # noqa
    if not rs:
        return
    ob('body_rendered_first', _same(E, rs[0]['blocks'], section), 'the try body is rendered first')
    fh = [t for t in E.trace if t[0] == 'contract-call' and t[1] == TRY + '.find_handler']
    fh_ret = [t for t in E.trace if t[0] == 'contract-ret' and t[1] == TRY + '.find_handler']
    if rs[0]['ret'] is not None:
        # body raised nothing
        ob('no_handler_search_without_exception', len(fh) == 0, 'handlers are consulted only when the body raised')
        if len(rs) == 1:
            if outcome == 'normal':
                ob('result_is_body', _same(E, value, rs[0]['ret']), 'without else the result is the body\'s output')
        else:
            ob('else_after_body', len(rs) == 2 and bool(E.valid(_same(E, rs[1]['blocks'], _field(E, env, 'elseBlock')))),
               'only the else body is rendered after a body that raised nothing')
            if rs[1]['exc'] is not None:
                ob('else_exception_propagates', outcome == 'raise' and value is rs[1]['exc'],
                   'an exception raised inside the else body propagates (not handled by the except clauses)')
            elif outcome == 'normal':
                want = _add(E, rs[0]['ret'], rs[1]['ret'])
                ob('result_is_body_plus_else', _same(E, value, want), 'else output is appended to the body output')
        return
    e1 = rs[0]['exc']
    if may_be(e1, 'DTReturn') and not (e1.sym and e1.cls != 'DTReturn' and 'DTReturn' in e1.neg):
        ob('return_passes_through', outcome == 'raise' and value is e1 and len(rs) == 1 and len(fh) == 0,
           'dtml-return inside a try body is not caught by except handlers')
        return
    ob('handler_searched_once', len(fh) == 1, 'find_handler is consulted exactly once for a body exception')
    if len(fh) != 1:
        return
    if not fh_ret:
        return
    h = fh_ret[0][2]
    if E.valid(E.to_val(h) == E.to_val(NONE)):
        ob('unmatched_exception_propagates', outcome == 'raise' and value is e1 and len(rs) == 1,
           'an exception no handler matches propagates unchanged; nothing else is rendered')
        return
    ob('only_handler_rendered', len(rs) == 2 and bool(E.valid(_same(E, rs[1]['blocks'], h))),
       'exactly the chosen handler is rendered (and no else)')
    if len(rs) != 2:
        return
    # error_type / error_value bound inside the handler only: pushed on top, popped afterwards (C08)
    st = rs[1]['stack'] or []
    top = st[-1] if st else None
    ok = False
    if isinstance(top, VRef) and isinstance(E.heap[top.addr], HObj) and getattr(E.heap[top.addr].cls, 'name', '') == 'InstanceDict':
        inst = E.heap[top.addr].fields.get('inst')
        if isinstance(inst, VRef):
            d = E.heap[inst.addr].fields.get('_data')
            if isinstance(d, VRef) and isinstance(E.heap[d.addr], HDict):
                ent = {k.v: v for k, v in E.heap[d.addr].entries if isinstance(k, VC)}
                ok = ('error_type' in ent and 'error_value' in ent and ent['error_value'] is e1)
    ob('handler_sees_error_value', ok, 'the handler is rendered with error_type/error_value (the caught exception) bound on top of the namespace')
    if rs[1]['exc'] is not None:
        ob('handler_exception_propagates', outcome == 'raise' and value is rs[1]['exc'], 'an exception raised inside a handler propagates')
    elif outcome == 'normal':
        ob('handler_output_replaces_body', _same(E, value, rs[1]['ret']), 'the handler\'s output replaces the body\'s')


contract(TRY + '.render_try_except', variant='C14',
         params=dict(self=Obj(TRY, lazy=True), md=TD()),
         # error_type / error_value are bound inside the handler only: gone on every exit
         ensures={'C14.error_binding_gone_after_handler': "stack_unchanged(md)"},
         exc_ensures={'C14.error_binding_gone_after_handler': "stack_unchanged(md)"},
         exit_hook=_rte_exit, uses=[RB, TRY + '.find_handler'])


# ------------------------------------------------------------------ render_try_finally
def _rtf_exit(E, outcome, value, env, prefix):
    rs = _renders(E.trace)
    ob = lambda n, c, d: E.oblige(prefix + '::C14.' + n, c, kind='trace', detail=d)  # noqa
    if not rs:
        return
    ob('body_first', _same(E, rs[0]['blocks'], _field(E, env, 'section')), 'the try body is rendered first')
    ob('finally_exactly_once', len(rs) == 2 and bool(E.valid(_same(E, rs[1]['blocks'], _field(E, env, 'finallyBlock')))),
       'the finally body is rendered exactly once on every path (found %d renderings)' % (len(rs) - 1))
    if len(rs) != 2:
        return
    if rs[1]['exc'] is not None:
        ob('finally_exception_wins', outcome == 'raise' and value is rs[1]['exc'], 'an exception in the finally body propagates')
    elif rs[0]['exc'] is not None:
        ob('pending_exception_continues', outcome == 'raise' and value is rs[0]['exc'],
           'after the finally body the pending exception or dtml-return continues')
    elif outcome == 'normal':
        ob('result_is_body_plus_finally', _same(E, value, _add(E, rs[0]['ret'], rs[1]['ret'])), 'normal result')


contract(TRY + '.render_try_finally', variant='C14',
         params=dict(self=Obj(TRY, lazy=True), md=TD()), exit_hook=_rtf_exit, uses=[RB])


# ------------------------------------------------------------------ Raise / Return
def _raise_exit(E, outcome, value, env, prefix):
    rs = _renders(E.trace)
    ob = lambda n, c, d: E.oblige(prefix + '::C14.' + n, c, kind='trace', detail=d)  # noqa
    ob('always_raises', outcome == 'raise', 'dtml-raise never completes normally')
    if rs:
        ob('body_rendered_once', len(rs) == 1 and bool(E.valid(_same(E, rs[0]['blocks'], _field(E, env, 'section')))),
           'the body (the message) is rendered exactly once')
        if rs[0]['exc'] is not None and may_be(rs[0]['exc'], 'DTReturn'):
            ob('return_passes_through', outcome == 'raise' and value is rs[0]['exc'],
               'dtml-return inside a dtml-raise body ends the template call (is not swallowed)')


contract('DocumentTemplate.DT_Raise.Raise.render', variant='C14',
         params=dict(self=Obj('DocumentTemplate.DT_Raise.Raise', lazy=True), md=TD()),
         exit_hook=_raise_exit, uses=[RB])


def _return_exit(E, outcome, value, env, prefix):
    ob = lambda n, c, d: E.oblige(prefix + '::C14.' + n, c, kind='trace', detail=d)  # noqa
    lookups = [t for t in E.trace if t[0] == 'contract-ret' and t[1] == GI]
    calls = [t for t in E.trace if t[0] == 'returned']
    lookup_raised = any(t[0] == 'contract-raise' and t[1] == GI for t in E.trace)
    call_raised = any(t[0] == 'raised-by' for t in E.trace)
    if lookup_raised or call_raised or (outcome == 'raise' and value.sym):
        return
    ob('raises_DTReturn', outcome == 'raise' and value.cls == 'DTReturn' and not value.sym, 'dtml-return raises DTReturn')
    if outcome == 'raise' and value.cls == 'DTReturn' and not value.sym:
        got = value.fields.get('v')
        src = lookups[-1][2] if lookups else (calls[-1][3] if calls else None)
        ob('carries_the_value', src is not None and got is src, 'the DTReturn carries the looked-up / computed value unchanged (any type)')


contract('DocumentTemplate.DT_Return.ReturnTag.render', variant='C14',
         params=dict(self=Obj('DocumentTemplate.DT_Return.ReturnTag', lazy=True), md=TD()),
         exit_hook=_return_exit, uses=[GI])
