"""Contracts for the block tags: With, Let, Try, Raise, ReturnTag (C08, C14, C02)."""
from pyvc.contracts import *  # noqa
from contracts.core import SN, M

RB = M + ".render_blocks"
GI = M + ".TemplateDict.__getitem__"

contract('DocumentTemplate.DT_With.With.render',
         params=dict(self=Obj('DocumentTemplate.DT_With.With', lazy=True), md=TD()),
         ensures=dict(SN), exc_ensures=dict(SN), uses=[RB, GI])

contract('DocumentTemplate.DT_Let.Let.render',
         params=dict(self=Obj('DocumentTemplate.DT_Let.Let', lazy=True, fields={'args': Seq()}), md=TD()),
         ensures=dict(SN), exc_ensures=dict(SN), uses=[RB, GI],
         invariants={1: dict(header="for (name, expr) in self.args",
                             inv=dict(pushed="stack_extra(md) == 1", level="level_of(md) == old(level_of(md))"),
                             havoc_heap=["d"], types={'name': 'opaque', 'expr': 'opaque'})})

TRY = 'DocumentTemplate.DT_Try.Try'
contract(TRY + '.render',
         params=dict(self=Obj(TRY, lazy=True), md=TD()),
         ensures=dict(SN), exc_ensures=dict(SN), uses=[TRY + '.render_try_except', TRY + '.render_try_finally'])
contract(TRY + '.render_try_except',
         params=dict(self=Obj(TRY, lazy=True), md=TD()),
         ensures=dict(SN), exc_ensures=dict(SN), raises_any=True, returns=Opaque(),
         uses=[RB, TRY + '.find_handler'])
contract(TRY + '.render_try_finally',
         params=dict(self=Obj(TRY, lazy=True), md=TD()),
         ensures=dict(SN), exc_ensures=dict(SN), raises_any=True, returns=Opaque(), uses=[RB])
contract(TRY + '.find_handler',
         params=dict(self=Obj(TRY, lazy=True), exception=Opaque()),
         raises_any=True, returns=Opaque())

contract('DocumentTemplate.DT_Raise.Raise.render',
         params=dict(self=Obj('DocumentTemplate.DT_Raise.Raise', lazy=True), md=TD()),
         exc_ensures=dict(SN), uses=[RB])
contract('DocumentTemplate.DT_Return.ReturnTag.render',
         params=dict(self=Obj('DocumentTemplate.DT_Return.ReturnTag', lazy=True), md=TD()),
         exc_ensures=dict(SN), uses=[GI])
