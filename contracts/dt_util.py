"""Contracts for DocumentTemplate.DT_Util (SequenceFromIter, int_param, ...)."""
from pyvc.contracts import *  # noqa

SFI = 'DocumentTemplate.DT_Util.SequenceFromIter'

# Representation invariant of SequenceFromIter: ``data`` is exactly the prefix of the
# iterator's output consumed so far, in order, each element once; ``finished`` only
# after the iterator is exhausted.
SFI_INV = {
    "inv_len":    "len_of(self.data) == iter_pos(self.it)",
    "inv_prefix": "list_prefix_of_iter(self.data, self.it)",
    "inv_fin":    "implies(self.finished, iter_pos(self.it) == iter_len(self.it))",
    "inv_pos":    "iter_pos(self.it) <= iter_len(self.it)",
}
SFI_REQ = list(SFI_INV.values()) + ["iter_pos(self.it) >= 0"]


def _sfi_self(infinite=False):
    return Obj(SFI, fields={'it': GhostIter(infinite=infinite), 'data': ListS(), 'finished': Bool()},
               lazy=False, prov='fresh')


def _sfi_effects(E, env, outcome):
    ref = env['self']
    for f, t in (('data', None), ('finished', 'bool')):
        E.havoc_field(ref, f, t)
    E.havoc_field(E.heap[ref.addr].fields['it'], 'pos', 'int')


GETITEM_LOOP = {1: dict(
    header="not self.finished and idx >= len(self.data)",
    inv=dict(SFI_INV,
             pos_mono="iter_pos(self.it) >= old_pos",
             pos_bound="iter_pos(self.it) <= imax(old_pos, idx + 1)",
             idx_nonneg="idx >= 0"),
    ghost={'old_pos': "iter_pos(self.it)"},
    ghost_types={'old_pos': 'same'},
    havoc_fields=[("self", "data", None), ("self", "finished", "bool"), ("self.it", "pos", "int")],
    decreases="idx + 1 - len_of(self.data) + (0 if self.finished else 1)",
)}

contract(SFI + ".__getitem__",
         params=dict(self=_sfi_self(), idx=Int()),
         requires=SFI_REQ,
         ensures=dict(SFI_INV,
                      in_range="0 <= idx and idx < iter_len(self.it)",
                      element="val_is(result, iter_elem(self.it, idx))",
                      # C12: pulls strictly in order, each element at most once, never beyond idx
                      pulled="iter_pos(self.it) == imax(old(iter_pos(self.it)), idx + 1)"),
         exc_ensures=dict(SFI_INV,
                          only_out_of_range="idx < 0 or idx >= iter_len(self.it)",
                          neg_pulls_nothing="implies(idx < 0, iter_pos(self.it) == old(iter_pos(self.it)))",
                          exhausted="implies(idx >= 0, iter_pos(self.it) == iter_len(self.it) and self.finished)"),
         raises=['IndexError'],
         invariants=GETITEM_LOOP,
         effects=_sfi_effects)

contract(SFI + ".__getitem__", variant='unbounded',
         params=dict(self=_sfi_self(infinite=True), idx=Int()),
         requires=["len_of(self.data) == iter_pos(self.it)", "list_prefix_of_iter(self.data, self.it)",
                   "not self.finished", "iter_pos(self.it) >= 0"],
         ensures=dict(inv_len="len_of(self.data) == iter_pos(self.it)",
                      inv_prefix="list_prefix_of_iter(self.data, self.it)",
                      not_finished="not self.finished",
                      element="val_is(result, iter_elem(self.it, idx))",
                      pulled="iter_pos(self.it) == imax(old(iter_pos(self.it)), idx + 1)"),
         exc_ensures=dict(only_negative="idx < 0",
                          neg_pulls_nothing="iter_pos(self.it) == old(iter_pos(self.it))"),
         raises=['IndexError'],
         invariants={1: dict(
             header="not self.finished and idx >= len(self.data)",
             inv=dict(inv_len="len_of(self.data) == iter_pos(self.it)",
                      inv_prefix="list_prefix_of_iter(self.data, self.it)",
                      not_finished="not self.finished",
                      pos_mono="iter_pos(self.it) >= old_pos",
                      pos_bound="iter_pos(self.it) <= imax(old_pos, idx + 1)",
                      idx_nonneg="idx >= 0"),
             ghost={'old_pos': "iter_pos(self.it)"}, ghost_types={'old_pos': 'same'},
             havoc_fields=[("self", "data", None), ("self", "finished", "bool"), ("self.it", "pos", "int")],
             decreases="idx + 1 - len_of(self.data)")})

contract(SFI + ".__len__",
         params=dict(self=_sfi_self()),
         requires=SFI_REQ,
         ensures=dict(SFI_INV,
                      length="result == iter_len(self.it)",
                      all_pulled="iter_pos(self.it) == iter_len(self.it)",
                      finished="self.finished"),
         raises=[],
         uses=[SFI + ".__getitem__"],
         invariants={1: dict(
             header="not self.finished",
             inv=dict(SFI_INV),
             havoc_fields=[("self", "data", None), ("self", "finished", "bool"), ("self.it", "pos", "int")],
             decreases="iter_len(self.it) - iter_pos(self.it) + (0 if self.finished else 1)")},
         effects=_sfi_effects)


# sequence_ensure_subscription: a value that already supports sequence subscription (a list, a
# tuple, a SequenceFromIter - all modelled as abstract sequences) is returned as is; anything
# else is wrapped once in a lazily pulling SequenceFromIter.
def _ses_hook(E, env):
    from pyvc.values import VSeq, VRef, HList
    obj = env['obj']
    if isinstance(obj, VSeq) or (isinstance(obj, VRef) and isinstance(E.heap[obj.addr], HList)):
        return obj
    return None


contract('DocumentTemplate.DT_Util.sequence_ensure_subscription',
         params=dict(obj=Opaque()), raises_any=True,
         returns=Seq(lazy=True, kind='any'), call_hook=_ses_hook)
