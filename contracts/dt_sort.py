"""C13: sorting in dtml-in -- key extraction and decoration (sort_sequence), the comparator (SortBy, cmp, nocase,
make_sortfunctions), reverse on a copy (reverse_sequence).  Order, permutation and stability themselves are the
library contract of list.sort(key=...) (assumed: stable, ascending by key); what is proved is that the real code hands
list.sort exactly the decorated pairs and the key/comparator the property describes, and nothing else."""
import z3
from pyvc.contracts import *  # noqa
from pyvc.values import *  # noqa
from pyvc import spec as _spec
from contracts.core import M

IN = 'DocumentTemplate.DT_In.InClass'
DTIN = 'DocumentTemplate.DT_In'


def _calls(trace):
    out = []
    for t in trace:
        if t[0] == 'call':
            out.append(dict(fn=t[3], args=t[4], label=t[1], ret=None, raised=False))
        elif t[0] == 'returned' and out:
            out[-1]['ret'] = t[3]
        elif t[0] == 'raised-by' and out:
            out[-1]['raised'] = True
    return out


def _ob(E, prefix):
    return lambda n, c, d: E.oblige('%s::C13.%s' % (prefix, n), c, kind='post', detail=d)


# ------------------------------------------------------------------ SortBy.__call__
def _sortby_state(nkeys, multsort):
    def hook(E, env):
        cls = E.lookup_qual(DTIN + '.SortBy')
        sf = [VT([VC('k%d' % i), VO('func%d' % i, 'int-valued'), VI(z3.Int('mult%d' % i))]) for i in range(nkeys)]
        for i in range(nkeys):
            E.assume(z3.Or(z3.Int('mult%d' % i) == 1, z3.Int('mult%d' % i) == -1))
        me = E.alloc(HObj(cls, {'multsort': VC(1 if multsort else 0), 'sf_list': E.alloc(HList(sf))}, name='by'))
        env.locals['self'] = me
        if multsort:
            k1 = E.alloc(HList([VO('a%d' % i) for i in range(nkeys)]))
            k2 = E.alloc(HList([VO('b%d' % i) for i in range(nkeys)]))
            env.locals['o1'] = VT([k1, VO('client1')])
            env.locals['o2'] = VT([k2, VO('client2')])
        else:
            env.locals['o1'] = VT([VO('a0'), VO('client1')])
            env.locals['o2'] = VT([VO('b0'), VO('client2')])
    return hook


def _sortby_exit(nkeys):
    def hook(E, outcome, value, env, prefix):
        ob = _ob(E, prefix)
        cs = _calls(E.trace)
        # comparison functions are called in key order on the i-th components, stopping at the first non-zero result
        ok_order = all(isinstance(c['fn'], VO) and c['fn'].name == 'func%d' % i and len(c['args']) == 2
                       and getattr(c['args'][0], 'name', None) == 'a%d' % i and getattr(c['args'][1], 'name', None) == 'b%d' % i
                       for i, c in enumerate(cs))
        ob('compares_keys_in_order', bool(ok_order and len(cs) <= nkeys),
           'key i is compared with comparison function i, first key first (lexicographic)')
        if outcome != 'normal':
            ob('raises_only_from_comparison', bool(value.sym and cs and cs[-1]['raised']), 'only a comparison function can raise')
            return
        earlier = [c for c in cs[:-1]]
        zero = [E.valid(z3.Not(E.truth_term(c['ret']))) if not isinstance(E.truth_term(c['ret']), bool) else not E.truth_term(c['ret'])
                for c in earlier]
        ob('earlier_keys_compare_equal', bool(all(zero)), 'a later key decides only when all earlier keys compare equal')
        last = cs[-1] if cs else None
        lt = E.truth_term(last['ret']) if last else False
        decided = last is not None and (lt is True or (not isinstance(lt, bool) and E.valid(lt)))
        if decided:
            i = len(cs) - 1
            ob('result_is_first_difference_times_direction',
               E.as_z3_int(value) == E.as_z3_int(last['ret']) * z3.Int('mult%d' % i),
               'result == func_i(a_i, b_i) * (+1 asc / -1 desc) for the first key that differs')
        else:
            ob('all_equal_is_zero', z3.And(z3.BoolVal(len(cs) == nkeys), E.as_z3_int(value) == 0),
               'all keys equal: 0 (list.sort keeps the original relative order: stability)')
    return hook


SORTBY = []
for _n, _m in ((1, False), (1, True), (2, True), (3, True)):
    _v = '%dkeys%s' % (_n, '.multsort' if _m else '')
    contract(DTIN + '.SortBy.__call__', variant=_v, params=dict(self=NoneV(), o1=NoneV(), o2=NoneV()),
             pre_hook=_sortby_state(_n, _m), exit_hook=_sortby_exit(_n))
    SORTBY.append(DTIN + '.SortBy.__call__#' + _v)


# ------------------------------------------------------------------ cmp, nocase
def _cmp_exit(E, outcome, value, env, prefix):
    ob = _ob(E, prefix)
    a, b = env.locals['a'], env.locals['b']
    if outcome != 'normal':
        ob('cmp.raises_only_from_ordering', bool(value.sym), 'cmp raises only what a < b / a > b raise')
        return
    gt = z3.Function('cmp_Gt', Val, Val, z3.BoolSort())(a.t, b.t)
    lt = z3.Function('cmp_Lt', Val, Val, z3.BoolSort())(a.t, b.t)
    ob('cmp.sign', E.as_z3_int(value) == z3.If(gt, 1, 0) - z3.If(lt, 1, 0), 'cmp(a, b) == (a > b) - (a < b): -1 / 0 / +1')


contract(DTIN + '.cmp', variant='C13', params=dict(a=Opaque(), b=Opaque()), exit_hook=_cmp_exit)


def _nocase_exit(E, outcome, value, env, prefix):
    ob = _ob(E, prefix)
    lower = z3.Function('str_lower', z3.StringSort(), z3.StringSort())
    a, b = lower(z3.String('str1')), lower(z3.String('str2'))
    ob('nocase.compares_lowercased', bool(outcome == 'normal') and E.as_z3_int(value) == z3.If(b < a, 1, 0) - z3.If(a < b, 1, 0),
       'nocase(s1, s2) == cmp(s1.lower(), s2.lower())')


contract(DTIN + '.nocase', variant='C13', params=dict(str1=Str(), str2=Str()), exit_hook=_nocase_exit)
HELPERS = [DTIN + '.cmp#C13', DTIN + '.nocase#C13']


# ------------------------------------------------------------------ make_sortfunctions
def _msf_state(fields):
    def hook(E, env):
        env.locals['sortfields'] = E.alloc(HList([VC(f) for f in fields]))
    return hook


def _msf_exit(fields, want):
    """want: list of (name, function spec, multiplier) or an exception name"""
    def hook(E, outcome, value, env, prefix):
        ob = _ob(E, prefix)
        if isinstance(want, str):
            ob('make_sortfunctions.rejects', bool(outcome == 'raise' and value.cls == want and not value.sym),
               'sort option %r is rejected with %s' % (','.join(fields), want))
            return
        if outcome != 'normal':
            # a user-named comparison function that the namespace does not define
            ob('make_sortfunctions.raises_only_lookup', bool(value.sym), 'only the namespace lookup of a user-named function can raise')
            return
        h = E.heap[value.addr]
        ok = isinstance(h, HList) and len(h.items) == len(want)
        for it, (nm, fn, mult) in zip(h.items if ok else [], want):
            if not (isinstance(it, VT) and len(it.items) == 3 and isinstance(it.items[0], VC) and it.items[0].v == nm
                    and isinstance(it.items[2], VC) and it.items[2].v == mult):
                ok = False
                break
            f = it.items[1]
            if fn.startswith('repo:'):
                ok = ok and isinstance(f, VFn) and f.qual == DTIN + '.' + fn[5:]
            elif fn.startswith('ns:'):
                gi = [t for t in E.trace if t[0] == 'contract-call' and t[1] == M + '.TemplateDict.getitem']
                rets = [t for t in E.trace if t[0] == 'contract-ret' and t[1] == M + '.TemplateDict.getitem']
                ok = ok and len(gi) == 1 and isinstance(gi[0][2].get('key'), VC) and gi[0][2]['key'].v == fn[3:] \
                    and isinstance(gi[0][2].get('call'), VC) and gi[0][2]['call'].v == 0 and rets and rets[0][2] is f
        ob('make_sortfunctions.triples', bool(ok),
           'each field k[/func[/direction]] yields (k, comparison function, +1 | -1): default cmp ascending, nocase, a function '
           'looked up uncalled in the namespace, desc -> -1')
    return hook


MSF = []
for _tag, _fields, _want in (
        ('plain', ['k'], [('k', 'repo:cmp', 1)]),
        ('nocase', ['k/nocase'], [('k', 'repo:nocase', 1)]),
        ('cmp.desc', ['k/cmp/desc'], [('k', 'repo:cmp', -1)]),
        ('nocase.DESC', ['k/nocase/DESC'], [('k', 'repo:nocase', -1)]),
        ('cmp.asc', ['k/cmp/Asc'], [('k', 'repo:cmp', 1)]),
        ('user', ['k/myfunc'], [('k', 'ns:myfunc', 1)]),
        ('two', ['a/nocase', 'b/cmp/desc'], [('a', 'repo:nocase', 1), ('b', 'repo:cmp', -1)]),
        ('two.plain_first', ['a', 'b/cmp/desc'], [('a', 'repo:cmp', 1), ('b', 'repo:cmp', -1)]),
        ('bad.direction', ['k/cmp/up'], 'SyntaxError'),
        ('bad.slashes', ['k/cmp/asc/x'], 'SyntaxError')):
    contract(DTIN + '.make_sortfunctions', variant=_tag, params=dict(sortfields=NoneV(), md=TD()),
             pre_hook=_msf_state(_fields), exit_hook=_msf_exit(_fields, _want), uses=[M + '.TemplateDict.getitem'])
    MSF.append(DTIN + '.make_sortfunctions#' + _tag)


# ------------------------------------------------------------------ reverse_sequence
def _rev_exit(E, outcome, value, env, prefix):
    ob = _ob(E, prefix)
    seq = env.locals['sequence']
    writes = [t for t in E.trace if t[0] in ('list_append', 'list_write', 'setitem') and t[1] == getattr(seq, 'addr', None)]
    ob('reverse.input_not_modified', bool(not writes and _unchanged(E, seq, env)), "the caller's sequence object is left unmodified")
    if outcome != 'normal':
        ob('reverse.raises_only_from_iteration', bool(value.sym), 'only reading the sequence can raise')
        return
    fresh = isinstance(value, VRef) and not (isinstance(seq, VRef) and seq.addr == value.addr)
    ob('reverse.result_is_a_new_list', bool(fresh), 'reverse works on a copy')
    h = E.heap[value.addr]
    src = env.locals['__g_src']
    ok = isinstance(h, HList) and h.base is not None and not h.items and E.ghost.get('reversed_of', {}).get(h.base.name) == src
    ob('reverse.exact_reverse', bool(ok), 'result[i] == sequence[len-1-i] for all i (list.reverse of the copy)')


def _unchanged(E, seq, env):
    if isinstance(seq, VRef):
        h = E.heap[seq.addr]
        return isinstance(h, HList) and not h.items and h.base is not None and h.base.name == env.locals['__g_src']
    return True


def _rev_state(kind):
    def hook(E, env):
        if kind == 'list':
            sq = VSeq('L0', z3.Int('len_L0'))
            E.assume(sq.length >= 0)
            env.locals['sequence'] = E.alloc(HList([], base=sq))
            env.locals['__g_src'] = 'L0'
        else:
            sq = VSeq('S0', z3.Int('len_S0'))
            E.assume(sq.length >= 0)
            env.locals['sequence'] = sq
            env.locals['__g_src'] = 'S0'
    return hook


REV = []
for _k in ('list', 'sequence'):
    contract(IN + '.reverse_sequence', variant=_k, params=dict(self=Opaque(), sequence=NoneV()),
             pre_hook=_rev_state(_k), exit_hook=_rev_exit)
    REV.append(IN + '.reverse_sequence#' + _k)


# ------------------------------------------------------------------ sort_sequence
def _ss_state(sort, mapping):
    def hook(E, env):
        cls = E.lookup_qual(IN)
        # the sort option reaches sort_sequence in one of two ways (both verified: a fork): as the tag's own ``sort``
        # attribute (parameter left at None), or as the explicit ``sort`` argument (the per-rendering value of
        # sort_expr), in which case the attribute holds something else that must not be used
        if 'sort' in [a.arg for a in env.fn.node.args.args] and E.decide(2, 'sort option passed as argument') == 1:
            me = E.alloc(HObj(cls, {'sort': VC('not_this_key/desc'), 'mapping': VC(1) if mapping else NONE}, name='self', lazy=True))
            env.locals['sort'] = VC(sort)
        else:
            me = E.alloc(HObj(cls, {'sort': VC(sort), 'mapping': VC(1) if mapping else NONE}, name='self', lazy=True))
        env.locals['self'] = me
        sq = VSeq('S0', z3.Int('len_S0'))
        E.assume(sq.length >= 0)
        env.locals['sequence'] = E.alloc(HList([], base=sq))
    return hook


SMALLEST = 'zope.sequencesort.ssort._Smallest'


def _is_smallest(v):
    return isinstance(v, VBI) and v.name == SMALLEST


def _titem(v, k):
    return z3.Function('titem', Val, z3.IntSort(), Val)(v, z3.IntVal(k))


def _decorate_iter(sort_keys, mapping):
    """obligations for one arbitrary iteration of the decorate loop"""
    def hook(E, env, trace, fq, ordn):
        ob = lambda n, c, d: E.oblige('%s::C13.decorate.%s' % (fq, n), c, kind='trace', detail=d)  # noqa
        s = env.locals['s']
        client = env.locals['client']
        apps = [t for t in trace if t[0] == 'list_append' and t[1] == s.addr]
        ob('one_pair_per_element', bool(len(apps) == 1 and isinstance(apps[0][3], VT) and len(apps[0][3].items) == 2),
           'each element contributes exactly one (key, element) pair')
        if len(apps) != 1 or not isinstance(apps[0][3], VT):
            return
        key, elem = apps[0][3].items
        ob('pair_carries_the_element_itself', bool(elem is client), 'the pair carries the original element (permutation of the input)')
        pair = E.tfacts.get((client.name, 'tuple')) and E.valid(len_of(client.t) == 2)
        obj = _titem(client.t, 1) if pair else client.t      # the object whose attribute / item is the sort key
        if not sort_keys:
            want = _titem(client.t, 0) if pair else client.t
            ob('key_is_element_or_tuple_key', E.to_val(key) == want,
               'empty sort / sort=sequence-item: the key is the element, or the key of a (key, value) 2-tuple')
            return
        reads = [t for t in trace if t[0] in ('getattr', 'dict-get', 'call') and t[0] != 'call'] + \
                [t for t in trace if t[0] == 'call' and (t[1].endswith('.get') or t[1] == 'getattr')]
        keys = [key] if len(sort_keys) == 1 else (E.heap[key.addr].items if isinstance(key, VRef) else None)
        ob('one_key_per_sort_field', bool(keys is not None and len(keys) == len(sort_keys)),
           'the decorated key has one component per sort field, in the order written')
        if keys is None or len(keys) != len(sort_keys):
            return
        attr_reads = _attr_reads(E, trace)
        ob('reads_each_sort_field_once', bool(len(attr_reads) == len(sort_keys)
                                             and all(r['name'] == nm and _reads_from(E, r, obj) for r, nm in zip(attr_reads, sort_keys))
                                             and all(r['mapping'] == bool(mapping) for r in attr_reads)),
           'sort field k is read as %s of the element (value of a 2-tuple)' % ("item k (mapping.get(k))" if mapping else 'attribute k'))
        if len(attr_reads) != len(sort_keys):
            return
        calls = _calls(trace)
        for i, (r, kcomp) in enumerate(zip(attr_reads, keys)):
            a = r['value']
            mine = [c for c in calls if c['fn'] is a or getattr(c['fn'], 'name', None) == getattr(a, 'name', '?')]
            notcallable = any(t[0] == 'raised-by' and len(t) > 2 and t[2] == 'not-callable' and t[1] == getattr(a, 'name', None) for t in trace)
            if not mine and not notcallable:
                # used as it is: None/missing sorts first
                ob('plain_value_is_the_key', z3.If(E.to_val(a) == z3.Const('None', Val), z3.BoolVal(_is_smallest(kcomp)),
                                                   z3.BoolVal(kcomp is a)),
                   'a plain attribute value is the key; None or missing becomes the smallest key')
            elif notcallable:
                ob('uncallable_value_is_the_key', z3.If(E.to_val(a) == z3.Const('None', Val), z3.BoolVal(_is_smallest(kcomp)),
                                                        z3.BoolVal(kcomp is a)),
                   'a value that is not callable (bool, date, Decimal, ...) is itself the key (None: the smallest key)')
            elif mine and not mine[0]['raised']:
                r0 = mine[0]['ret']
                ob('callable_value_is_called', z3.If(E.to_val(r0) == z3.Const('None', Val), z3.BoolVal(_is_smallest(kcomp)),
                                                     z3.BoolVal(kcomp is r0)),
                   'a callable attribute is called (once) and its result is the key; a None result becomes the smallest key')
                ob('callable_value_called_once', bool(len(mine) == 1 and not mine[0]['args']), 'called once, without arguments')
            else:
                ob('failing_callable_sorts_first_or_stays', bool(_is_smallest(kcomp) or kcomp is a),
                   'a callable attribute that raises counts as missing (smallest) or keeps its value')
    return hook


def _reads_from(E, r, obj):
    if r['mapping']:
        return E.valid(r['getter'].t == z3.Function('attr_get', Val, Val)(obj))
    return E.valid(E.to_val(r['obj']) == obj)


def _attr_reads(E, trace):
    out = []
    for t in trace:
        if t[0] == 'attr-read':
            out.append(dict(obj=t[1], name=t[2], value=t[3], mapping=False))
        elif t[0] == 'call' and t[1].endswith('.get'):
            out.append(dict(obj=None, getter=t[3], name=t[4][0].v if t[4] and isinstance(t[4][0], VC) else None, value=None, mapping=True))
        elif t[0] == 'returned' and out and out[-1].get('mapping') and out[-1]['value'] is None and t[1].endswith('.get'):
            out[-1]['value'] = t[3]
    return out


def _undecorate_iter(E, env, trace, fq, ordn):
    ob = lambda n, c, d: E.oblige('%s::C13.undecorate.%s' % (fq, n), c, kind='trace', detail=d)  # noqa
    res = env.locals['sequence']
    apps = [t for t in trace if t[0] == 'list_append' and t[1] == res.addr]
    ok = len(apps) == 1 and apps[0][3] is env.locals['client']
    ob('one_element_per_pair', bool(ok), 'each sorted pair contributes exactly its element, in sorted order')


def _ss_exit(sort, mapping, sortfunc, multsort, nkeys):
    def hook(E, outcome, value, env, prefix):
        ob = _ob(E, prefix)
        seq0 = env.locals['sequence']
        h0 = E.heap[seq0.addr]
        ob('input_not_modified', bool(isinstance(h0, HList) and not h0.items and h0.base is not None and h0.base.name == 'S0'),
           "the caller's sequence is left unmodified")
        if outcome != 'normal':
            return
        ob('result_is_a_new_list', bool(isinstance(value, VRef) and value.addr != seq0.addr), 'the sorted sequence is a new list')
        sorts = [t for t in E.trace if t[0] == 'list_sort']
        if E.trace_truncated:
            return
        ob('sorted_exactly_once', bool(len(sorts) == 1), 'list.sort is applied exactly once')
        if len(sorts) != 1:
            return
        kw = sorts[0][2]
        ob('sort_has_key_only', bool(set(kw) == {'key'}), 'list.sort gets a key function and no other option (no reverse=: reversing '
           'is a separate, exact reversal of the sorted result)')
        kf = kw.get('key')
        hk = E.heap[kf.addr] if isinstance(kf, VRef) else None
        if not sortfunc:
            ob('sorts_by_decorated_key', bool(hk is not None and hk.name == 'itemgetter' and isinstance(hk.fields['k'], VC) and hk.fields['k'].v == 0),
               'pairs are ordered by their key component only (itemgetter(0)); equal keys keep their order (stability)')
        else:
            okc = hk is not None and hk.name == 'cmp_to_key'
            by = E.heap[hk.fields['f'].addr] if okc and isinstance(hk.fields['f'], VRef) else None
            okc = okc and by is not None and isinstance(by.cls, VCls) and by.cls.name == 'SortBy' \
                and isinstance(by.fields.get('multsort'), VC) and bool(by.fields['multsort'].v) == bool(multsort)
            sf = E.heap[by.fields['sf_list'].addr] if okc and isinstance(by.fields.get('sf_list'), VRef) else None
            okc = okc and sf is not None and len(sf.items) == nkeys
            ob('sorts_with_the_comparator_of_the_option', bool(okc),
               'pairs are ordered by SortBy over the (field, function, direction) triples of the sort option')
    return hook


SORT = []
for _tag, _sort, _map, _keys, _sf, _multi in (
        ('item', '', False, [], False, False),
        ('attr', 'k', False, ['k'], False, False),
        ('mapping', 'k', True, ['k'], False, False),
        ('two', 'a,b', False, ['a', 'b'], False, True),
        ('two.mapping', 'a,b', True, ['a', 'b'], False, True),
        ('nocase', 'k/nocase', False, ['k'], True, False),
        ('two.funcs', 'a/nocase,b/cmp/desc', True, ['a', 'b'], True, True)):
    contract(IN + '.sort_sequence', variant=_tag, params=dict(self=NoneV(), sequence=NoneV(), md=TD()),
             pre_hook=_ss_state(_sort, _map), exit_hook=_ss_exit(_sort, _map, _sf, _multi, len(_keys)),
             model_not_callable=True,
             invariants={1: dict(header='for client in sequence', inv=dict(t='True'), havoc_heap=['s'], elem_tuple={'s': 2},
                                 types={'k': 'opaque', 'v': 'opaque', 'akey': 'opaque', 'sk': 'opaque'},
                                 on_iteration=_decorate_iter(_keys, _map)),
                         3: dict(header='for (k, client) in s', inv=dict(t='True'), havoc_heap=['sequence'],
                                 types={'k': 'opaque', 'client': 'opaque'}, on_iteration=_undecorate_iter)})
    SORT.append(IN + '.sort_sequence#' + _tag)
