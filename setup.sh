#!/bin/bash
# Build the overlay interpreter /verif/.venv offline (idempotent).
# One CPython 3.12 with z3-solver / cvc5 / crosshair-tool / deal / icontract from the
# offline wheelhouse, plus a .pth that adds /venv's site-packages (the repo, editable,
# and its dependencies) so the solver and the real code import in one process.
set -e
cd "$(dirname "$0")"
V=.venv
# concurrent checks (seed runs, parallel quick checks) must not build the venv at the same time
exec 9>.venv.lock
flock 9
if [ -x $V/bin/python ] && $V/bin/python -c "import z3, DocumentTemplate, jsonschema" 2>/dev/null; then
  exit 0
fi
rm -rf $V
/venv/bin/python -m venv $V
PIP_NO_INDEX=1 $V/bin/pip install -q --no-index --find-links /opt/veriftools/wheels \
    z3-solver cvc5 crosshair-tool deal icontract jsonschema hypothesis >/dev/null
SP=$($V/bin/python -c "import sysconfig; print(sysconfig.get_paths()['purelib'])")
echo "import site; site.addsitedir('/venv/lib/python3.12/site-packages')" > $SP/zz_repo_overlay.pth
$V/bin/python -c "import z3, DocumentTemplate, jsonschema; print('venv ok', z3.get_version_string())"
