import sys; sys.path.insert(0,'/verif'); sys.setrecursionlimit(10000)
import importlib, pkgutil, contracts, difflib
for m in pkgutil.iter_modules(contracts.__path__):
    importlib.import_module('contracts.' + m.name)
from pyvc.engine import Engine
from pyvc import contracts as C
key = sys.argv[1]; n = int(sys.argv[2])
c = C.REGISTRY[key]; c.max_paths = n
E = Engine(C.REGISTRY)
res = C.verify(E, c)
print('paths', res.paths, 'normal', res.normal, 'exc', res.exceptional, 'aborted', res.aborted, res.unsupported[:3])
for (k, idx), memo in E.cut_memo.items():
    sigs = list(memo)
    print('cut', idx, 'distinct sigs', len(sigs), 'merged', E.cut_stats.get((k, idx), 0))
    if len(sigs) > 1 and len(sys.argv) > 3 and int(sys.argv[3]) == idx:
        for a, b in [(0, 1), (1, 2), (0, 3)]:
            if b < len(sigs):
                for l in difflib.unified_diff(sigs[a].split('\n'), sigs[b].split('\n'), lineterm='', n=0):
                    print('   ', l[:400])
                print('   -----')
