#!/usr/bin/env python3
"""Confirm a candidate property-breaking change produced by an independent sub-agent and,
if confirmed, store it under /verif/seeded/<Cxx>-<k>/ (patch.diff, demo.py, notes.md, meta.json).

usage: confirm_seed.py <Cxx> <k> [srcdir]      (srcdir default /tmp/wt/<Cxx>/MUTANT<k>)
Confirmation = in a fresh scratch worktree of /repo HEAD (removed afterwards):
  demo passes on the clean tree; patch applies; full test suite passes with the patch;
  demo fails with the patch."""
import json, os, shutil, subprocess, sys, tempfile, time

pid, k = sys.argv[1], sys.argv[2]
src = sys.argv[3] if len(sys.argv) > 3 else '/tmp/wt/%s/MUTANT%s' % (pid, k)
ROOT = os.path.dirname(os.path.dirname(os.path.abspath(__file__)))
wt = tempfile.mkdtemp(prefix='seedwt_', dir='/tmp')
os.rmdir(wt)


def run(cmd, **kw):
    return subprocess.run(cmd, shell=True, capture_output=True, text=True, **kw)


out = {}
try:
    r = run('git -C /repo worktree add --detach %s HEAD' % wt)
    assert r.returncode == 0, r.stderr
    env = dict(os.environ, PYTHONPATH=wt + '/src', PYTHONDONTWRITEBYTECODE='1')
    demo = os.path.join(src, 'demo.py')
    r = run('cd %s && /venv/bin/python %s' % (wt, demo), env=env, timeout=900)
    out['demo_clean_rc'] = r.returncode
    r = run('git -C %s apply %s' % (wt, os.path.join(src, 'patch.diff')))
    out['apply_rc'] = r.returncode
    out['apply_err'] = r.stderr[-300:]
    r = run('cd %s && /venv/bin/python -m pytest src -q -p no:cacheprovider --timeout=900 2>&1 | tail -3' % wt, env=env, timeout=1800)
    out['tests_tail'] = r.stdout.strip()
    out['tests_pass'] = (' passed' in r.stdout and 'failed' not in r.stdout and 'error' not in r.stdout.lower())
    r = run('cd %s && /venv/bin/python %s' % (wt, demo), env=env, timeout=900)
    out['demo_mutant_rc'] = r.returncode
    out['demo_mutant_tail'] = (r.stdout + r.stderr)[-600:]
    out['files'] = run('git -C %s diff --stat' % wt).stdout.strip()
finally:
    run('git -C /repo worktree remove --force %s' % wt)
    shutil.rmtree(wt, ignore_errors=True)
ok = out.get('demo_clean_rc') == 0 and out.get('apply_rc') == 0 and out.get('tests_pass') and out.get('demo_mutant_rc') not in (0, None)
out['confirmed'] = bool(ok)
print(json.dumps(out, indent=1))
if ok:
    dst = os.path.join(ROOT, 'seeded', '%s-%s' % (pid, k))
    os.makedirs(dst, exist_ok=True)
    for f in ('patch.diff', 'demo.py', 'notes.md'):
        if os.path.exists(os.path.join(src, f)):
            shutil.copy(os.path.join(src, f), os.path.join(dst, f))
    notes = open(os.path.join(src, 'notes.md')).read() if os.path.exists(os.path.join(src, 'notes.md')) else ''
    meta = dict(property=pid, source='independent sub-agent given only the property text and a scratch worktree',
                needs_to_manifest=notes[:1500], files_changed=out['files'],
                confirmed_by='tools/confirm_seed.py in a scratch worktree of /repo HEAD: demo exit 0 on clean tree; patch applies; '
                             'full pytest suite passes with the patch (%s); demo exits %s with the patch' % (out['tests_tail'].splitlines()[-1] if out['tests_tail'] else '', out['demo_mutant_rc']),
                detected_by=None)
    json.dump(meta, open(os.path.join(dst, 'meta.json'), 'w'), indent=1)
sys.exit(0 if ok else 1)
