#!/usr/bin/env python3
"""Development aid: run checks against seeded changes in parallel WITHOUT touching /repo.
Each seed gets a scratch git worktree of /repo HEAD under /tmp/seedwt/<id> (removed afterwards), the
patch is applied there, and ./check runs with PYVC_REPO_SRC=<wt>/src (pyvc reads that source, and
PYTHONPATH puts it before the editable install so native replays import it too) and
PYVC_OUT_DIR=<wt>/out so evidence/replay files of /verif are not touched.
usage: seedrun.py [-j N] [--props C08,C02] [seed-id ...]     (default: the property each seed targets)
The registered way (git -C /repo apply; ./check; git checkout) is tools/run_seeded.py."""
import json, os, subprocess, sys, time, shutil
from concurrent.futures import ThreadPoolExecutor
ROOT = os.path.dirname(os.path.dirname(os.path.abspath(__file__)))
args = sys.argv[1:]
jobs = 4
extra = None
while args and args[0] in ('-j', '--props'):
    if args[0] == '-j':
        jobs = int(args[1])
    else:
        extra = args[1].split(',')
    args = args[2:]
SEEDDIR = os.environ.get('SEEDDIR', 'seeded')
seeds = args or sorted(os.listdir(os.path.join(ROOT, SEEDDIR)))
BASE = '/tmp/seedwt'
os.makedirs(BASE, exist_ok=True)


def sh(cmd, **kw):
    return subprocess.run(cmd, shell=True, capture_output=True, text=True, **kw)


def one(sid):
    d = os.path.join(ROOT, SEEDDIR, sid)
    meta = json.load(open(os.path.join(d, 'meta.json')))
    props = extra or [meta['property']]
    wt = os.path.join(BASE, sid)
    sh('git -C /repo worktree remove --force %s' % wt)
    r = sh('git -C /repo worktree add --detach %s HEAD' % wt)
    if r.returncode != 0:
        return sid, 'worktree failed: ' + r.stderr[:200], {}
    res = {}
    try:
        r = sh('git -C %s apply %s' % (wt, os.path.join(d, 'patch.diff')))
        if r.returncode != 0:
            return sid, 'patch does not apply: ' + r.stderr.strip()[:160], {}
        env = dict(os.environ, PYVC_REPO_SRC=wt + '/src', PYVC_OUT_DIR=wt + '/out')
        for p in props:
            if not os.path.exists(os.path.join(ROOT, 'props', p + '.py')):
                res[p] = dict(exit=None, lines=['no check for ' + p])
                continue
            t0 = time.time()
            c = sh('./check %s --tier quick' % p, cwd=ROOT, env=env)
            lines = [l for l in c.stdout.splitlines() if l.startswith(('VIOLATION', '  failed obligation', '  bounded', 'UNDECIDED'))]
            res[p] = dict(exit=c.returncode, lines=[l.replace(wt, '<wt>') for l in lines[:8]], wall_s=round(time.time() - t0, 1),
                          tail=c.stdout.strip().splitlines()[-1:] if c.stdout.strip() else [],
                          err=c.stderr.strip().splitlines()[-3:] if c.returncode == 3 else [])
    finally:
        sh('git -C /repo worktree remove --force %s' % wt)
        shutil.rmtree(wt, ignore_errors=True)
    return sid, None, res


with ThreadPoolExecutor(jobs) as ex:
    for sid, err, res in ex.map(one, seeds):
        if err:
            print('%-8s %s' % (sid, err))
            continue
        for p, v in res.items():
            ln = v['lines']
            print('%-8s %s exit=%s %s' % (sid, p, v['exit'], (ln[1][:170] if len(ln) > 1 else (ln[0][:170] if ln else ''))), (v.get('err') or ''))
        if not extra:
            json.dump(res, open(os.path.join(ROOT, SEEDDIR, sid, 'result.json'), 'w'), indent=1)
sh('git -C /repo worktree prune')
