#!/usr/bin/env python3
"""dev helper: verify one contract and print every obligation.  usage: tools/v1.py <qualname> [module ...]"""
import importlib, pkgutil, sys, os, time
ROOT = os.path.dirname(os.path.dirname(os.path.abspath(__file__)))
sys.path.insert(0, ROOT)
sys.setrecursionlimit(10000)
import contracts
for m in pkgutil.iter_modules(contracts.__path__):
    importlib.import_module('contracts.' + m.name)
from pyvc.engine import Engine
from pyvc import contracts as C
verbose = '-v' in sys.argv
names = [a for a in sys.argv[1:] if not a.startswith('-')]
for func in names:
    cands = [k for k in C.REGISTRY if k == func or k.endswith('.' + func)]
    for k in cands:
        E = Engine(C.REGISTRY)
        if '-j' in sys.argv:
            import multiprocessing as mp
            from pyvc.forking import ForkCtl
            E.fork_ctl = ForkCtl(mp.get_context('fork').BoundedSemaphore(16))
        t0 = time.time()
        res = C.verify(E, C.REGISTRY[k], verbose=verbose)
        print('== %s: paths=%d normal=%d exc=%d aborted=%d %.1fs' % (k, res.paths, res.normal, res.exceptional, res.aborted, time.time() - t0))
        for u in res.unsupported[:6]:
            print('   UNSUPPORTED', ' '.join(str(u).split())[:220])
        if len(res.unsupported) > 6:
            print('   ... %d more UNSUPPORTED' % (len(res.unsupported) - 6))
        for ob in E.obligations.values():
            print('   %-11s %-60s paths=%d %s' % (ob.status, ob.oid[len(k):], ob.paths, ','.join(sorted(ob.backends))))
            if ob.status != 'discharged' and ob.detail.startswith('UNSUPPORTED'):
                continue
            if ob.status != 'discharged':
                print('        detail:', ob.detail[:300])
                print('        model :', str({a: b for a, b in (ob.model or {}).items() if not a.startswith('k!')})[:300])
        print('   inlined:', sorted(E.inlined))
