#!/usr/bin/env python3
"""Run registered checks against the seeded property-breaking changes.
usage: run_seeded.py [--props C08,C02] [seed-id ...]
For each seeded/<id>/patch.diff: git -C /repo apply, run ./check <prop> --tier quick for the property the
seed targets (plus --props if given), record exit code and VIOLATION lines, then git -C /repo checkout -- .
Results are written to seeded/<id>/result.json and summarised on stdout."""
import json, os, subprocess, sys, time
ROOT = os.path.dirname(os.path.dirname(os.path.abspath(__file__)))
args = sys.argv[1:]
extra = []
if args and args[0] == '--props':
    extra = args[1].split(',')
    args = args[2:]
seeds = args or sorted(os.listdir(os.path.join(ROOT, 'seeded')))
assert subprocess.run('git -C /repo status --porcelain', shell=True, capture_output=True, text=True).stdout.strip() == '', '/repo not clean'
for sid in seeds:
    d = os.path.join(ROOT, 'seeded', sid)
    meta = json.load(open(os.path.join(d, 'meta.json')))
    props = sorted(set([meta['property']] + extra))
    r = subprocess.run('git -C /repo apply %s' % os.path.join(d, 'patch.diff'), shell=True, capture_output=True, text=True)
    if r.returncode != 0:
        print('%-8s patch does not apply to current /repo HEAD: %s' % (sid, r.stderr.strip()[:120]))
        continue
    res = {}
    try:
        for p in props:
            t0 = time.time()
            c = subprocess.run('./check %s --tier quick' % p, shell=True, cwd=ROOT, capture_output=True, text=True)
            lines = [l for l in c.stdout.splitlines() if l.startswith('VIOLATION') or l.startswith('  failed obligation') or l.startswith('  bounded')]
            res[p] = dict(exit=c.returncode, lines=lines[:8], wall_s=round(time.time() - t0, 1),
                          tail=c.stdout.strip().splitlines()[-1:] if c.stdout.strip() else [])
            print('%-8s %s exit=%d %s' % (sid, p, c.returncode, (lines[1][:150] if len(lines) > 1 else (lines[0][:150] if lines else ''))))
    finally:
        subprocess.run('git -C /repo checkout -- .', shell=True)
    json.dump(res, open(os.path.join(d, 'result.json'), 'w'), indent=1)
# evidence files were rewritten against patched trees: restore them from git
subprocess.run('git checkout -- evidence 2>/dev/null', shell=True, cwd=ROOT)
