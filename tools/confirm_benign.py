#!/usr/bin/env python3
"""Confirm behaviour-preserving changes produced by an independent sub-agent (false-alarm probes) and store them under
/verif/benign/<Cxx>-b<k>/ (patch.diff, demo.py, notes.md, meta.json).

usage: confirm_benign.py <Cxx> [srcdir]      (srcdir default /tmp/bn/<Cxx>/BENIGN, files benign<k>.diff, demo.py, notes.md)
Confirmation per patch, in a fresh scratch worktree of /repo HEAD (removed afterwards): the patch applies, the full test
suite passes with it, and the agent's demonstration of the property exits 0 with it (and on the clean tree)."""
import json, os, shutil, subprocess, sys, tempfile, glob

pid = sys.argv[1]
src = sys.argv[2] if len(sys.argv) > 2 else '/tmp/bn/%s/BENIGN' % pid
ROOT = os.path.dirname(os.path.dirname(os.path.abspath(__file__)))


def run(cmd, **kw):
    return subprocess.run(cmd, shell=True, capture_output=True, text=True, **kw)


rc = 0
for patch in sorted(glob.glob(os.path.join(src, 'benign*.diff'))):
    k = os.path.basename(patch)[len('benign'):-len('.diff')]
    wt = tempfile.mkdtemp(prefix='bnwt_', dir='/tmp')
    os.rmdir(wt)
    out = {}
    try:
        r = run('git -C /repo worktree add --detach %s HEAD' % wt)
        assert r.returncode == 0, r.stderr
        env = dict(os.environ, PYTHONPATH=wt + '/src', PYTHONDONTWRITEBYTECODE='1')
        demo = os.path.join(src, 'demo.py')
        r = run('cd %s && /venv/bin/python %s' % (wt, demo), env=env, timeout=1800)
        out['demo_clean_rc'] = r.returncode
        r = run('git -C %s apply %s' % (wt, patch))
        out['apply_rc'] = r.returncode
        r = run('cd %s && /venv/bin/python -m pytest src -q -p no:cacheprovider --timeout=900 2>&1 | tail -3' % wt, env=env, timeout=1800)
        out['tests_tail'] = r.stdout.strip().splitlines()[-1] if r.stdout.strip() else ''
        out['tests_pass'] = (' passed' in r.stdout and 'failed' not in r.stdout and 'error' not in r.stdout.lower())
        r = run('cd %s && /venv/bin/python %s' % (wt, demo), env=env, timeout=1800)
        out['demo_patched_rc'] = r.returncode
        out['files'] = run('git -C %s diff --stat' % wt).stdout.strip()
    finally:
        run('git -C /repo worktree remove --force %s' % wt)
        shutil.rmtree(wt, ignore_errors=True)
    ok = out.get('demo_clean_rc') == 0 and out.get('apply_rc') == 0 and out.get('tests_pass') and out.get('demo_patched_rc') == 0
    print(pid, k, 'confirmed' if ok else 'REJECTED', json.dumps(out))
    if not ok:
        rc = 1
        continue
    dst = os.path.join(ROOT, 'benign', '%s-b%s' % (pid, k))
    os.makedirs(dst, exist_ok=True)
    shutil.copy(patch, os.path.join(dst, 'patch.diff'))
    for f in ('demo.py', 'notes.md'):
        if os.path.exists(os.path.join(src, f)):
            shutil.copy(os.path.join(src, f), os.path.join(dst, f))
    json.dump(dict(property=pid, kind='benign', source='independent sub-agent given only the property text and a scratch worktree; asked for a '
                   'behaviour-preserving change to the code the property depends on', files_changed=out['files'],
                   confirmed_by='tools/confirm_benign.py: patch applies; %s with the patch; the agent\'s property demonstration exits 0 on the clean '
                                'tree and with the patch' % out['tests_tail'], expected='the check of this property exits 0'),
              open(os.path.join(dst, 'meta.json'), 'w'), indent=1)
sys.exit(rc)
