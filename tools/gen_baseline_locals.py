#!/usr/bin/env python3
"""Write /verif/baseline_locals.json: per function of the package, its local names in order of first binding, as they are in
the tree the contracts were written against (run by hand when contracts are re-based on a new tree; never at check time)."""
import ast, json, os, sys
sys.path.insert(0, os.path.dirname(os.path.dirname(os.path.abspath(__file__))))
from pyvc.aliases import ordered_names
SRC = '/repo/src'
out = {}
for pkg in ('DocumentTemplate', 'TreeDisplay'):
    for f in sorted(os.listdir(os.path.join(SRC, pkg))):
        if not f.endswith('.py'):
            continue
        mod = '%s.%s' % (pkg, f[:-3])
        tree = ast.parse(open(os.path.join(SRC, pkg, f)).read())

        def walk(node, prefix):
            for ch in ast.iter_child_nodes(node):
                if isinstance(ch, ast.ClassDef):
                    walk(ch, prefix + [ch.name])
                elif isinstance(ch, (ast.FunctionDef, ast.AsyncFunctionDef)):
                    out['.'.join([mod] + prefix + [ch.name])] = ordered_names(ch)
                    walk(ch, prefix + [ch.name, '<locals>'])
                else:
                    walk(ch, prefix)
        walk(tree, [])
json.dump(out, open(os.path.join(os.path.dirname(os.path.dirname(os.path.abspath(__file__))), 'baseline_locals.json'), 'w'), indent=0, sort_keys=True)
print(len(out), 'functions')
