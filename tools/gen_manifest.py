#!/usr/bin/env python3
"""Regenerate /verif/MANIFEST.json from props/*.py (MANIFEST dicts) and
tools/not_applicable.json.  Run after adding or changing a property check."""
import importlib
import json
import os
import sys

ROOT = os.path.dirname(os.path.dirname(os.path.abspath(__file__)))
sys.path.insert(0, ROOT)
ALL = ['C%02d' % i for i in range(1, 21)]

na = json.load(open(os.path.join(ROOT, 'tools', 'not_applicable.json')))
checks = []
not_applicable = []
for pid in ALL:
    path = os.path.join(ROOT, 'props', pid + '.py')
    if pid in na or not os.path.exists(path):
        not_applicable.append(dict(property_id=pid, reason=na.get(pid, 'check not built yet in this round (see DESIGN.md section 4 for the plan)')))
        continue
    mod = importlib.import_module('props.' + pid)
    m = mod.MANIFEST
    checks.append(dict(
        property_id=pid,
        quick_cmd='./check %s --tier quick' % pid,
        thorough_cmd='./check %s --tier thorough' % pid,
        evidence_file='/verif/evidence/%s.json' % pid,
        replay_cmd_template='./check --replay {path}',
        engine='pyvc',
        level_claimed=dict(category=m['category'], text=m['text'], design_ref=m.get('design_ref', 'DESIGN.md 4')),
        level_note=m['note'],
        technique=m['technique'],
    ))
manifest = dict(
    version=1,
    setup_cmd='./setup.sh',
    hooks=dict(guard='DOCUMENTTEMPLATE_VERIF', enable='none needed: no hooks in /repo; contracts are sidecar files under /verif/contracts and the real source is re-read on every run',
               baseline_off_cmd='cd /repo && /venv/bin/python -m pytest -ra -q -p no:cacheprovider --timeout=900 --continue-on-collection-errors',
               source_commits=[], add_only=True),
    engines=[dict(name='pyvc', path='/verif/pyvc',
                  serves_properties=[c['property_id'] for c in checks],
                  kind_free_text='contract-based deductive verification: path-based symbolic execution of the real Python source (ast) against sidecar pre/postconditions, loop invariants and frame clauses; verification conditions discharged by z3 (API) and cvc5 (CLI, strings)')],
    checks=checks,
    notes='Every check re-reads /repo/src on each run. Exit codes: 0 held, 1 violation (VIOLATION line + replay file), 2 undecided (solver unknown / unsupported construct; no VIOLATION line), 3 checker error. Known findings: /verif/known_findings.json.',
    not_applicable=not_applicable,
)
json.dump(manifest, open(os.path.join(ROOT, 'MANIFEST.json'), 'w'), indent=1)
print('MANIFEST.json: %d checks, %d not_applicable' % (len(checks), len(not_applicable)))
