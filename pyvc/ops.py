"""Primitive operations of the value model with Python's semantics, including
the exceptions each can raise (DESIGN.md 2.2)."""
import z3

from . import smt
from .values import *  # noqa
from .engine import PyRaise, Unsupported, I, S, VO_term, PathAbort

NONE_VAL = z3.Const('None', Val)


def _raise(cls, *args):
    raise PyRaise(VExc(cls, [VC(a) if not isinstance(a, V) else a for a in args]))


def opaque_op_may_raise(E, label):
    """an operation on a value of unknown type may raise (TypeError, …)"""
    if E.spec_mode:
        return
    if E.decide(2, label + ' raises') == 1:
        raise PyRaise(VExc('Exception', [], sym=True, uid=E.fresh('exc')))


def known_type(E, v):
    """python type name of a value if structurally known"""
    if isinstance(v, VC):
        return type(v.v).__name__
    if isinstance(v, VI):
        return 'int'
    if isinstance(v, VB):
        return 'bool'
    if isinstance(v, VS):
        return 'str'
    if isinstance(v, VBy):
        return 'bytes'
    if isinstance(v, VR):
        return 'float'
    if isinstance(v, VT):
        return 'tuple'
    if isinstance(v, VRef):
        h = E.heap[v.addr]
        if isinstance(h, HList):
            return 'list'
        if isinstance(h, HDict):
            return 'dict'
        if isinstance(h, HObj):
            if isinstance(h.cls, VCls):
                return 'inst:' + h.cls.qual
            return 'obj:' + h.name
    if isinstance(v, VO):
        for t in ('str', 'int', 'bytes', 'tuple', 'float'):
            if E.tfacts.get((v.name, t)):
                return t
        return None
    if isinstance(v, VSeq):
        return 'seq'
    if isinstance(v, VExc):
        return 'exc'
    if isinstance(v, (VFn, VBM, VBI)):
        return 'function'
    if isinstance(v, VCls):
        return 'type'
    return None


# ------------------------------------------------------------------ arithmetic

def floordiv(E, a, b):
    """Python floor division on z3 Ints (z3 div is Euclidean)"""
    return z3.If(b > 0, a / b, (-a) / (-b))


def pymod(E, a, b):
    return a - b * floordiv(E, a, b)


def binop(E, op, a, b):
    from . import tainted as _T
    if _T.is_tainted(E, a) or _T.is_tainted(E, b):
        if op in ('Add', 'Mult') or (op == 'Mod' and _T.is_tainted(E, a)):
            ra = _T.raw(E, a) if _T.is_tainted(E, a) else a
            rb = _T.raw(E, b) if _T.is_tainted(E, b) else b
            return _T.make(E, binop(E, op, ra, rb))
        if op == 'Mod':      # plain format string % tainted value: str(value) is the raw text
            return binop(E, op, a, _T.raw(E, b))
        raise Unsupported('operator %s on a TaintedString' % op)
    from . import bytesmodel as _BM
    if isinstance(a, VBy) or isinstance(b, VBy):
        if op == 'Add':
            return _BM.add(E, a, b)
        raise Unsupported('operator %s on symbolic bytes' % op)
    if op == 'Mult' and isinstance(a, VC) and isinstance(a.v, bytes) and not isinstance(b, VC) and known_type(E, b) in ('int', 'bool'):
        return _BM.mult(E, a, b)
    # concrete folding
    if isinstance(a, VC) and isinstance(b, VC):
        try:
            x, y = a.v, b.v
            if op == 'Add':
                return VC(x + y)
            if op == 'Sub':
                return VC(x - y)
            if op == 'Mult':
                return VC(x * y)
            if op == 'FloorDiv':
                return VC(x // y)
            if op == 'Mod':
                return VC(x % y)
            if op == 'Div':
                return VC(x / y)
            if op == 'Pow':
                return VC(x ** y)
            if op == 'BitOr':
                return VC(x | y)
            if op == 'BitAnd':
                return VC(x & y)
        except ZeroDivisionError:
            _raise('ZeroDivisionError', 'division by zero')
        except TypeError as e:
            _raise('TypeError', str(e))
        except ValueError as e:
            _raise('ValueError', str(e))
    ta, tb = known_type(E, a), known_type(E, b)
    num = ('int', 'bool')
    if (ta is None or tb is None) and not E.spec_mode and getattr(E.cur_contract, 'numeric_split', False) \
            and op in ('Add', 'Sub', 'Mult', 'Div', 'FloorDiv'):
        # values of unknown type in arithmetic: case split int / float / anything else (TypeError); the contract
        # states this value domain as an assumption
        for v in (a, b):
            if isinstance(v, VO) and known_type(E, v) is None:
                nm = v.name
                if E.tfacts.get((nm, 'nonnumeric')):
                    _raise('TypeError', 'unsupported operand type(s)')
                opts = [o for o in ('int', 'float') if E.tfacts.get((nm, o)) is not False] + ['nonnumeric']
                k = opts[E.decide(len(opts), 'numeric type of %s' % nm)]
                for o in ('int', 'float'):
                    if o != k:
                        E.tfacts.setdefault((nm, o), False)
                E.tfacts[(nm, k)] = True
                if k == 'nonnumeric':
                    _raise('TypeError', 'unsupported operand type(s)')
        ta, tb = known_type(E, a), known_type(E, b)
    if ta in num and tb in num:
        x, y = E.as_z3_int(a), E.as_z3_int(b)
        if op == 'Add':
            return VI(z3.simplify(x + y))
        if op == 'Sub':
            return VI(z3.simplify(x - y))
        if op == 'Mult':
            return VI(z3.simplify(x * y))
        if op in ('FloorDiv', 'Mod'):
            if not E.spec_mode:
                if E.branch(y == 0, 'div0'):
                    _raise('ZeroDivisionError', 'integer division or modulo by zero')
            return VI(z3.simplify(floordiv(E, x, y) if op == 'FloorDiv' else pymod(E, x, y)))
        if op == 'Div':
            if not E.spec_mode and E.branch(y == 0, 'div0'):
                _raise('ZeroDivisionError', 'division by zero')
            return VR(z3.ToReal(x) / z3.ToReal(y))
        raise Unsupported('int op ' + op)
    if (ta in num + ('float',)) and (tb in num + ('float',)):
        x, y = E.as_z3_real(a), E.as_z3_real(b)
        if op == 'Add':
            return VR(x + y)
        if op == 'Sub':
            return VR(x - y)
        if op == 'Mult':
            return VR(x * y)
        if op == 'Div':
            if not E.spec_mode and E.branch(y == 0, 'div0'):
                _raise('ZeroDivisionError', 'float division by zero')
            return VR(x / y)
        if op == 'FloorDiv':
            if not E.spec_mode and E.branch(y == 0, 'div0'):
                _raise('ZeroDivisionError', 'float floor division by zero')
            return VR(z3.ToReal(z3.ToInt(x / y)))
        raise Unsupported('real op ' + op)
    if ta == 'str' and tb == 'str' and op == 'Add':
        return VS(z3.Concat(E.as_z3_str(a), E.as_z3_str(b)))
    if ta == 'str' and op == 'Mod':
        return str_format(E, a, b)
    if ta == 'str' and tb in num and op == 'Mult':
        if isinstance(b, VC):
            out = VC('')
            for _ in range(int(b.v)):
                out = binop(E, 'Add', out, a)
            return out
        raise Unsupported('str * symbolic int')
    if ta == 'tuple' and tb == 'tuple' and op == 'Add' and isinstance(a, VT) and isinstance(b, VT):
        return VT(a.items + b.items)
    if ta == 'list' and tb == 'list' and op == 'Add':
        ha, hb = E.heap[a.addr], E.heap[b.addr]
        if ha.base is None and hb.base is None:
            return E.alloc(HList(ha.items + hb.items))
        if hb.base is None:
            return E.alloc(HList(ha.items + hb.items, ha.base))
        raise Unsupported('list + abstract list')
    if ta is None or tb is None or ta.startswith('inst:') or tb.startswith('inst:'):
        # operator on values of unknown type: opaque result, may raise
        if E.spec_mode:
            f = z3.Function('op_' + op, Val, Val, Val)
            return VO_term(f(E.to_val(a), E.to_val(b)), 'op')
        opaque_op_may_raise(E, 'binop ' + op)
        f = z3.Function('op_' + op, Val, Val, Val)
        try:
            return VO_term(f(E.to_val(a), E.to_val(b)), E.fresh('op' + op))
        except Unsupported:
            return E.fresh_opaque('op' + op)
    # definite type errors
    if not E.spec_mode:
        _raise('TypeError', 'unsupported operand type(s) for %s: %s and %s' % (op, ta, tb))
    raise Unsupported('spec binop %s on %s,%s' % (op, ta, tb))


def str_format(E, fmt, arg):
    """fmt % arg for the shapes used in the repo"""
    if isinstance(fmt, VC):
        f = fmt.v
        args = arg.items if isinstance(arg, VT) else [arg]
        # split on simple %s / %d / %r directives
        import re
        DIR = r'%(?:[sdr]|-?[0-9]*s|[0-9]*[.]?[0-9]*f)'
        parts = re.split('(' + DIR + ')', f)
        is_dir = lambda p: re.fullmatch(DIR, p) is not None  # noqa
        nd = sum(1 for p in parts if is_dir(p))
        if '%' in re.sub(DIR, '', f.replace('%%', '')):
            raise Unsupported('format directive in %r' % f)
        if nd != len(args):
            _raise('TypeError', 'not all arguments converted during string formatting')
        out = VC('')
        it = iter(args)
        for p in parts:
            if is_dir(p):
                x = next(it)
                from . import tainted as _T
                if p.endswith('f') or p == '%d':
                    if _T.is_tainted(E, x):
                        # __int__ / __float__ of the raw text: a number is formatted (digits only) or ValueError
                        opaque_op_may_raise(E, 'number format of text')
                        d = z3.String(E.fresh('digits'))
                        E.assume(z3.Not(z3.Contains(d, S('<'))))
                        out = binop(E, 'Add', out, VS(d))
                        continue
                if p.endswith('f'):
                    if known_type(E, x) in ('int', 'bool', 'float'):
                        d = z3.String(E.fresh('digits'))
                        E.assume(z3.Not(z3.Contains(d, S('<'))))
                        out = binop(E, 'Add', out, VS(d))
                        continue
                    if known_type(E, x) is None:
                        opaque_op_may_raise(E, '%f format')
                        d = z3.String(E.fresh('digits'))
                        E.assume(z3.Not(z3.Contains(d, S('<'))))
                        out = binop(E, 'Add', out, VS(d))
                        continue
                    _raise('TypeError', 'must be real number')
                if p.endswith('s') and p != '%s':
                    # width / alignment: the text padded with blanks (some string containing str(x); padding has no '<')
                    pad1, pad2 = z3.String(E.fresh('pad')), z3.String(E.fresh('pad'))
                    E.assume(z3.Not(z3.Contains(pad1, S('<'))))
                    E.assume(z3.Not(z3.Contains(pad2, S('<'))))
                    out = binop(E, 'Add', binop(E, 'Add', binop(E, 'Add', out, VS(pad1)), E.to_str(x)), VS(pad2))
                    continue
                if p == '%d' and known_type(E, x) not in ('int', 'bool'):
                    if known_type(E, x) is None:
                        opaque_op_may_raise(E, '%d format')
                        x = VS(z3.String(E.fresh('fmtd')))
                    else:
                        _raise('TypeError', '%d format: a real number is required')
                out = binop(E, 'Add', out, E.to_str(x))
            else:
                out = binop(E, 'Add', out, VC(p.replace('%%', '%')))
        return out
    # symbolic / unknown format string
    opaque_op_may_raise(E, 'str % format')
    return VS(z3.String(E.fresh('fmt')))


# ------------------------------------------------------------------ comparison

def _both(E, a, b, types):
    return known_type(E, a) in types and known_type(E, b) in types


def val_eq(E, a, b):
    """python == as bool / z3 Bool (no raise modelled)"""
    from .builtins_ import VTypeOf, typeof_is
    if isinstance(a, VTypeOf):
        return typeof_is(E, a, b)
    if isinstance(b, VTypeOf):
        return typeof_is(E, b, a)
    if isinstance(a, VC) and isinstance(b, VC):
        return a.v == b.v
    ta, tb = known_type(E, a), known_type(E, b)
    if ta == 'bytes' and tb == 'bytes' and (isinstance(a, VBy) or isinstance(b, VBy)):
        from . import bytesmodel as _BM
        return _BM.eq(E, a, b)
    num = ('int', 'bool')
    if ta in num and tb in num:
        return E.as_z3_int(a) == E.as_z3_int(b)
    if ta in num + ('float',) and tb in num + ('float',):
        return E.as_z3_real(a) == E.as_z3_real(b)
    if ta == 'str' and tb == 'str':
        return E.as_z3_str(a) == E.as_z3_str(b)
    if isinstance(a, VT) and isinstance(b, VT):
        if len(a.items) != len(b.items):
            return False
        cs = [val_eq(E, x, y) for x, y in zip(a.items, b.items)]
        if all(isinstance(c, bool) for c in cs):
            return all(cs)
        return z3.And(*[z3.BoolVal(c) if isinstance(c, bool) else c for c in cs])
    if ta is not None and tb is not None:
        if ta == tb and isinstance(a, VRef) and isinstance(b, VRef):
            if a.addr == b.addr:
                return True
            ha, hb = E.heap[a.addr], E.heap[b.addr]
            if isinstance(ha, HList) and isinstance(hb, HList) and ha.base is None and hb.base is None:
                if len(ha.items) != len(hb.items):
                    return False
                cs = [val_eq(E, x, y) for x, y in zip(ha.items, hb.items)]
                if all(isinstance(c, bool) for c in cs):
                    return all(cs)
                return z3.And(*[z3.BoolVal(c) if isinstance(c, bool) else c for c in cs])
            raise Unsupported('== on heap objects')
        if ta != tb and not (ta.startswith('inst:') or tb.startswith('inst:')):
            # different builtin types never compare equal (int/bool/float handled above)
            return False
        if isinstance(a, (VFn, VCls, VBI)) and isinstance(b, (VFn, VCls, VBI)):
            return a is b or (getattr(a, 'qual', 1) == getattr(b, 'qual', 2)) or (
                isinstance(a, VBI) and isinstance(b, VBI) and a.name == b.name)
    # unknown operand(s)
    if isinstance(a, VC) and a.v is None:
        return E.to_val(b) == NONE_VAL
    if isinstance(b, VC) and b.v is None:
        return E.to_val(a) == NONE_VAL
    try:
        return py_eq(E.to_val(a), E.to_val(b))
    except Unsupported:
        return z3.Bool(E.fresh('eq'))


def identical(E, a, b):
    from .builtins_ import VTypeOf, typeof_is
    if isinstance(a, VTypeOf):
        return typeof_is(E, a, b)
    if isinstance(b, VTypeOf):
        return typeof_is(E, b, a)
    if isinstance(a, VC) and isinstance(b, VC):
        if a.v is None or b.v is None or isinstance(a.v, bool) or isinstance(b.v, bool):
            return a.v is b.v
        return a.v == b.v and type(a.v) is type(b.v)
    if isinstance(a, VRef) and isinstance(b, VRef):
        return a.addr == b.addr
    if isinstance(a, VO) or isinstance(b, VO):
        other = b if isinstance(a, VO) else a
        me = a if isinstance(a, VO) else b
        if isinstance(other, VC) and other.v is not None:
            t = known_type(E, me)
            if t is not None and t != type(other.v).__name__:
                return False
        if isinstance(other, VC) and other.v is None and known_type(E, me) is not None:
            return False     # a value known to be an int / float / str / tuple is not None
        if isinstance(other, VRef):
            h = E.heap[other.addr]
            if isinstance(h, HObj) and h.prov == 'fresh' or isinstance(h, (HList, HDict)):
                # an opaque value obtained from outside cannot be an object
                # allocated in this activation, unless it was handed out; we
                # keep the conservative answer: unknown
                return z3.Bool(E.fresh('is'))
        return E.to_val(a) == E.to_val(b)
    if isinstance(a, (VFn, VCls, VBI, VMod)) or isinstance(b, (VFn, VCls, VBI, VMod)):
        if type(a) is not type(b):
            return False
        if isinstance(a, VBI):
            return a.name == b.name
        if isinstance(a, (VFn, VCls)):
            return a.qual == b.qual
        return a.name == b.name
    if isinstance(a, VSeq) and isinstance(b, VSeq):
        return a.name == b.name
    if type(a) is not type(b):
        if isinstance(a, (VI, VB, VS, VR)) and isinstance(b, VC) and b.v is None:
            return False
        if isinstance(b, (VI, VB, VS, VR)) and isinstance(a, VC) and a.v is None:
            return False
        if isinstance(a, (VT, VRef, VExc, VSeq, VBM, VFn, VCls, VBI, VRe)) and isinstance(b, VC):
            return False
        if isinstance(b, (VT, VRef, VExc, VSeq, VBM, VFn, VCls, VBI, VRe)) and isinstance(a, VC):
            return False
    if isinstance(a, VT) and isinstance(b, VT):
        return a is b
    if isinstance(a, VExc) and isinstance(b, VExc):
        return a is b
    raise Unsupported('is on %r / %r' % (a, b))


def _wrapb(x):
    if isinstance(x, bool):
        return VC(x)
    x = z3.simplify(x)
    if z3.is_true(x):
        return TRUE
    if z3.is_false(x):
        return FALSE
    return VB(x)


def compare(E, op, a, b):
    from . import tainted as _T
    if op not in ('Is', 'IsNot') and (_T.is_tainted(E, a) or _T.is_tainted(E, b)):
        # __eq__ / __lt__ (total_ordering) compare the raw value
        a = _T.raw(E, a) if _T.is_tainted(E, a) else a
        b = _T.raw(E, b) if _T.is_tainted(E, b) else b
        if op in ('In', 'NotIn') :
            pass
        elif op in ('Eq', 'NotEq') and known_type(E, a) != known_type(E, b) and None not in (known_type(E, a), known_type(E, b)):
            return VC(op == 'NotEq')
    if op == 'Is':
        return _wrapb(identical(E, a, b))
    if op == 'IsNot':
        r = identical(E, a, b)
        return _wrapb((not r) if isinstance(r, bool) else z3.Not(r))
    if op == 'Eq':
        return _wrapb(val_eq(E, a, b))
    if op == 'NotEq':
        r = val_eq(E, a, b)
        return _wrapb((not r) if isinstance(r, bool) else z3.Not(r))
    if op in ('In', 'NotIn'):
        r = contains(E, b, a)
        if op == 'NotIn':
            r = (not r) if isinstance(r, bool) else z3.Not(r)
        return _wrapb(r)
    # ordering
    if isinstance(a, VT) and isinstance(b, VT):
        def conc(t):
            out = []
            for x in t.items:
                if isinstance(x, VC):
                    out.append(x.v)
                elif isinstance(x, VT):
                    out.append(conc(x))
                else:
                    raise Unsupported('ordering of tuples with symbolic components')
            return tuple(out)
        x, y = conc(a), conc(b)
        try:
            return VC({'Lt': x < y, 'LtE': x <= y, 'Gt': x > y, 'GtE': x >= y}[op])
        except TypeError as e:
            _raise('TypeError', str(e))
    if isinstance(a, VC) and isinstance(b, VC):
        try:
            return VC({'Lt': a.v < b.v, 'LtE': a.v <= b.v, 'Gt': a.v > b.v, 'GtE': a.v >= b.v}[op])
        except TypeError as e:
            _raise('TypeError', str(e))
    ta, tb = known_type(E, a), known_type(E, b)
    num = ('int', 'bool')
    if ta in num and tb in num:
        x, y = E.as_z3_int(a), E.as_z3_int(b)
    elif ta in num + ('float',) and tb in num + ('float',):
        x, y = E.as_z3_real(a), E.as_z3_real(b)
    elif ta == 'str' and tb == 'str':
        x, y = E.as_z3_str(a), E.as_z3_str(b)
        return _wrapb({'Lt': x < y, 'LtE': x <= y, 'Gt': y < x, 'GtE': y <= x}[op])
    elif ta is None or tb is None or (ta or '').startswith('inst:') or (tb or '').startswith('inst:'):
        opaque_op_may_raise(E, 'compare ' + op)
        f = z3.Function('cmp_' + op, Val, Val, z3.BoolSort())
        try:
            return VB(f(E.to_val(a), E.to_val(b)))
        except Unsupported:
            return VB(z3.Bool(E.fresh('cmp')))
    else:
        _raise('TypeError', "'%s' not supported between %s and %s" % (op, ta, tb))
    return _wrapb({'Lt': x < y, 'LtE': x <= y, 'Gt': x > y, 'GtE': x >= y}[op])


def contains(E, cont, x):
    """x in cont"""
    if isinstance(cont, VC) and isinstance(x, VC):
        try:
            return x.v in cont.v
        except TypeError as e:
            _raise('TypeError', str(e))
    tc = known_type(E, cont)
    if tc == 'str':
        if known_type(E, x) != 'str':
            if known_type(E, x) is None:
                opaque_op_may_raise(E, 'in str')
                E.tfacts[(x.name, 'str')] = True
            else:
                _raise('TypeError', "'in <string>' requires string as left operand")
        return z3.Contains(E.as_z3_str(cont), E.as_z3_str(x))
    if isinstance(cont, VT) or (tc == 'list' and E.heap[cont.addr].base is None):
        items = cont.items if isinstance(cont, VT) else E.heap[cont.addr].items
        cs = []
        for it in items:
            i = identical_or_eq(E, x, it)
            if i is True:
                return True
            if i is not False:
                cs.append(i)
        if not cs:
            return False
        return z3.Or(*cs)
    if tc == 'dict':
        return dict_has(E, E.heap[cont.addr], x)
    if isinstance(cont, VRef):
        h = E.heap[cont.addr]
        if isinstance(h, HObj) and isinstance(h.cls, VCls):
            m = h.cls.lookup('__contains__')
            if m is not None:
                return E.truth_term(E.call(m, [cont, x]))
        if isinstance(h, HObj) and h.lazy:
            opaque_op_may_raise(E, 'in')
            return z3.Bool(E.fresh('in'))
    if isinstance(cont, VO):
        opaque_op_may_raise(E, 'in')
        f = z3.Function('contains', Val, Val, z3.BoolSort())
        try:
            return f(cont.t, E.to_val(x))
        except Unsupported:
            return z3.Bool(E.fresh('in'))
    raise Unsupported('in on %r' % (cont,))


def identical_or_eq(E, a, b):
    try:
        return val_eq(E, a, b)
    except Unsupported:
        return identical(E, a, b)


# ------------------------------------------------------------------ dicts

def _keyconst(k):
    return isinstance(k, VC)


def dict_has(E, d, k):
    """membership as bool / z3 Bool"""
    res = None
    conds = []
    for kk, vv in reversed(d.entries):
        e = val_eq(E, k, kk)
        if e is True:
            return _or(conds, True)
        if e is False:
            continue
        conds.append(e)
    if _keyconst(k) and k.v in d.deleted:
        return _or(conds, False)
    if d.base is None:
        return _or(conds, False)
    if _keyconst(k):
        b = z3.Bool('has_%s[%r]' % (d.base, k.v))
    else:
        f = z3.Function('has_' + d.base, Val, z3.BoolSort())
        b = f(E.to_val(k))
    return _or(conds, b)


def _or(conds, last):
    if not conds:
        return last
    if last is True:
        return True
    cs = list(conds)
    if last is not False:
        cs.append(last)
    return z3.Or(*cs) if len(cs) > 1 else cs[0]


def dict_get(E, d, k, missing):
    """value for key k; ``missing`` is a thunk called when the key is absent"""
    for kk, vv in reversed(d.entries):
        e = val_eq(E, k, kk)
        if e is True:
            return vv
        if e is False:
            continue
        if E.branch(e, 'dict key alias'):
            return vv
    if d.base is None or (_keyconst(k) and k.v in d.deleted):
        return missing()
    if _keyconst(k):
        b = z3.Bool('has_%s[%r]' % (d.base, k.v))
        if getattr(E, 'spec_lenient', False) and getattr(E, 'spec_assume_defined', False):
            # re-assuming a clause that was just evaluated (and checked) on the state before a havoc:
            # the key was present there, so it is present in the abstracted state as well
            E.assume(b)
        elif not E.branch(b, 'dict has %r' % (k.v,)):
            return missing()
        key = k.v
        if key not in d.val_cache:
            d.val_cache[key] = VO('%s[%r]' % (d.base, key))
        return d.val_cache[key]
    f = z3.Function('has_' + d.base, Val, z3.BoolSort())
    if not E.branch(f(E.to_val(k)), 'dict has'):
        return missing()
    g = z3.Function('val_' + d.base, Val, Val)
    return VO_term(g(E.to_val(k)), '%s[%s]' % (d.base, E.to_val(k)))


def dict_set(E, d, k, v):
    if _keyconst(k):
        for e in d.entries:
            if _keyconst(e[0]) and e[0].v == k.v and type(e[0].v) is type(k.v):
                e[1] = v
                # later symbolic-key writes may shadow: move to the end
                d.entries.remove(e)
                d.entries.append(e)
                return
        d.deleted.discard(k.v)
    d.entries.append([k, v])


# ------------------------------------------------------------------ subscripts

def norm_index(E, idx, n):
    """python index normalisation; returns z3 Int index in range or raises IndexError"""
    i = E.as_z3_int(idx)
    nn = n if not isinstance(n, int) else I(n)
    if E.branch(i < 0, 'negative index'):
        i = i + nn
    if not E.branch(z3.And(i >= 0, i < nn), 'index in range'):
        _raise('IndexError', 'index out of range')
    return z3.simplify(i)


def getitem(E, obj, idx):
    if isinstance(obj, VT):
        n = len(obj.items)
        if isinstance(idx, VC) and type(idx.v) in (int, bool):
            try:
                return obj.items[idx.v]
            except IndexError:
                _raise('IndexError', 'tuple index out of range')
        if known_type(E, idx) in ('int', 'bool'):
            i = norm_index(E, idx, n)
            for j in range(n):
                if E.branch(i == j, 'tuple idx'):
                    return obj.items[j]
            raise PathAbort()
        _raise('TypeError', 'tuple indices must be integers')
    if isinstance(obj, VC) and isinstance(obj.v, (str, bytes)):
        if isinstance(idx, VC):
            try:
                return VC(obj.v[idx.v])
            except IndexError:
                _raise('IndexError', 'string index out of range')
            except TypeError as e:
                _raise('TypeError', str(e))
        if isinstance(obj.v, str):
            return getitem(E, VS(S(obj.v)), idx)
    if isinstance(obj, VS) or (isinstance(obj, VO) and E.tfacts.get((obj.name, 'str'))):
        s = E.as_z3_str(obj)
        i = norm_index(E, idx, z3.Length(s))
        return VS(z3.SubString(s, i, 1))
    if isinstance(obj, VSeq):
        return seq_getitem(E, obj, idx)
    if isinstance(obj, VRef):
        h = E.heap[obj.addr]
        if isinstance(h, HList):
            n = E.list_len(h)
            if isinstance(n, int) and isinstance(idx, VC) and type(idx.v) in (int, bool):
                try:
                    return h.items[idx.v]
                except IndexError:
                    _raise('IndexError', 'list index out of range')
            if known_type(E, idx) not in ('int', 'bool'):
                if known_type(E, idx) is None:
                    opaque_op_may_raise(E, 'list index type')
                else:
                    _raise('TypeError', 'list indices must be integers')
            i = norm_index(E, idx, n)
            r = E.list_get(h, i)
            E.trace.append(('list-read', obj.addr, i, r))
            return r
        if isinstance(h, HDict):
            if getattr(E, 'spec_lenient', False):
                # a subscript written in a clause itself: a missing key is an undefined value (no exception,
                # nothing provable about it); code called from a clause keeps Python's KeyError
                return dict_get(E, h, idx, lambda: E.fresh_opaque('undefined'))
            return dict_get(E, h, idx, lambda: _raise('KeyError', idx))
        if isinstance(h, HObj):
            if h.name == 'dictview':
                target = E.heap[h.fields['obj'].addr]
                if not isinstance(idx, VC):
                    raise Unsupported('__dict__[symbolic]')
                if idx.v in target.fields:
                    return target.fields[idx.v]
                if target.lazy:
                    raise Unsupported('__dict__ read of lazy object')
                _raise('KeyError', idx)
            if isinstance(h.cls, VCls):
                m = h.cls.lookup('__getitem__')
                if m is not None:
                    return E.call(m, [obj, idx])
            if h.lazy:
                return E.opaque_call(VO_term(E.to_val(obj), h.name + '.__getitem__'), [idx], {}, None,
                                     label='getitem')
            if h.name == 'match':
                from . import builtins_ as B
                return B.match_group(E, obj, [idx])
    if isinstance(obj, VO):
        t = known_type(E, obj)
        if t == 'tuple':
            n = len_of(obj.t)
            ki = known_type(E, idx)
            if ki not in ('int', 'bool'):
                if ki is None:
                    opaque_op_may_raise(E, 'tuple index type')
                    E.tfacts[(idx.name, 'int')] = True
                else:
                    _raise('TypeError', 'tuple indices must be integers or slices, not %s' % ki)
            i = norm_index(E, idx, n)
            f = z3.Function('titem', Val, z3.IntSort(), Val)
            return VO_term(f(obj.t, i), '%s[%s]' % (obj.name, i))
        return E.opaque_call(VO_term(obj.t, obj.name + '.__getitem__'), [idx], {}, None, label='getitem')
    if isinstance(obj, VExc):
        _raise('TypeError', 'exception object is not subscriptable')
    raise Unsupported('getitem on %r' % (obj,))


def seq_getitem(E, sq, idx):
    """abstract sequence subscription with ghost probe accounting"""
    i = E.as_z3_int(idx)
    E.trace.append(('probe', sq.name, i))
    g = sq.ghost
    if E.branch(i < 0, 'seq negative index'):
        if g is not None and not ('neg_probe' in g and g['neg_probe'] is None):
            g.setdefault('neg_probe', []).append(i)
        if sq.kind == 'lazy' or (sq.kind == 'any' and E.decide(2, 'seq kind lazy') == 1):
            _raise('IndexError', 'negative indexes are not supported')
        if E.branch(i + sq.length < 0, 'seq neg out of range'):
            _raise('IndexError', 'index out of range')
        i = i + sq.length
    if g is not None:
        # lazily produced: pulling up to i (or exhausting)
        old = g['pulled']
        g['pulled'] = z3.simplify(z3.If(i + 1 > old, z3.If(i + 1 > sq.length, sq.length, i + 1), old))
        g['maxidx'] = z3.simplify(z3.If(i > g['maxidx'], i, g['maxidx']))
    if not E.branch(i < sq.length, 'seq index in range'):
        if g is not None and not ('failed_probe' in g and g['failed_probe'] is None and g.get('havoced_sticky')):
            g['failed_probe'] = True
        _raise('IndexError', 'index out of range')
    return E.seq_elem(sq, i)


def clamp_slice(E, lo, hi, n):
    """python slice bounds -> (lo', hi') z3 Ints with 0 <= lo' , hi' <= n"""
    nn = n if not isinstance(n, int) else I(n)

    def cl(x, default):
        if x is None or (isinstance(x, VC) and x.v is None):
            return default
        t = E.as_z3_int(x)
        return z3.If(t < 0, z3.If(t + nn < 0, I(0), t + nn), z3.If(t > nn, nn, t))
    return z3.simplify(cl(lo, I(0))), z3.simplify(cl(hi, nn))


def getslice(E, obj, lo, hi):
    from . import tainted as _T
    if _T.is_tainted(E, obj):
        return _T.maybe(E, getslice(E, _T.raw(E, obj), lo, hi))
    if isinstance(obj, VC) and isinstance(obj.v, (str, bytes, tuple)):
        if (lo is None or isinstance(lo, VC)) and (hi is None or isinstance(hi, VC)):
            return VC(obj.v[(lo.v if lo else None):(hi.v if hi else None)])
        if isinstance(obj.v, str):
            obj = VS(S(obj.v))
    if isinstance(obj, VBy) or (isinstance(obj, VC) and isinstance(obj.v, bytes)):
        from . import bytesmodel as _BM
        return _BM.getslice(E, obj, lo, hi)
    if isinstance(obj, VS) or (isinstance(obj, VO) and E.tfacts.get((obj.name, 'str'))):
        s = E.as_z3_str(obj)
        n = z3.Length(s)
        a, b = clamp_slice(E, lo, hi, n)
        r = z3.simplify(z3.SubString(s, a, z3.If(b > a, b - a, I(0))))
        # ghost provenance (integer view of the slice, used by clauses that talk about positions instead of
        # string equalities): r == base[lo:hi] with 0 <= lo <= hi <= len(base); slices of slices compose
        info = E.ghost.setdefault('slice_of', {})
        base, off = s, I(0)
        if s.get_id() in info:
            base, off, _hi = info[s.get_id()]
        info[r.get_id()] = (base, z3.simplify(off + a), z3.simplify(off + z3.If(b > a, b, a)))
        E.ghost.setdefault('slice_keep', []).append((s, r))      # keep the terms alive: ids are only unique among live terms
        return VS(r)
    if isinstance(obj, VT):
        if (lo is None or isinstance(lo, VC)) and (hi is None or isinstance(hi, VC)):
            return VT(obj.items[(lo.v if lo else None):(hi.v if hi else None)])
        raise Unsupported('tuple slice with symbolic bounds')
    if isinstance(obj, VRef):
        h = E.heap[obj.addr]
        if isinstance(h, HList) and h.base is None and not any(isinstance(x, SymSeg) for x in h.items):
            if (lo is None or isinstance(lo, VC)) and (hi is None or isinstance(hi, VC)):
                return E.alloc(HList(h.items[(lo.v if lo else None):(hi.v if hi else None)]))
    if isinstance(obj, VO):
        opaque_op_may_raise(E, 'slice')
        r = E.fresh_opaque('slice')
        for t in ('str', 'tuple', 'bytes'):
            if E.tfacts.get((obj.name, t)):
                E.tfacts[(r.name, t)] = True
        return r
    raise Unsupported('slice of %r' % (obj,))


def setitem(E, obj, idx, v):
    if isinstance(obj, VRef):
        h = E.heap[obj.addr]
        if isinstance(h, HDict):
            E.trace.append(('dict_set', obj.addr, repr(idx), idx, v))
            return dict_set(E, h, idx, v)
        if isinstance(h, HList):
            n = E.list_len(h)
            if isinstance(n, int) and isinstance(idx, VC):
                try:
                    h.items[idx.v] = v
                    return
                except IndexError:
                    _raise('IndexError', 'list assignment index out of range')
            raise Unsupported('list item assignment with symbolic index')
        if isinstance(h, HObj):
            if h.name == 'dictview':
                target = E.heap[h.fields['obj'].addr]
                if not isinstance(idx, VC):
                    raise Unsupported('__dict__[symbolic] = ')
                target.fields[idx.v] = v
                E.trace.append(('setattr', h.fields['obj'].addr, idx.v))
                return
            if isinstance(h.cls, VCls):
                m = h.cls.lookup('__setitem__')
                if m is not None:
                    E.call(m, [obj, idx, v])
                    return
    if isinstance(obj, VO):
        E.opaque_call(VO_term(obj.t, obj.name + '.__setitem__'), [idx, v], {}, None, label='setitem')
        return
    raise Unsupported('setitem on %r' % (obj,))


def delitem(E, obj, idx):
    if isinstance(obj, VRef):
        h = E.heap[obj.addr]
        if isinstance(h, HList) and h.base is None and isinstance(idx, VC):
            try:
                del h.items[idx.v]
                return
            except IndexError:
                _raise('IndexError', 'list assignment index out of range')
        if isinstance(h, HDict) and isinstance(idx, VC):
            for e in h.entries:
                if _keyconst(e[0]) and e[0].v == idx.v:
                    h.entries.remove(e)
                    return
            if h.base is None:
                _raise('KeyError', idx)
            raise Unsupported('del on dict with unknown base')
        if isinstance(h, HObj) and h.name == 'dictview' and isinstance(idx, VC):
            target = E.heap[h.fields['obj'].addr]
            if idx.v in target.fields:
                del target.fields[idx.v]
                return
            _raise('KeyError', idx)
    if isinstance(obj, VRef) and isinstance(E.heap[obj.addr], HList) and isinstance(idx, VC) and idx.v == 0:
        h = E.heap[obj.addr]
        if h.base is not None and not h.items:
            old = h.base
            if E.branch(old.length <= 0, 'del from empty list'):
                _raise('IndexError', 'list assignment index out of range')
            nm = E.fresh('tail')
            new = VSeq(nm, z3.simplify(old.length - 1))
            k = z3.Int('k!' + nm)
            E.assume(z3.ForAll([k], z3.Implies(z3.And(k >= 0, k < old.length - 1), new.elem(k) == old.elem(k + 1))))
            h.base = new
            return
    raise Unsupported('delitem on %r' % (obj,))


def setslice(E, obj, lo, hi, v):
    """list slice assignment l[lo:hi] = [] (the only form in the repo)"""
    if not isinstance(obj, VRef) or not isinstance(E.heap[obj.addr], HList):
        raise Unsupported('slice assignment on %r' % (obj,))
    h = E.heap[obj.addr]
    if not (isinstance(v, VRef) and isinstance(E.heap[v.addr], HList)
            and E.list_len(E.heap[v.addr]) == 0):
        raise Unsupported('slice assignment of non-empty value')
    n = E.list_len(h)
    a, b = clamp_slice(E, lo, hi, n)
    nn = n if not isinstance(n, int) else I(n)
    if not E.valid(b == nn):
        raise Unsupported('slice deletion not reaching the end of the list')
    # find the item boundary equal to a
    pos = h.base.length if h.base is not None else I(0)
    for j in range(len(h.items) + 1):
        if E.valid(a == pos):
            removed = h.items[j:]
            h.items = h.items[:j]
            E.trace.append(('list_truncate', obj.addr, j))
            return
        if j < len(h.items):
            x = h.items[j]
            pos = pos + (x.length if isinstance(x, SymSeg) else 1)
    if h.base is not None and E.feasible(a < h.base.length):
        # would cut into the abstract prefix (entries that were on the list
        # before this activation)
        E.oblige(E.cur_obl_prefix() + '::slice_del_within_own_items', a >= h.base.length,
                 kind='safety', detail='list[%s:] = [] removes entries below the entry length' % a)
        raise PathAbort()
    raise Unsupported('cannot resolve slice boundary %s' % a)


# ------------------------------------------------------------------ attributes

# library base classes that contribute no attributes of their own beyond object's
PLAIN_BASES = {'ExtensionClass.Base', 'object'}

STR_METHODS = {'lower', 'upper', 'strip', 'find', 'rfind', 'split', 'replace', 'startswith',
               'endswith', 'join', 'capitalize', 'format', 'encode', 'decode', 'translate',
               'lstrip', 'rstrip', 'index', 'count', 'isdigit', 'title'}


def raw_getattr(E, obj, name):
    h = E.heap[obj.addr]
    if name == '__dict__':
        return E.alloc(HObj(None, {'obj': obj}, name='dictview'))
    if name == '__class__':
        if isinstance(h.cls, VCls):
            return h.cls
        return E.fresh_opaque('class')
    if name in h.fields:
        return h.fields[name]
    if name in h.absent:
        _raise('AttributeError', name)
    if name in h.maybe:
        if E.spec_mode:
            raise Unsupported('spec read of maybe-absent attribute ' + name)
        if E.decide(2, 'attr %s absent' % name) == 1:
            h.absent.add(name)
            h.maybe.discard(name)
            _raise('AttributeError', name)
        h.maybe.discard(name)
    if isinstance(h.cls, VCls):
        a = h.cls.lookup(name)
        if a is not None:
            if isinstance(a, VFn):
                return VBM(a, obj)
            if not h.lazy:
                return a
            if isinstance(a, (VBI,)):
                return a
        if h.lazy:
            o = VO('%s.%s' % (h.name or ('obj%d' % obj.addr), name))
            h.fields[name] = o
            return o
        ga = h.cls.lookup('__getattr__')
        if ga is not None:
            return E.call(ga, [obj, VC(name)])
        if any(not isinstance(b, VCls) and not (isinstance(b, VBI) and b.name in PLAIN_BASES)
               for c in h.cls.mro() for b in c.bases):
            # inherits from a library class we do not model
            if name.startswith('__') and name.endswith('__'):
                _raise('AttributeError', name)
            o = VO('%s.%s' % (h.name or ('obj%d' % obj.addr), name))
            if E.decide(2, 'libbase attr %s missing' % name) == 1:
                _raise('AttributeError', name)
            h.fields[name] = o
            return o
    elif h.lazy:
        o = VO('%s.%s' % (h.name or ('obj%d' % obj.addr), name))
        h.fields[name] = o
        return o
    _raise('AttributeError', name)


def getattr_(E, obj, name):
    from . import builtins_ as B
    if isinstance(obj, VRef):
        h = E.heap[obj.addr]
        if isinstance(h, HObj):
            if isinstance(h.cls, VCls) and h.name != 'excinit':
                ga = h.cls.lookup('__getattribute__')
                if ga is not None:
                    return E.call(ga, [obj, VC(name)])
            if h.cls is None and h.name in B.PSEUDO_OBJ_ATTR:
                return B.PSEUDO_OBJ_ATTR[h.name](E, obj, h, name)
            return raw_getattr(E, obj, name)
        if isinstance(h, HList):
            if name in B.LIST_METHODS:
                return VBM(VBI('list.' + name), obj)
        if isinstance(h, HDict):
            if name in B.DICT_METHODS:
                return VBM(VBI('dict.' + name), obj)
        _raise('AttributeError', name)
    if isinstance(obj, VMod):
        return E.module_attr(obj.name, name)
    if isinstance(obj, VCls):
        a = obj.lookup(name)
        if a is not None:
            return a
        if name == '__name__':
            return VC(obj.name)
        if name == '__bases__':
            return VT(obj.bases)
        _raise('AttributeError', name)
    if isinstance(obj, VBy):
        if hasattr(bytes, name):
            return VBM(VBI('bytes.' + name), obj)
        _raise('AttributeError', name)
    if isinstance(obj, VC) and isinstance(obj.v, (str, bytes)) or isinstance(obj, VS):
        if name in STR_METHODS or hasattr(bytes if (isinstance(obj, VC) and isinstance(obj.v, bytes)) else str, name):
            # every real str / bytes method exists; one the engine has no model for makes the path UNSUPPORTED when it is
            # called (never a bogus AttributeError)
            return VBM(VBI('str.' + name), obj)
        _raise('AttributeError', name)
    if isinstance(obj, VC):
        if name == '__str__' or name == '__class__':
            return VBM(VBI('object.' + name), obj)
        _raise('AttributeError', name)
    if isinstance(obj, VT):
        if name in ('index', 'count'):
            return VBM(VBI('tuple.' + name), obj)
        _raise('AttributeError', name)
    if isinstance(obj, VExc):
        if name == 'args':
            if obj.sym and not obj.args:
                # an exception raised by an opaque callee / a callee contract: its arguments are unknown.  Modelled as one
                # unknown argument (assumption, listed: such exceptions carry at least one argument, as KeyError(key) from
                # a namespace lookup does) -- with an empty tuple every ``t.args[0]`` in a handler ended the path with an
                # IndexError and the code behind it was never examined
                E.assumptions_used.add('an exception raised by an opaque callee carries at least one argument (args[0] is an unknown value)')
                if 'args0' not in obj.fields:
                    obj.fields['args0'] = VO('%s.args0' % obj.uid)
                return VT([obj.fields['args0']])
            return VT(obj.args)
        if name in obj.fields:
            return obj.fields[name]
        if obj.sym:
            o = VO('%s.%s' % (obj.uid, name))
            obj.fields[name] = o
            return o
        if name == '__class__':
            return VBI(obj.cls)
        if name == '__str__':
            return VBM(VBI('object.__str__'), obj)       # every exception object has one
        _raise('AttributeError', name)
    if isinstance(obj, VO):
        t = known_type(E, obj)
        if t == 'str' and (name in STR_METHODS or hasattr(str, name)):
            return VBM(VBI('str.' + name), obj)
        if t == 'bytes' and name == 'decode':
            return VBM(VBI('bytes.decode'), obj)
        if t in ('str', 'int', 'tuple', 'bytes', 'float'):
            if name.startswith('__'):
                return VBM(VBI('object.' + name), obj)
            _raise('AttributeError', name)
        if name == '__class__':
            return B.VTypeOf(obj)
        if name == '__name__':
            f = z3.Function('class_name', Val, z3.StringSort())
            return VS(f(obj.t))
        key = ('attr', obj.name, name)
        if key in E.ghost:
            return E.ghost[key]
        # attribute of an unknown object: may be missing (unless a hasattr probe on this path said it is there)
        if not E.spec_mode and E.ghost.get(('hasattr', obj.name, name)) is not True and E.decide(2, 'getattr %s raises' % name) == 1:
            raise PyRaise(VExc('Exception', [], sym=True, uid=E.fresh('exc')))
        f = z3.Function('attr_' + name, Val, Val)
        o = VO_term(f(obj.t), '%s.%s' % (obj.name, name))
        E.ghost[key] = o
        return o
    if isinstance(obj, B.VTypeOf):
        if name == '__name__':
            f = z3.Function('class_name', Val, z3.StringSort())
            return VS(f(E.to_val(obj.of) if not isinstance(obj.of, VExc) else z3.Const('exc!%s' % obj.of.uid, Val)))
        if name == '__bases__':
            return E.fresh_opaque('bases')
        raise Unsupported('attribute %s of type(x)' % name)
    if isinstance(obj, VBI):
        if name == '__name__' and obj.name in EXC_PARENT:
            return VC(obj.name)
        return VBI(obj.name + '.' + name)
    if isinstance(obj, VFn):
        if name == '__name__':
            return VC(obj.node.name)
        _raise('AttributeError', name)
    if isinstance(obj, VBM):
        if name == '__name__':
            return getattr_(E, obj.fn, name)
        _raise('AttributeError', name)
    if isinstance(obj, VSeq):
        raise Unsupported('attribute %s of abstract sequence' % name)
    if isinstance(obj, VRe):
        if name in ('match', 'search'):
            return VBM(VBI('re.Pattern.' + name), obj)
    raise Unsupported('getattr %s on %r' % (name, obj))


def setattr_(E, obj, name, v):
    if isinstance(obj, VRef):
        h = E.heap[obj.addr]
        if isinstance(h, HObj):
            if isinstance(h.cls, VCls) and h.name != 'excinit':
                sa = h.cls.lookup('__setattr__')
                if sa is not None:
                    E.call(sa, [obj, VC(name), v])
                    return
            h.fields[name] = v
            h.absent.discard(name)
            h.maybe.discard(name)
            E.trace.append(('setattr', obj.addr, name, h.prov, bool(E.ghost.get('locks'))))
            return
    if isinstance(obj, VO):
        E.trace.append(('setattr-opaque', obj.name, name))
        E.opaque_call(VO_term(obj.t, obj.name + '.__setattr__'), [VC(name), v], {}, None, label='setattr')
        return
    if isinstance(obj, VExc):
        obj.fields[name] = v
        return
    raise Unsupported('setattr %s on %r' % (name, obj))
