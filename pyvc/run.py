"""Property runner: verifies the contracts a property is made of, handles
known findings, replays refutations on the real code, writes evidence, and
maps the outcome to the exit codes of DESIGN.md 2.10
(0 held / 1 violation / 2 undecided / 3 checker error)."""
import fnmatch
import hashlib
import importlib
import json
import multiprocessing as mp
import os
import sys
import time
import traceback

ROOT = os.path.dirname(os.path.dirname(os.path.abspath(__file__)))
# development aid (tools/seedrun.py): evidence/ and replay/ of a run against a scratch tree go elsewhere
OUT = os.environ.get('PYVC_OUT_DIR') or ROOT
sys.setrecursionlimit(10000)


class Lemma:
    """a closed formula proved valid by the solver; ``build`` returns
    (hypotheses, goal) as z3 terms.  Hypotheses must be clauses of contracts
    that are themselves verified in the same property (named in ``uses``)."""

    def __init__(self, name, build, uses=(), text=''):
        self.name = name
        self.build = build
        self.uses = list(uses)
        self.text = text


class Prop:
    def __init__(self, pid, contracts=(), claims=('*',), lemmas=(), structural=(), bounded=(),
                 natives=None, assumptions=(), level='proof', explanation='', not_decided=(), native_default=None, z3_ms=None):
        self.id = pid
        self.contracts = list(contracts)
        self.claims = list(claims)
        self.lemmas = list(lemmas)
        self.structural = list(structural)
        self.bounded = list(bounded)
        self.natives = natives or {}
        self.assumptions = list(assumptions)
        self.level = level
        self.explanation = explanation
        self.not_decided = list(not_decided)
        self.native_default = native_default   # callable(oid, model) -> dict(holds=..., ...)
        self.z3_ms = z3_ms                     # per-query z3 budget for this property (default: smt.Z3_MS)


def load_prop(pid):
    sys.path.insert(0, ROOT) if ROOT not in sys.path else None
    mod = importlib.import_module('props.' + pid)
    # the level written to the evidence is the one claimed in MANIFEST.json (generated from the same dictionary)
    mod.PROP.level = mod.MANIFEST.get('category', mod.PROP.level)
    mod.PROP.manifest_note = mod.MANIFEST.get('note', '')
    return mod.PROP


FORK_SEM = None      # global slot semaphore for process-forking path exploration (set before the pool starts)


def _verify_worker(job):
    pid, func, extra_requires = job
    try:
        import resource
        lim = int(float(os.environ.get('PYVC_MEM_GB', '4')) * (1 << 30))
        resource.setrlimit(resource.RLIMIT_AS, (lim, lim))
    except Exception:
        pass
    try:
        from pyvc.engine import Engine
        from pyvc import contracts as C, smt
        from pyvc.forking import ForkCtl
        prop = load_prop(pid)
        if prop.z3_ms:
            smt.Z3_MS = int(prop.z3_ms)
        c = C.REGISTRY[func]
        saved = list(c.requires)
        if extra_requires:
            c.requires = saved + list(extra_requires)
        E = Engine(C.REGISTRY)
        if FORK_SEM is not None and os.environ.get('PYVC_NOFORK') != '1':
            E.fork_ctl = ForkCtl(FORK_SEM)
        t0 = time.time()
        try:
            res = C.verify(E, c)
        finally:
            c.requires = saved
        obls = []
        for ob in E.obligations.values():
            obls.append(dict(oid=ob.oid, kind=ob.kind, status=ob.status, paths=ob.paths,
                             backends=sorted(ob.backends), ms=round(ob.ms, 2), model=ob.model,
                             detail=ob.detail, havoced=bool(ob.havoced)))
        src = res.src
        return dict(func=func, ok=True, obligations=obls, paths=res.paths, normal=res.normal,
                    exceptional=res.exceptional, aborted=res.aborted, unsupported=res.unsupported,
                    wall=round(time.time() - t0, 3),
                    file=src[0], line=src[1], sha=hashlib.sha256(src[2].encode()).hexdigest()[:16],
                    assumptions=sorted(E.assumptions_used), inlined=sorted(E.inlined),
                    lib=sorted(E.lib_used), smt=dict(smt.stats))
    except Exception:
        return dict(func=func, ok=False, error=traceback.format_exc())


class NativeTimeout(Exception):
    pass


def _guarded(fn, seconds, *a):
    """run a native stand-in / replay under a wall-clock limit (the code under test may not terminate)"""
    import signal

    def onalarm(sig, frm):
        raise NativeTimeout('native run exceeded %ds' % seconds)
    old = signal.signal(signal.SIGALRM, onalarm)
    from pyvc.smt import _load_scale
    signal.setitimer(signal.ITIMER_REAL, seconds * _load_scale())     # wall clock, stretched on an overloaded machine
    try:
        return fn(*a)
    finally:
        signal.setitimer(signal.ITIMER_REAL, 0)
        signal.signal(signal.SIGALRM, old)


NATIVE_S = float(os.environ.get('PYVC_NATIVE_S', '300'))


def _claimed(prop, oid):
    """claim patterns; a pattern starting with '!' excludes (clauses of other properties living in a shared contract)"""
    if '.undeclared_parameter_' in oid:
        return True     # a call outside the callee's contract is never filtered away
    if any(fnmatch.fnmatchcase(oid, p[1:]) for p in prop.claims if p.startswith('!')):
        return False
    return any(fnmatch.fnmatchcase(oid, p) for p in prop.claims if not p.startswith('!'))


def load_known():
    p = os.path.join(ROOT, 'known_findings.json')
    if not os.path.exists(p):
        return []
    with open(p) as fh:
        return json.load(fh).get('findings', [])


def load_ledger():
    p = os.path.join(ROOT, 'ledger.json')
    if not os.path.exists(p):
        return {}
    with open(p) as fh:
        return json.load(fh)


def run_property(pid, tier='quick', update_ledger=False, verbose=False):
    t_start = time.time()
    try:   # native stand-ins run the real code in this process: a runaway must not take the machine down
        import resource
        lim = int(float(os.environ.get('PYVC_MAIN_MEM_GB', '8')) * (1 << 30))
        resource.setrlimit(resource.RLIMIT_AS, (lim, lim))
    except Exception:
        pass
    seed = int(os.environ.get('VERIF_SEED', '0') or 0)
    prop = load_prop(pid)
    if tier == 'thorough':
        # triple solver budgets (inherited by the forked workers)
        from pyvc import smt as _smt
        _smt.Z3_MS *= 3
        _smt.CVC5_MS *= 3
        from pyvc import contracts as _C
        _C.FUNC_BUDGET_S *= 3
    jobs = [(pid, c.key, None) for c in prop.contracts]
    nproc = min(8, max(1, len(jobs)))
    results = []
    if jobs:
        global FORK_SEM
        ctx = mp.get_context('fork')
        FORK_SEM = ctx.BoundedSemaphore(max(2, (os.cpu_count() or 4) - 2))
        # largest functions first
        with ctx.Pool(nproc) as pool:
            results = pool.map(_verify_worker, jobs, chunksize=1)
    crashed = [r for r in results if not r['ok']]
    obligations = {}
    unsupported_funcs = []
    functions = []
    assumptions = set(prop.assumptions)
    solver_ms = 0.0
    for r in results:
        if not r['ok']:
            continue
        functions.append(dict(func=r['func'], file=r['file'], line=r['line'], ast_sha256_16=r['sha'],
                              paths=r['paths'], normal_exits=r['normal'],
                              exceptional_exits=r['exceptional'], wall_s=r['wall'],
                              inlined=r['inlined'], unsupported=r['unsupported']))
        for a in r['assumptions']:
            assumptions.add(a)
        for a in r['lib']:
            assumptions.add('library contract (assumed): ' + a)
        solver_ms += r['smt']['z3_ms'] + r['smt']['cvc5_ms']
        if (r['paths'] == 0 and not r['unsupported']) or (r['normal'] + r['exceptional'] == 0 and not r['unsupported']):
            crashed.append(dict(func=r['func'], error='vacuous: no path completed'))
        for ob in r['obligations']:
            obligations[ob['oid']] = ob
        if r['unsupported']:
            # a function that could not be explored completely: never a silent pass, whatever the claim patterns say
            unsupported_funcs.append((r['func'], '; '.join(r['unsupported'])[:400]))
    # lemmas and structural facts run in-process
    for lem in prop.lemmas:
        obligations[lem.name] = run_lemma(lem)
    for st in prop.structural:
        try:
            for ob in st():
                obligations[ob['oid']] = ob
        except Exception:
            crashed.append(dict(func=getattr(st, '__name__', 'structural'), error=traceback.format_exc()))

    claimed = {k: v for k, v in obligations.items() if _claimed(prop, k)}
    known = [k for k in load_known() if k['property'] == pid]
    ledger = load_ledger().get(pid, [])
    lines = []
    violations = 0
    undecided = []
    refuted_known = []
    replay_dir = os.path.join(OUT, 'replay')
    os.makedirs(replay_dir, exist_ok=True)

    # known findings first: witness must still fail; restricted obligation must discharge
    known_by_obl = {}
    for k in known:
        known_by_obl.setdefault(k['obligation'], []).append(k)
    for oid, ks in known_by_obl.items():
        active = [k for k in ks if k.get('status') == 'known']
        if not active:
            continue
        ob = claimed.get(oid)
        native = prop.natives.get(oid)
        for k in active:
            still = None
            if native is not None:
                try:
                    out = _guarded(native, NATIVE_S, k['witness'])
                    still = not out['holds']
                except Exception:
                    crashed.append(dict(func=oid, error='known-finding witness replay crashed:\n' + traceback.format_exc()))
                    continue
            if still is False:
                lines.append('KNOWN-FINDING-STALE: property=%s %s (witness no longer fails)' % (pid, k['what']))
            else:
                lines.append('KNOWN-FINDING: property=%s %s' % (pid, k['what']))
        if ob is None:
            continue
        if ob['status'] == 'refuted':
            # everything outside the listed regions must still verify
            regions = [k['region'] for k in active if k.get('region')]
            func = oid.split('::')[0]
            if regions and any(c.key == func for c in prop.contracts):
                extra = ['not (%s)' % r for r in regions]
                rr = _verify_worker((pid, func, extra))
                if not rr['ok']:
                    crashed.append(rr)
                else:
                    sub = {o['oid']: o for o in rr['obligations']}.get(oid)
                    if sub is None or sub['status'] == 'discharged':
                        ob['status'] = 'refuted_known'
                        ob['known_regions'] = regions
                        refuted_known.append(oid)
                    elif sub['status'] == 'refuted':
                        ob['model'] = sub['model']
                        ob['detail'] = sub['detail'] + '  [outside the known-finding regions]'
                    else:
                        ob['status'] = 'undecided'
                        ob['detail'] = 'outside known regions: ' + sub['detail']
            elif not regions:
                ob['status'] = 'refuted_known'
                refuted_known.append(oid)

    reverified = {}

    def _second_opinion(oid, ob):
        """a refuted obligation whose counter-model does not fail on the real code may be a proof that failed only because a
        solver ran out of time on a loaded machine (a timed-out validity check weakens what the engine knows on that path):
        the function is verified once more, alone, with three times the solver budgets.  A proof found then is a proof --
        the obligation is discharged; a repeated refutation stands."""
        func = oid.split('::')[0]
        if not any(c.key == func for c in prop.contracts):
            return False
        if func not in reverified:
            from pyvc import smt as _smt
            z, cv = _smt.Z3_MS, _smt.CVC5_MS
            _smt.Z3_MS, _smt.CVC5_MS = z * 3, cv * 3
            _smt._cache.clear()
            try:
                reverified[func] = _verify_worker((pid, func, []))
            finally:
                _smt.Z3_MS, _smt.CVC5_MS = z, cv
        rr = reverified[func]
        if not rr.get('ok'):
            return False
        sub = {o['oid']: o for o in rr['obligations']}.get(oid)
        if sub is not None and sub['status'] == 'discharged' and not rr.get('unsupported'):
            ob['status'] = 'discharged'
            ob['backends'] = sorted(set(ob.get('backends') or []) | set(sub.get('backends') or []))
            ob['detail'] = ob['detail'] + '  [discharged on re-verification with 3x solver budgets; the first attempt ended with a counter-model that does not fail on the real code]'
            ob['model'] = None
            return True
        return False

    for oid, ob in sorted(claimed.items()):
        if ob['status'] == 'refuted':
            violations += 1
            rp = os.path.join(replay_dir, '%s-%s.json' % (pid, _safe(oid)))
            native = prop.natives.get(oid)
            if native is None and prop.native_default is not None:
                native = (lambda m, _o=oid: prop.native_default(_o, m))
            rec = dict(property=pid, obligation=oid, clause=ob['detail'], model=ob['model'],
                       backends=ob['backends'], solver_output='sat (counter-model above)')
            suffix = ''
            if native is not None:
                try:
                    out = _guarded(native, NATIVE_S, _norm_model(ob['model']))
                    rec['replay'] = out
                    if out.get('holds'):
                        # the counter-model does not fail natively
                        found = None
                        if out.get('search'):
                            found = _guarded(out['search'], NATIVE_S)
                        if found:
                            rec['replay'] = found
                        elif _second_opinion(oid, ob):
                            violations -= 1
                            continue
                        elif 'cvc5-fmf' in (ob.get('backends') or []):
                            # the only counter-model comes from the bounded (finite-model) string solver, after the complete
                            # solvers ran out of time, and it does not fail on the real code: not a verdict
                            violations -= 1
                            ob['status'] = 'undecided'
                            ob['detail'] = 'solver unknown (a finite-model candidate does not fail on the real code): ' + ob['detail']
                            undecided.append(oid)
                            continue
                        else:
                            suffix = ' no-failing-input-found'
                            if ob['kind'] == 'coverage':
                                # the code left the domain the contracts cover (a call outside a callee's contract) and no
                                # failing input was found on the real code: undecided, not a violation
                                violations -= 1
                                ob['status'] = 'undecided'
                                ob['detail'] = 'outside contract coverage, no failing input found: ' + ob['detail']
                                undecided.append(oid)
                                continue
                except Exception:
                    rec['replay_error'] = traceback.format_exc()
                    suffix = ' no-failing-input-found'
            else:
                suffix = ' no-failing-input-found'
            rec['replay'] = _jsonable(rec.get('replay'))
            with open(rp, 'w') as fh:
                json.dump(rec, fh, indent=1, default=str)
            lines.append('VIOLATION property=%s replay=%s%s' % (pid, rp, suffix))
            lines.append('  failed obligation: %s   [%s]' % (oid, ob['detail'][:200]))
        elif ob['status'] == 'undecided':
            undecided.append(oid)

    for fn_, why in unsupported_funcs:
        oid = fn_ + '::UNSUPPORTED'
        claimed[oid] = dict(oid=oid, kind='engine', status='undecided', paths=0, backends=[], ms=0, model=None,
                            detail='UNSUPPORTED: ' + why, havoced=False)
        undecided.append(oid)
    if tier == 'thorough':
        # CPython cross-check of the engine itself: a disagreement is a checker error, never a verdict
        try:
            from pyvc import crosscheck
            nx, badx = crosscheck.run()
            bounded_pre = dict(name='engine.cpython_crosscheck', tool='pyvc interpreter in concrete mode vs CPython on the real functions',
                               bound='%d concrete calls of opt, cmp, nocase, the dtml-var modifiers, parse_let_params' % nx,
                               cases=nx, violation=False, witness=None, disagreements=badx[:5])
            if badx:
                crashed.append(dict(func='engine cross-check', error='pyvc disagrees with CPython: %r' % (badx[:3],)))
        except Exception:
            bounded_pre = None
            crashed.append(dict(func='engine cross-check', error=traceback.format_exc()))
    else:
        bounded_pre = None
    missing = [o for o in ledger if o not in claimed]
    # bounded stand-ins (labelled; never counted as proved)
    bounded_out = [bounded_pre] if bounded_pre else []
    for b in prop.bounded:
        try:
            out = _guarded(b, NATIVE_S * (4 if tier == 'thorough' else 1), tier)
            bounded_out.append(out)
            if out.get('violation'):
                violations += 1
                rp = os.path.join(replay_dir, '%s-%s.json' % (pid, _safe(out['name'])))
                with open(rp, 'w') as fh:
                    json.dump(_jsonable(out), fh, indent=1, default=str)
                lines.append('VIOLATION property=%s replay=%s' % (pid, rp))
                lines.append('  bounded stand-in %s found a failing input: %s' % (out['name'], str(out.get('witness'))[:200]))
        except NativeTimeout:
            crashed.append(dict(func=getattr(b, '__name__', 'bounded'), error=traceback.format_exc()))
        except Exception as exc_:
            # an exception the stand-in did not expect.  Raised INSIDE the code under test (innermost frame in the package
            # source) it is an observation about that code -- the rendering the stand-in asked for failed where it does not
            # fail on the unchanged tree -- and is reported as a failing input; anywhere else it is a crash of the checker.
            import traceback as _tb
            frames = _tb.extract_tb(exc_.__traceback__)
            from pyvc.engine import REPO_SRC as _RS
            inner = frames[-1].filename if frames else ''
            pkg = [f for f in frames if f.filename.startswith(os.path.realpath(_RS)) or f.filename.startswith(_RS)]
            if pkg and (inner.startswith(_RS) or inner.startswith(os.path.realpath(_RS)) or inner.startswith('<')):
                violations += 1
                nm = getattr(b, '__name__', 'bounded').strip('_')
                out = dict(name='%s.native_unexpected_exception' % pid, tool='native run on the real code', violation=True,
                           witness=dict(exception=repr(exc_)[:300], raised_in='%s:%d %s' % (pkg[-1].filename, pkg[-1].lineno, pkg[-1].name),
                                        stand_in=nm, traceback=_tb.format_exc()[-1500:]))
                bounded_out.append(out)
                rp = os.path.join(replay_dir, '%s-%s.json' % (pid, _safe(out['name'])))
                with open(rp, 'w') as fh:
                    json.dump(_jsonable(out), fh, indent=1, default=str)
                lines.append('VIOLATION property=%s replay=%s' % (pid, rp))
                lines.append('  bounded stand-in: the real code raised %s at %s' % (repr(exc_)[:120], out['witness']['raised_in']))
            else:
                crashed.append(dict(func=getattr(b, '__name__', 'bounded'), error=traceback.format_exc()))

    n_obl = len(claimed)
    n_dis = sum(1 for o in claimed.values() if o['status'] == 'discharged')
    wall = time.time() - t_start
    level = prop.level if (n_dis == n_obl and n_obl > 0) else 'other'
    expl = prop.explanation
    if level == 'other' and not expl:
        expl = ('not every obligation is discharged' if n_dis != n_obl else
                'all obligations discharged; claimed below proof level: ' + (getattr(prop, 'manifest_note', '') or 'see MANIFEST.json level_note'))
    if refuted_known:
        expl = (expl + ' ' if expl else '') + ('%d obligation(s) are refuted only inside recorded known-finding regions: %s'
                                              % (len(refuted_known), ', '.join(refuted_known)))
    samples = []
    for oid, ob in list(sorted(claimed.items()))[:6]:
        samples.append(dict(obligation=oid, kind=ob['kind'], clause=ob['detail'][:300] if ob['detail'] else '',
                            status=ob['status'], paths=ob['paths'], backends=ob['backends']))
    evidence = dict(
        property_id=pid, tier=tier, seed=seed, level=level,
        coverage=dict(
            obligations=n_obl, discharged=n_dis,
            refuted_known=len(refuted_known), undecided=len(undecided),
            checker_cmd='cd /verif && ./check %s --tier %s' % (pid, tier),
            trusted_base=['pyvc (this repository: AST symbolic executor / VC generator)',
                          'z3 5.1.0 (python API)', '/usr/bin/cvc5 1.0.3 --strings-exp',
                          'CPython 3.12 ast module'],
            explanation=expl or 'all obligations discharged',
            functions_under_contract=functions,
            obligation_list=[dict(oid=o['oid'], kind=o['kind'], status=o['status'], paths=o['paths'],
                                  backends=o['backends'], ms=o.get('ms', 0)) for o in sorted(claimed.values(), key=lambda x: x['oid'])],
            not_decided_subclaims=prop.not_decided,
            bounded_standins=_jsonable(bounded_out),
            solver_ms=round(solver_ms, 1),
            samples=samples,
        ),
        assumptions=sorted(assumptions),
        wall_s=round(wall, 2),
        violations=violations,
    )
    os.makedirs(os.path.join(OUT, 'evidence'), exist_ok=True)
    with open(os.path.join(OUT, 'evidence', pid + '.json'), 'w') as fh:
        json.dump(evidence, fh, indent=1, default=str)

    for ln in lines:
        print(ln)
    print('%s: %d obligations, %d discharged, %d refuted-known, %d undecided, %d violation(s); %d function(s) under contract; %.1fs'
          % (pid, n_obl, n_dis, len(refuted_known), len(undecided), violations, len(functions), wall))
    if update_ledger:
        led = load_ledger()
        led[pid] = sorted(o for o, v in claimed.items() if v['status'] == 'discharged')
        with open(os.path.join(ROOT, 'ledger.json'), 'w') as fh:
            json.dump(led, fh, indent=1, sort_keys=True)
    if crashed:
        for c in crashed:
            print('CHECKER-ERROR in %s:\n%s' % (c.get('func'), c.get('error')), file=sys.stderr)
        return 3
    if violations:
        return 1
    if undecided or missing:
        for u in undecided:
            print('UNDECIDED %s: %s' % (u, claimed[u]['detail'][:300]))
        for m in missing:
            print('UNDECIDED %s: obligation listed in ledger.json was not generated' % m)
        return 2
    if n_obl == 0:
        print('CHECKER-ERROR: zero obligations generated', file=sys.stderr)
        return 3
    return 0


def run_lemma(lem):
    import z3
    from pyvc import smt
    t0 = time.time()
    try:
        hyps, goal = lem.build()
        v, m, be = smt.check(list(hyps) + [z3.Not(goal)], want_model=True)
        status = {'unsat': 'discharged', 'sat': 'refuted'}.get(v, 'undecided')
        model = None
        if v == 'sat' and m is not None and not isinstance(m, str):
            model = {d.name(): str(m[d]) for d in m.decls() if d.arity() == 0}
        return dict(oid=lem.name, kind='lemma', status=status, paths=1, backends=[be],
                    ms=round((time.time() - t0) * 1000, 2), model=model, detail=lem.text, havoced=False)
    except Exception:
        return dict(oid=lem.name, kind='lemma', status='undecided', paths=0, backends=[],
                    ms=0, model=None, detail='lemma construction failed: ' + traceback.format_exc()[-400:], havoced=False)


def _norm_model(m):
    """counter-model as a flat dict; a cvc5 model arrives as SMT-LIB text: its nullary define-funs are merged in"""
    import re
    m = dict(m or {})
    txt = m.get('__cvc5_model__')
    if isinstance(txt, str):
        for name, sort, val in re.findall(r'\(define-fun\s+(\S+)\s+\(\)\s+(\S+)\s+(.*?)\)\s*(?=\(define-fun|\)\s*$)', txt, re.S):
            val = val.strip()
            if sort == 'String' and len(val) >= 2 and val[0] == '"' and val[-1] == '"':
                val = val[1:-1].replace('""', '"')
                val = re.sub(r'\\u\{([0-9a-fA-F]+)\}', lambda mo: chr(int(mo.group(1), 16)), val)
            m.setdefault(name, val)
    return m


def _safe(s):
    return ''.join(ch if ch.isalnum() or ch in '._-' else '_' for ch in s)[-120:]


def _jsonable(x):
    try:
        json.dumps(x)
        return x
    except Exception:
        if isinstance(x, dict):
            return {str(k): _jsonable(v) for k, v in x.items() if not callable(v)}
        if isinstance(x, (list, tuple)):
            return [_jsonable(v) for v in x]
        return repr(x)


def replay_file(path):
    with open(path) as fh:
        rec = json.load(fh)
    prop = load_prop(rec['property'])
    native = prop.natives.get(rec['obligation'])
    if native is None and prop.native_default is not None:
        native = (lambda m: prop.native_default(rec['obligation'], m))
    if native is None:
        print('no native replay for %s; solver model: %s' % (rec['obligation'], rec.get('model')))
        return 1
    out = native(_norm_model(rec.get('model')))
    print(json.dumps(_jsonable(out), indent=1, default=str))
    return 0 if out.get('holds') else 1


def main(argv=None):
    import argparse
    ap = argparse.ArgumentParser()
    ap.add_argument('prop', nargs='?')
    ap.add_argument('--tier', default=os.environ.get('VERIF_TIER', 'quick'))
    ap.add_argument('--replay')
    ap.add_argument('--update-ledger', action='store_true')
    ap.add_argument('-v', action='store_true')
    a = ap.parse_args(argv)
    if a.replay:
        return replay_file(a.replay)
    try:
        return run_property(a.prop, a.tier, a.update_ledger, a.v)
    except Exception:
        traceback.print_exc()
        return 3


if __name__ == '__main__':
    sys.exit(main())
