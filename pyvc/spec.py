"""Specification-only functions usable inside contract clauses."""
import z3

from . import ops
from .values import *  # noqa
from .engine import Unsupported, I, S


def _b(E, v):
    r = E.as_z3_bool(v)
    return z3.BoolVal(r) if isinstance(r, bool) else r


EXTRA = {}


def register(name, fn):
    """register a specification-only function defined by a sidecar contract file"""
    EXTRA[name] = fn


def call(E, name, args, kwargs):
    if name in EXTRA:
        return EXTRA[name](E, *args)
    if name == 'implies':
        return VB(z3.Implies(_b(E, args[0]), _b(E, args[1])))
    if name == 'iff':
        return VB(_b(E, args[0]) == _b(E, args[1]))
    if name == 'imax':
        a, b = E.as_z3_int(args[0]), E.as_z3_int(args[1])
        return VI(z3.If(a >= b, a, b))
    if name == 'imin':
        a, b = E.as_z3_int(args[0]), E.as_z3_int(args[1])
        return VI(z3.If(a <= b, a, b))
    if name == 'is_none':
        return ops._wrapb(ops.identical(E, args[0], NONE))
    if name == 'same':
        return ops._wrapb(ops.identical(E, args[0], args[1]))
    if name == 'truthy_':
        return ops._wrapb(E.truth_term(args[0]))
    if name == 'strlen':
        return VI(z3.Length(E.as_z3_str(args[0])))
    if name == 'contains_':
        return ops._wrapb(ops.contains(E, args[0], args[1]))
    if name == 'len_of':
        v = args[0]
        if isinstance(v, VSeq):
            return VI(v.length)
        if isinstance(v, VRef) and isinstance(E.heap[v.addr], HList):
            n = E.list_len(E.heap[v.addr])
            return VC(n) if isinstance(n, int) else VI(n)
        if isinstance(v, VT):
            return VC(len(v.items))
        if isinstance(v, VO):
            return VI(len_of(v.t))
        raise Unsupported('len_of(%r)' % (v,))
    if name in ('pulled', 'maxidx'):
        g = _ghost(args[0])
        return VI(g[name])
    if name == 'pulled_initial':
        g = _ghost(args[0])
        return VI(g['pulled_initial'])
    if name in ('len_called', 'failed_probe', 'len_before_failed_probe'):
        g = _ghost(args[0])
        if name in g and g[name] is None:
            raise Unsupported('ghost flag %s is unknown after a loop havoc' % name)
        return VC(bool(g.get(name)))
    if name == 'neg_probes':
        g = _ghost(args[0])
        if 'neg_probe' in g and g['neg_probe'] is None:
            raise Unsupported('ghost flag neg_probe is unknown after a loop havoc')
        return VC(bool(g.get('neg_probe')))
    if name == 'finished':
        g = _ghost(args[0])
        return VB(g['pulled'] >= args[0].length)
    if name == 'field':
        return ops.getattr_(E, args[0], args[1].v)
    if name == 'level_of':
        h = E.heap[args[0].addr]
        return h.fields['level']
    if name == 'stack_unchanged':
        r = stack_extra(E, args[0])
        return VC(r == 0) if isinstance(r, int) else VB(r == 0)
    if name == 'stack_extra':
        # number of entries above the entry stack (int, or z3 Int when ghost segments are present) or -1
        r = stack_extra(E, args[0])
        return VC(r) if isinstance(r, int) else VI(r)
    if name == 'iter_pos':
        h = E.heap[args[0].addr]
        return VI(h.fields['pos'])
    if name == 'iter_len':
        h = E.heap[args[0].addr]
        return VI(h.fields['src'].length)
    if name == 'iter_elem':
        h = E.heap[args[0].addr]
        return E.seq_elem(h.fields['src'], E.as_z3_int(args[1]))
    if name == 'list_prefix_of_iter':
        # forall i in [0, len(lst)): lst[i] is src[i]
        lst = E.heap[args[0].addr]
        src = E.heap[args[1].addr].fields['src']
        i = z3.Int('i!pfx')
        n = E.list_len(lst)
        n = I(n) if isinstance(n, int) else n
        return VB(z3.ForAll([i], z3.Implies(z3.And(i >= 0, i < n), list_elem_term(E, lst, i) == src.elem(i))))
    if name == 'val_is':
        return VB(E.to_val(args[0]) == E.to_val(args[1]))
    if name in ('mstart', 'mend', 'mgroup0'):
        v = args[0]
        if isinstance(v, VC) and v.v is None:
            return VI(I(0)) if name != 'mgroup0' else VS(S(''))
        h = E.heap[v.addr]
        if name == 'mstart':
            return h.fields['spans'][0][0]
        if name == 'mend':
            return h.fields['spans'][0][1]
        return h.fields['groups'][0]
    if name == 'data_len':
        h = E.heap[args[0].addr]
        lst = E.heap[h.fields['data'].addr]
        n = E.list_len(lst)
        return VC(n) if isinstance(n, int) else VI(n)
    raise Unsupported('spec function ' + name)


def _ghost(v):
    if isinstance(v, VSeq) and v.ghost is not None:
        return v.ghost
    raise Unsupported('ghost accessor on %r' % (v,))


def stack_extra(E, md):
    """entries on md._data above the entry snapshot; -1 if the entry part was disturbed"""
    h = E.heap[md.addr]
    snap = E.ghost.get(('td_entry', md.addr))
    if snap is None:
        raise Unsupported('no entry snapshot for TemplateDict')
    data = h.fields.get('_data')
    if not isinstance(data, VRef) or data.addr != snap['data_addr']:
        return -1
    lst = E.heap[data.addr]
    if lst.base is not snap['base']:
        return -1
    n0 = len(snap['items'])
    if len(lst.items) < n0 or any(a is not b for a, b in zip(lst.items[:n0], snap['items'])):
        return -1
    extra = lst.items[n0:]
    if any(isinstance(x, SymSeg) for x in extra):
        n = I(0)
        for x in extra:
            n = n + (x.length if isinstance(x, SymSeg) else 1)
        return z3.simplify(n)
    return len(extra)


def stack_unchanged(E, md):
    r = stack_extra(E, md)
    return r == 0 if isinstance(r, int) else False


def list_elem_term(E, h, i):
    """Val term for h[i] with symbolic i (0 <= i < len assumed)"""
    pos = h.base.length if h.base is not None else I(0)
    alts = []
    for x in h.items:
        if isinstance(x, SymSeg):
            f = z3.Function('seg_' + x.name, z3.IntSort(), Val)
            alts.append((z3.And(i >= pos, i < pos + x.length), f(i - pos)))
            pos = pos + x.length
        else:
            alts.append((i == pos, E.to_val(x)))
            pos = pos + 1
    term = z3.Const('undef_elem', Val)
    for c, t in reversed(alts):
        term = z3.If(c, t, term)
    if h.base is not None:
        term = z3.If(i < h.base.length, h.base.elem(i), term)
    return term
