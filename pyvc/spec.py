"""Specification-only functions usable inside contract clauses."""
import z3

from . import ops
from .values import *  # noqa
from .engine import Unsupported, I, S


def _b(E, v):
    r = E.as_z3_bool(v)
    return z3.BoolVal(r) if isinstance(r, bool) else r


def call(E, name, args, kwargs):
    if name == 'implies':
        return VB(z3.Implies(_b(E, args[0]), _b(E, args[1])))
    if name == 'iff':
        return VB(_b(E, args[0]) == _b(E, args[1]))
    if name == 'imax':
        a, b = E.as_z3_int(args[0]), E.as_z3_int(args[1])
        return VI(z3.If(a >= b, a, b))
    if name == 'imin':
        a, b = E.as_z3_int(args[0]), E.as_z3_int(args[1])
        return VI(z3.If(a <= b, a, b))
    if name == 'is_none':
        return ops._wrapb(ops.identical(E, args[0], NONE))
    if name == 'same':
        return ops._wrapb(ops.identical(E, args[0], args[1]))
    if name == 'truthy_':
        return ops._wrapb(E.truth_term(args[0]))
    if name == 'strlen':
        return VI(z3.Length(E.as_z3_str(args[0])))
    if name == 'contains_':
        return ops._wrapb(ops.contains(E, args[0], args[1]))
    if name == 'len_of':
        v = args[0]
        if isinstance(v, VSeq):
            return VI(v.length)
        if isinstance(v, VRef) and isinstance(E.heap[v.addr], HList):
            n = E.list_len(E.heap[v.addr])
            return VC(n) if isinstance(n, int) else VI(n)
        if isinstance(v, VT):
            return VC(len(v.items))
        if isinstance(v, VO):
            return VI(len_of(v.t))
        raise Unsupported('len_of(%r)' % (v,))
    if name in ('pulled', 'maxidx'):
        g = _ghost(args[0])
        return VI(g[name])
    if name in ('len_called', 'failed_probe', 'len_before_failed_probe'):
        g = _ghost(args[0])
        return VC(bool(g.get(name)))
    if name == 'neg_probes':
        g = _ghost(args[0])
        return VC(bool(g.get('neg_probe')))
    if name == 'finished':
        g = _ghost(args[0])
        return VB(g['pulled'] >= args[0].length)
    if name == 'field':
        return ops.getattr_(E, args[0], args[1].v)
    if name == 'level_of':
        h = E.heap[args[0].addr]
        return h.fields['level']
    if name == 'stack_unchanged':
        return VC(stack_unchanged(E, args[0]))
    if name == 'stack_extra':
        # number of concrete entries above the entry stack (python int) or -1
        return VC(stack_extra(E, args[0]))
    if name == 'data_len':
        h = E.heap[args[0].addr]
        lst = E.heap[h.fields['data'].addr]
        n = E.list_len(lst)
        return VC(n) if isinstance(n, int) else VI(n)
    raise Unsupported('spec function ' + name)


def _ghost(v):
    if isinstance(v, VSeq) and v.ghost is not None:
        return v.ghost
    raise Unsupported('ghost accessor on %r' % (v,))


def stack_extra(E, md):
    """entries on md._data above the entry snapshot; -1 if the entry part was disturbed"""
    h = E.heap[md.addr]
    snap = E.ghost.get(('td_entry', md.addr))
    if snap is None:
        raise Unsupported('no entry snapshot for TemplateDict')
    data = h.fields.get('_data')
    if not isinstance(data, VRef) or data.addr != snap['data_addr']:
        return -1
    lst = E.heap[data.addr]
    if lst.base is not snap['base']:
        return -1
    n0 = len(snap['items'])
    if len(lst.items) < n0 or any(a is not b for a, b in zip(lst.items[:n0], snap['items'])):
        return -1
    return len(lst.items) - n0


def stack_unchanged(E, md):
    return stack_extra(E, md) == 0
