"""Symbolic ``bytes`` values (VBy): a z3 sequence of characters 0..255 (the String sort; a byte b is the
character chr(b)), with the operations the tree-state codec of TreeDisplay.TreeTag uses: len, slicing,
concatenation, repetition of a constant, find, translate, join, ascii / utf-8 encode and decode, and the
library functions binascii.b2a_base64 / a2b_base64, zlib.compress / decompress, json.dumps / loads.

Library behaviour is ASSUMED, as uninterpreted functions with axioms instantiated where the terms are built
(every one recorded in E.lib_used, listed in the evidence, and exercised against the real library by
native/c20.py):
  b64(x)      base64 text of x (no newline);  b2a_base64(x) == b64(x) + b"\\n"
  unb64(t)    a2b_base64(t);  a2b raises exactly when not b64ok(t)
  zc / zd     zlib.compress / decompress (zd raises exactly when not zok)
  utf8e/utf8d utf-8 encode / decode;  ascii encode / decode are the identity embedding on is_ascii values
  jd / jl     json.dumps / json.loads
"""
import hashlib

import z3

from . import ops
from .values import *  # noqa
from .engine import PyRaise, Unsupported, I, S, VO_term

SS = z3.StringSort()
b64 = z3.Function('b64', SS, SS)
unb64 = z3.Function('unb64', SS, SS)
b64ok = z3.Function('b64ok', SS, z3.BoolSort())           # a2b_base64 accepts the text
b64chars = z3.Function('b64chars', SS, z3.BoolSort())     # every character is one of the 64 alphabet characters
is_ascii = z3.Function('is_ascii', SS, z3.BoolSort())
zc = z3.Function('zlib_compress', SS, SS)
zd = z3.Function('zlib_decompress', SS, SS)
zok = z3.Function('zlib_ok', SS, z3.BoolSort())
utf8e = z3.Function('utf8_encode', SS, SS)
utf8d = z3.Function('utf8_decode', SS, SS)
utf8ok = z3.Function('utf8_ok', SS, z3.BoolSort())
jd = z3.Function('json_dumps', Val, SS)
jl = z3.Function('json_loads', SS, Val)
jok = z3.Function('json_ok', SS, z3.BoolSort())
box_bytes = z3.Function('box_bytes', SS, Val)


def _raise(cls, *args):
    raise PyRaise(VExc(cls, [VC(a) if not isinstance(a, V) else a for a in args]))


def conc(b):
    """z3 string constant for a concrete bytes value"""
    return z3.StringVal(b.decode('latin-1'))


def is_bytes(v):
    return isinstance(v, VBy) or (isinstance(v, VC) and isinstance(v.v, bytes))


def bz(E, v):
    if isinstance(v, VBy):
        return v.t
    if isinstance(v, VC) and isinstance(v.v, bytes):
        return conc(v.v)
    raise Unsupported('bytes term of %r' % (v,))


def mk(E, t):
    return VBy(z3.simplify(t))


# ------------------------------------------------------------------ axioms (instantiated at construction)
def ax_b64(E, x):
    """facts about b64(x) used by the codec proofs (binascii contract, assumed)"""
    t = b64(x)
    n = z3.Length(x)
    E.lib_used.add('binascii: b64(x) is ASCII text of length 4*ceil(len(x)/3); it is alphabet characters followed by '
                   '(3 - len(x) % 3) % 3 padding characters "="; a2b_base64(b64(x)) == x')
    E.assume(is_ascii(t))
    E.assume(z3.Length(t) == 4 * ((n + 2) / 3))
    E.assume(b64ok(t))
    E.assume(unb64(t) == x)
    pad = z3.If(n % 3 == 0, I(0), 3 - n % 3)
    core = z3.SubString(t, 0, z3.Length(t) - pad)
    E.assume(b64chars(core))
    E.assume(z3.Not(z3.Contains(core, S('='))))
    E.assume(t == z3.Concat(core, z3.If(pad == 0, S(''), z3.If(pad == 1, S('='), S('==')))))
    return t


def ax_b64_hom(E, x, y):
    """b64(x ++ y) == b64(x) ++ b64(y) when len(x) is a multiple of 3 (the encoder works on 3-byte groups)"""
    E.lib_used.add('binascii: b64(x + y) == b64(x) + b64(y) when len(x) % 3 == 0')
    ax_b64(E, x)
    ax_b64(E, y)
    ax_b64(E, z3.Concat(x, y))
    return z3.Implies(z3.Length(x) % 3 == 0, b64(z3.Concat(x, y)) == z3.Concat(b64(x), b64(y)))


def ax_unb64_hom(E, t1, t2):
    """a2b_base64(t1 ++ t2) == a2b_base64(t1) ++ a2b_base64(t2) when t1 consists of alphabet characters only and
    len(t1) % 4 == 0 (the decoder works on 4-character groups); t1 alone is then accepted"""
    E.lib_used.add('binascii: for t1 of alphabet characters with len(t1) % 4 == 0: a2b_base64 accepts t1, and '
                   'a2b_base64(t1 + t2) == a2b_base64(t1) + a2b_base64(t2), t1 + t2 being accepted iff t2 is')
    c = z3.And(b64chars(t1), z3.Length(t1) % 4 == 0)
    E.assume(unb64(S('')) == S(''))
    E.assume(b64ok(S('')))
    E.assume(b64chars(S('')))
    return z3.Implies(c, z3.And(b64ok(t1), unb64(z3.Concat(t1, t2)) == z3.Concat(unb64(t1), unb64(t2)),
                                b64ok(z3.Concat(t1, t2)) == b64ok(t2)))


def ax_sub(E, s, r):
    """r is a substring (slice) of s"""
    E.assume(z3.Implies(is_ascii(s), is_ascii(r)))
    E.assume(z3.Implies(b64chars(s), b64chars(r)))


def ax_cat(E, a, b, r):
    E.assume(is_ascii(r) == z3.And(is_ascii(a), is_ascii(b)))
    E.assume(b64chars(r) == z3.And(b64chars(a), b64chars(b)))


# ------------------------------------------------------------------ operations
def getslice(E, obj, lo, hi):
    s = bz(E, obj)
    a, b = ops.clamp_slice(E, lo, hi, z3.Length(s))
    r = z3.simplify(z3.SubString(s, a, z3.If(b > a, b - a, I(0))))
    ax_sub(E, s, r)
    return VBy(r)


def getitem(E, obj, idx):
    s = bz(E, obj)
    i = E.as_z3_int(idx)
    n = z3.Length(s)
    j = z3.If(i < 0, i + n, i)
    if not E.branch(z3.And(j >= 0, j < n), 'bytes index in range'):
        _raise('IndexError', 'index out of range')
    return VI(z3.StrToCode(z3.SubString(s, j, 1)))


def add(E, a, b):
    if not (is_bytes(a) and is_bytes(b)):
        _raise('TypeError', "can't concat")
    x, y = bz(E, a), bz(E, b)
    r = z3.simplify(z3.Concat(x, y))
    ax_cat(E, x, y, r)
    return VBy(r)


def mult(E, a, n):
    """constant bytes * symbolic int (padding): exact for 0..4 repetitions, otherwise only the length is known"""
    if isinstance(n, VC):
        return VC(a.v * n.v)
    k = E.as_z3_int(n)
    c = a.v.decode('latin-1')
    rep = z3.Function('bytes_repeat_' + hashlib.sha1(a.v).hexdigest()[:8], z3.IntSort(), SS)
    t = rep(k)
    for j in range(0, 5):
        t = z3.If(k == j, S(c * j), t)
    t = z3.If(k <= 0, S(''), t)
    E.assume(z3.Length(rep(k)) == z3.If(k > 0, k * len(c), I(0)))
    return VBy(t)


def truth(E, v):
    return z3.Length(bz(E, v)) > 0


def eq(E, a, b):
    return bz(E, a) == bz(E, b)


def translate_fn(table):
    return z3.Function('bytes_translate_' + hashlib.sha1(table).hexdigest()[:10], SS, SS)


def method(E, m, args, kwargs):
    me, rest = args[0], args[1:]
    if m == 'join':
        return join(E, me, rest[0])
    s = bz(E, me)
    if m == 'find':
        if len(rest) != 1:
            raise Unsupported('bytes.find with start/end')
        return VI(z3.IndexOf(s, bz(E, rest[0]), I(0)))
    if m == 'translate':
        tb = rest[0]
        if not (isinstance(tb, VC) and isinstance(tb.v, bytes) and len(tb.v) == 256):
            raise Unsupported('bytes.translate with a table that is not a constant 256-byte string')
        f = translate_fn(tb.v)
        r = f(s)
        E.lib_used.add('bytes.translate(table): character-wise map by the constant table (uninterpreted per table; length '
                       'preserved; ASCII stays ASCII when the table maps 0..127 into 0..127 -- checked on the table)')
        E.assume(z3.Length(r) == z3.Length(s))
        if all(tb.v[c] < 128 for c in range(128)):
            E.assume(z3.Implies(is_ascii(s), is_ascii(r)))
        E.ghost.setdefault('translate_tables', {})[f.name()] = tb.v
        return VBy(r)
    if m == 'decode':
        enc = rest[0].v if rest and isinstance(rest[0], VC) else kwargs.get('encoding', VC('utf-8')).v
        enc = enc.lower().replace('_', '-')
        if enc == 'ascii':
            E.lib_used.add('bytes.decode("ascii") / str.encode("ascii"): the identity embedding on values whose characters are '
                           'all below 128; UnicodeError otherwise')
            if not E.branch(is_ascii(s), 'ascii decode ok'):
                _raise('ValueError', 'UnicodeDecodeError')
            return VS(s)
        if enc in ('utf-8', 'utf8'):
            E.lib_used.add('utf-8: utf8_decode(utf8_encode(s)) == s; decode raises UnicodeDecodeError exactly on invalid input')
            if not E.branch(utf8ok(s), 'utf-8 decode ok'):
                _raise('ValueError', 'UnicodeDecodeError')
            return VS(utf8d(s))
        raise Unsupported('bytes.decode(%r)' % enc)
    raise Unsupported('bytes.%s on a symbolic bytes value' % m)


def str_encode(E, me, rest, kwargs):
    enc = rest[0].v if rest and isinstance(rest[0], VC) else kwargs.get('encoding', VC('utf-8')).v
    enc = enc.lower().replace('_', '-')
    s = E.as_z3_str(me)
    if enc == 'ascii':
        E.lib_used.add('bytes.decode("ascii") / str.encode("ascii"): the identity embedding on values whose characters are '
                       'all below 128; UnicodeError otherwise')
        if not E.branch(is_ascii(s), 'ascii encode ok'):
            _raise('ValueError', 'UnicodeEncodeError')
        return VBy(s)
    if enc in ('utf-8', 'utf8'):
        E.lib_used.add('utf-8: utf8_decode(utf8_encode(s)) == s; encoding a str never raises (lone surrogates aside)')
        r = utf8e(s)
        E.assume(utf8ok(r))
        E.assume(utf8d(r) == s)
        return VBy(r)
    raise Unsupported('str.encode(%r)' % enc)


def bjoin_term(E, lst):
    """b''.join(list) as a term: the abstract prefix of a havoced list contributes an uninterpreted constant"""
    h = E.heap[lst.addr]
    acc = S('')
    if h.base is not None:
        acc = z3.String('bjoin!' + h.base.name)
    for x in h.items:
        if isinstance(x, SymSeg):
            raise Unsupported('bytes join over a ghost segment')
        if not is_bytes(x):
            _raise('TypeError', 'sequence item: expected a bytes-like object')
        acc = z3.Concat(acc, bz(E, x))
    return z3.simplify(acc)


def join(E, me, seq):
    if not (isinstance(me, VC) and me.v == b''):
        raise Unsupported('bytes.join with a separator')
    if isinstance(seq, VRef) and isinstance(E.heap[seq.addr], HList):
        h = E.heap[seq.addr]
        if h.base is not None and not E.ghost.get(('bytes_list', h.base.name)):
            raise Unsupported('bytes.join over a list whose abstract prefix is not known to hold bytes')
        return VBy(bjoin_term(E, seq))
    raise Unsupported('bytes.join of %r' % (seq,))


# ------------------------------------------------------------------ library functions
def lib_b2a_base64(E, args, kwargs, node):
    x = bz(E, args[0])
    nl = kwargs.get('newline', VC(True))
    if not isinstance(nl, VC):
        raise Unsupported('b2a_base64 with symbolic newline flag')
    t = ax_b64(E, x)
    E.lib_used.add('binascii.b2a_base64(x): b64(x) followed by one newline (none with newline=False); never raises for bytes')
    return mk(E, z3.Concat(t, S('\n')) if nl.v else t)


def lib_a2b_base64(E, args, kwargs, node):
    t = bz(E, args[0])
    E.lib_used.add('binascii.a2b_base64(t): unb64(t) when the text is acceptable (b64ok), binascii.Error otherwise')
    if not E.branch(b64ok(t), 'a2b_base64 accepts'):
        _raise('ValueError', 'binascii.Error')
    return VBy(unb64(t))


def lib_zlib_compress(E, args, kwargs, node):
    x = bz(E, args[0])
    E.lib_used.add('zlib: decompress(compress(x)) == x; compress never raises for bytes; decompress raises zlib.error exactly '
                   'on data that is not a zlib stream')
    r = zc(x)
    E.assume(zok(r))
    E.assume(zd(r) == x)
    return VBy(r)


def lib_zlib_decompress(E, args, kwargs, node):
    x = bz(E, args[0])
    if not E.branch(zok(x), 'zlib stream ok'):
        _raise('Exception', 'zlib.error')
    return VBy(zd(x))


def lib_json_dumps(E, args, kwargs, node):
    v = args[0]
    E.lib_used.add('json: loads(dumps(v)) == v for the values the tree state holds (nested lists of str / int); dumps of such a '
                   'value does not raise; loads raises exactly on text that is not JSON')
    r = jd(E.to_val(v))
    E.assume(jok(r))
    E.assume(jl(r) == E.to_val(v))
    return VS(r)


def lib_json_loads(E, args, kwargs, node):
    s = args[0]
    t = E.as_z3_str(s) if not is_bytes(s) else bz(E, s)
    if not E.branch(jok(t), 'json text ok'):
        _raise('ValueError', 'json.JSONDecodeError')
    return VO_term(jl(t), E.fresh('json'))


LIB = {
    'binascii.b2a_base64': lib_b2a_base64,
    'binascii.a2b_base64': lib_a2b_base64,
    'zlib.compress': lib_zlib_compress,
    'zlib.decompress': lib_zlib_decompress,
    'json.dumps': lib_json_dumps,
    'json.loads': lib_json_loads,
}
