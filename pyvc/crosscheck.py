"""CPython cross-check of the engine (DESIGN.md 2.12): run real functions of /repo on concrete inputs natively and through
pyvc's interpreter in concrete mode; any disagreement means the engine's model of Python is wrong (checker error, exit 3).
Used by the thorough tier."""
import itertools
import random

from .engine import Engine, PyRaise, Unsupported, _Return
from .values import *  # noqa


def to_v(E, x):
    if isinstance(x, (int, str, float, bool, bytes)) or x is None:
        return VC(x)
    if isinstance(x, tuple):
        return VT([to_v(E, y) for y in x])
    if isinstance(x, list):
        return E.alloc(HList([to_v(E, y) for y in x]))
    if isinstance(x, dict):
        d = HDict()
        d.entries = [[to_v(E, k), to_v(E, v)] for k, v in x.items()]
        return E.alloc(d)
    raise Unsupported('cross-check value %r' % (x,))


def from_v(E, v):
    if isinstance(v, VC):
        return v.v
    if isinstance(v, VT):
        return tuple(from_v(E, y) for y in v.items)
    if isinstance(v, VRef):
        h = E.heap[v.addr]
        if isinstance(h, HList) and h.base is None:
            return [from_v(E, y) for y in h.items]
        if isinstance(h, HDict) and h.base is None:
            return {from_v(E, k): from_v(E, x) for k, x in h.entries}
    import z3
    if isinstance(v, (VI, VS, VB, VR)):
        t = z3.simplify(v.t)
        if z3.is_int_value(t):
            return t.as_long()
        if z3.is_string_value(t):
            return t.as_string()
        if z3.is_true(t) or z3.is_false(t):
            return z3.is_true(t)
    raise Unsupported('cross-check result %r' % (v,))


def run_engine(qual, args):
    E = Engine({})
    fn = E.lookup_qual(qual)
    fn = getattr(fn, 'fn', fn)
    E.reset_path([])
    try:
        r = E.inline(fn, [to_v(E, a) for a in args], {})
        return ('ret', from_v(E, r))
    except PyRaise as pr:
        return ('raise', pr.exc.cls)


def run_native(qual, args):
    import importlib
    parts = qual.split('.')
    for i in range(len(parts), 0, -1):
        try:
            obj = importlib.import_module('.'.join(parts[:i]))
        except ImportError:
            continue
        for p in parts[i:]:
            obj = getattr(obj, p)
        break
    try:
        import copy
        return ('ret', obj(*copy.deepcopy(list(args))))
    except Exception as e:  # noqa
        n = type(e).__name__
        return ('raise', {'Unauthorized': 'Unauthorized'}.get(n, n))


def cases():
    rnd = random.Random(7)
    out = []
    for start, end, size, orphan in itertools.product((-1, 0, 1, 3, 7), (-1, 0, 2, 6, 9), (-1, 0, 1, 3), (0, 1, 2)):
        for L in (1, 2, 5, 8):
            out.append(('DocumentTemplate.DT_InSV.opt', (start, end, size, orphan, list(range(L)))))
    for a, b in itertools.product((1, 2, 'a', 'B', 'b', 2.5, (1, 2), (1, 3)), repeat=2):
        out.append(('DocumentTemplate.DT_In.cmp', (a, b)))
    for a, b in itertools.product(('a', 'B', 'b', 'Ab', ''), repeat=2):
        out.append(('DocumentTemplate.DT_In.nocase', (a, b)))
    for s in ('abc', 'a_b_c', 'A b', '', "it's", 'x\x00y\rz\x1a', "''", 'MiXed_Case'):
        for f in ('lower', 'upper', 'capitalize', 'spacify', 'sql_quote', 'len_format'):
            out.append(('DocumentTemplate.DT_Var.' + f, (s,)))
    for v in (0, 5, -3, 1234, 'x', None):
        out.append(('DocumentTemplate.DT_Var.whole_dollars', (v,)))
    for params, name, default in (({'start': '3'}, 'start', 0), ({'start': '0'}, 'start', 0), ({}, 'start', 7), ({'size': ''}, 'size', 0)):
        pass
    for text in ('x', 'x upper', 'a=b c="d e"', 'x y', 'a=1 a=2', '"expr"', '', '   ', 'x =', 'name=x fmt=%s'):
        out.append(('DocumentTemplate.DT_Let.parse_let_params', (text,)))
    return out


def run():
    """-> (number of cases, list of disagreements)"""
    bad = []
    n = 0
    for qual, args in cases():
        try:
            e = run_engine(qual, args)
        except Unsupported as u:
            continue            # outside the subset in concrete mode: nothing to compare
        nat = run_native(qual, args)
        n += 1
        if e[0] != nat[0] or (e[0] == 'ret' and e[1] != nat[1]) or (e[0] == 'raise' and e[1] != nat[1] and not (e[1] in ('ValueError', 'TypeError') and nat[1] in ('ValueError', 'TypeError'))):
            bad.append(dict(function=qual, args=repr(args)[:120], engine=repr(e)[:120], cpython=repr(nat)[:120]))
    return n, bad


if __name__ == '__main__':
    n, bad = run()
    print(n, 'cases;', len(bad), 'disagreements')
    for b in bad[:20]:
        print(b)
