"""Builtins and library boundary (DESIGN.md 2.7).  Each library function is
either modelled exactly, given an *assumed* contract (recorded in
E.lib_used), or reported Unsupported."""
import z3

from . import ops
from .values import *  # noqa
from .engine import PyRaise, Unsupported, I, S, VO_term, PathAbort

BUILTIN_NAMES = {
    'len', 'isinstance', 'getattr', 'hasattr', 'setattr', 'type', 'int', 'str', 'range', 'list',
    'tuple', 'reversed', 'iter', 'next', 'max', 'min', 'chr', 'ord', 'float', 'callable', 'map',
    'filter', 'object', 'dict', 'bool', 'sum', 'abs', 'exec', 'eval', 'print', 'bytes', 'sorted',
    'repr', 'id', 'open', 'zip', 'enumerate', 'issubclass', 'super', 'set', 'frozenset', 'property',
    'staticmethod', 'classmethod', 'any', 'all', 'divmod', 'round',
}
SPEC_FUNCS = {'mstart', 'mend', 'mgroup0', 'implies', 'len_of', 'pulled', 'maxidx', 'len_called', 'failed_probe', 'neg_probes',
              'imax', 'imin', 'is_none', 'iff', 'stack_unchanged', 'level_of', 'field',
              'stack_extra', 'same', 'truthy_', 'isinst', 'strlen', 'contains_', 'trace_calls',
              'data_len', 'finished', 'iter_pos', 'iter_len', 'iter_elem', 'list_prefix_of_iter', 'val_is', 'pulled_initial'}

LIST_METHODS = {'append', 'pop', 'sort', 'reverse', 'insert', 'extend', 'index', 'count', 'copy',
                'remove', 'clear'}
DICT_METHODS = {'get', 'keys', 'items', 'values', 'update', 'setdefault', 'pop', 'copy',
                '__contains__', 'clear'}

TYPE_NAMES = {'str', 'bytes', 'int', 'float', 'tuple', 'list', 'dict', 'bool', 'type', 'object'}
DISJOINT = {'str', 'bytes', 'int', 'float', 'tuple', 'list', 'dict'}


class VTypeOf(V):
    """type(x) of an opaque x"""
    __slots__ = ('of',)

    def __init__(self, of):
        self.of = of

    def __repr__(self):
        return 'VTypeOf(%r)' % (self.of,)


def _raise(cls, *args):
    raise PyRaise(VExc(cls, [VC(a) if not isinstance(a, V) else a for a in args]))


def type_key(E, t):
    """a name for a class-like value used in isinstance"""
    if isinstance(t, VBI):
        return t.name
    if isinstance(t, VCls):
        return t.qual
    if isinstance(t, VO):
        return 'opaque:' + t.name
    raise Unsupported('isinstance against %r' % (t,))


def isa_term(E, v, key):
    f = z3.Function('isa', Val, z3.StringSort(), z3.BoolSort())
    return f(E.to_val(v), S(key))


def isinstance_one(E, v, t):
    """bool or z3 Bool"""
    key = type_key(E, t)
    kt = ops.known_type(E, v)
    from . import tainted as _T
    if _T.is_tainted(E, v):
        return key in (_T.NAME, 'object')
    if key == _T.NAME and kt is not None and not isinstance(v, VO):
        return False        # a plain str / number / list / repo object is not a TaintedString
    if isinstance(v, VExc):
        nm = key.split('.')[-1]
        if nm in EXC_PARENT:
            if exc_is_sub(v.cls, nm):
                return True
            if v.sym and exc_is_sub(nm, v.cls):
                return E.exc_matches(v, [nm])
            return False
        if key == 'object':
            return True
        return False
    if kt is not None and not isinstance(v, VO):
        if key in TYPE_NAMES:
            if key == 'object':
                return True
            if key == 'int':
                return kt in ('int', 'bool')
            return kt == key
        if kt.startswith('inst:') and isinstance(t, VCls):
            h = E.heap[v.addr]
            return any(c.qual == t.qual for c in h.cls.mro())
        if kt.startswith('inst:'):
            h = E.heap[v.addr]
            if h.lazy or any(not isinstance(b, VCls) for c in h.cls.mro() for b in c.bases):
                pass  # unknown relation to a library class
            else:
                return False
        elif kt == 'NoneType' or kt in DISJOINT or kt in ('function', 'type', 'seq', 'exc'):
            return False
    # unknown: type facts on the path
    name = getattr(v, 'name', None) or repr(v)
    if isinstance(v, VRef):
        name = 'ref%d' % v.addr
    fk = (name, key)
    if fk in E.tfacts:
        return E.tfacts[fk]
    if key in DISJOINT:
        for other in DISJOINT:
            if other != key and E.tfacts.get((name, other)):
                if not (key == 'int' and other == 'bool'):
                    return False
    if isinstance(v, VC) and v.v is None:
        return False
    if E.spec_mode:
        return isa_term(E, v, key)
    d = E.decide(2, 'isinstance %s %s' % (name, key))
    r = (d == 0)
    E.tfacts[fk] = r
    try:
        E.assume(isa_term(E, v, key) if r else z3.Not(isa_term(E, v, key)))
    except Unsupported:
        pass
    if r and key == 'tuple' and isinstance(v, VO):
        E.assume(len_of(v.t) >= 0)
    return r


def bi_isinstance(E, args, kwargs, node):
    v, t = args
    ts = t.items if isinstance(t, VT) else [t]
    if E.spec_mode:
        cs = [isinstance_one(E, v, x) for x in ts]
        cs = [z3.BoolVal(c) if isinstance(c, bool) else c for c in cs]
        return VB(z3.simplify(z3.Or(*cs)))
    for x in ts:
        r = isinstance_one(E, v, x)
        if r is True:
            return TRUE
    return FALSE


def bi_len(E, args, kwargs, node):
    (v,) = args
    from . import tainted as _T
    if _T.is_tainted(E, v):
        return bi_len(E, [_T.raw(E, v)], kwargs, node)
    if isinstance(v, VC):
        try:
            return VC(len(v.v))
        except TypeError as e:
            _raise('TypeError', str(e))
    if isinstance(v, VS) or isinstance(v, VBy):
        return VI(z3.Length(v.t))
    if isinstance(v, VT):
        return VC(len(v.items))
    if isinstance(v, VSeq):
        if v.ghost is not None and E.cur_contract is not None and getattr(E.cur_contract, 'lazy_len', False) \
                and not E.spec_mode and E.depth == E.cur_contract._depth0:
            # C12: len() of a lazily produced sequence exhausts it; only allowed once a probe has failed
            E.oblige(E.cur_contract.key + '::C12.len_only_when_exhausted', v.ghost['pulled'] >= v.length, kind='safety',
                     detail='len(sequence) is called only after a probe beyond the end has exhausted the iterator '
                            '(so a batch of an unbounded iterator terminates)')
        if v.ghost is not None:
            v.ghost['len_called'] = True
            v.ghost['len_calls'] = v.ghost.get('len_calls', 0) + 1
            if not v.ghost.get('failed_probe'):
                v.ghost['len_before_failed_probe'] = True
            v.ghost['pulled'] = v.length
        E.trace.append(('len', v.name))
        return VI(v.length)
    if isinstance(v, VRef):
        h = E.heap[v.addr]
        if isinstance(h, HList):
            n = E.list_len(h)
            return VC(n) if isinstance(n, int) else VI(n)
        if isinstance(h, HDict):
            if h.base is None and all(isinstance(k, VC) for k, _ in h.entries):
                return VC(len(h.entries))
            n = E.fresh_int('dlen')
            E.assume(n >= 0)
            return VI(n)
        if isinstance(h, HObj):
            if isinstance(h.cls, VCls):
                m = h.cls.lookup('__len__')
                if m is not None:
                    return E.call(m, [v])
            if h.lazy:
                ops.opaque_op_may_raise(E, 'len')
                n = E.fresh_int('len')
                E.assume(n >= 0)
                return VI(n)
        _raise('TypeError', 'object has no len()')
    if isinstance(v, VO):
        kt = ops.known_type(E, v)
        if kt == 'str':
            return VI(z3.Length(as_str(v.t)))
        if kt in ('tuple', 'bytes', 'list'):
            E.assume(len_of(v.t) >= 0)
            return VI(len_of(v.t))
        ops.opaque_op_may_raise(E, 'len')
        E.assume(len_of(v.t) >= 0)
        return VI(len_of(v.t))
    raise Unsupported('len of %r' % (v,))


def bi_getattr(E, args, kwargs, node):
    obj, name = args[0], args[1]
    if not isinstance(name, VC):
        if len(args) == 3:
            if E.decide(2, 'getattr(symbolic name) missing') == 1:
                return args[2]
        return E.opaque_call(VO('getattr'), [obj, name], {}, node, label='getattr(symbolic name)')
    E.trace.append(('getattr', repr(obj), name.v))
    if len(args) == 3:
        try:
            r = ops.getattr_(E, obj, name.v)
        except PyRaise as pr:
            if E.exc_matches(pr.exc, ['AttributeError']):
                E.trace.append(('attr-read', obj, name.v, args[2]))
                return args[2]
            raise
        E.trace.append(('attr-read', obj, name.v, r))
        return r
    r = ops.getattr_(E, obj, name.v)
    E.trace.append(('attr-read', obj, name.v, r))
    return r


def bi_hasattr(E, args, kwargs, node):
    obj, name = args
    if not isinstance(name, VC):
        ops.opaque_op_may_raise(E, 'hasattr')
        return VB(z3.Bool(E.fresh('hasattr')))
    if isinstance(obj, VO):
        key = ('hasattr', obj.name, name.v)
        if key not in E.ghost:
            f = z3.Function('hasattr_' + name.v, Val, z3.BoolSort())
            if E.spec_mode:
                return VB(f(obj.t))
            E.ghost[key] = E.branch(f(obj.t), 'hasattr %s' % name.v)
        return VC(E.ghost[key])
    try:
        ops.getattr_(E, obj, name.v)
        return TRUE
    except PyRaise as pr:
        if E.exc_matches(pr.exc, ['AttributeError']):
            return FALSE
        raise


def bi_setattr(E, args, kwargs, node):
    obj, name, v = args
    if not isinstance(name, VC):
        raise Unsupported('setattr with symbolic name')
    ops.setattr_(E, obj, name.v, v)
    return NONE


def bi_type(E, args, kwargs, node):
    (v,) = args
    kt = ops.known_type(E, v)
    if kt is None or isinstance(v, VO):
        return VTypeOf(v)
    if kt in TYPE_NAMES or kt == 'NoneType':
        return VBI(kt)
    if kt.startswith('inst:'):
        h = E.heap[v.addr]
        if h.lazy:
            return VTypeOf(v)
        return h.cls
    if kt == 'function':
        return VBI('function')
    if kt == 'exc':
        return VBI(v.cls) if not v.sym else VTypeOf(v)
    if kt == 'type':
        return VBI('type')
    raise Unsupported('type of %r' % (v,))


def typeof_is(E, tv, other):
    """type(x) is/== T for opaque x"""
    if isinstance(other, VTypeOf):
        if other.of is tv.of:
            return True
        return z3.Bool(E.fresh('sametype'))
    key = type_key(E, other)
    v = tv.of
    name = getattr(v, 'name', None) or repr(v)
    if isinstance(v, VRef):
        name = 'ref%d' % v.addr
    fk = (name, 'exact:' + key)
    if fk in E.tfacts:
        return E.tfacts[fk]
    if E.tfacts.get((name, key)) is False:
        return False
    for o in DISJOINT:
        if o != key and E.tfacts.get((name, o)):
            return False
    if E.spec_mode:
        return z3.Bool('typeis_%s_%s' % (name, key))
    r = E.decide(2, 'type(%s) is %s' % (name, key)) == 0
    E.tfacts[fk] = r
    if key == 'NoneType' and isinstance(v, VO):
        # NoneType has exactly one instance
        isnone = v.t == z3.Const('None', Val)
        E.assume(isnone if r else z3.Not(isnone))
    if r:
        E.tfacts[(name, key)] = True
        if key == 'tuple' and isinstance(v, VO):
            E.assume(len_of(v.t) >= 0)
    return r


def py_int(E, v):
    if isinstance(v, VC):
        try:
            return VC(int(v.v))
        except ValueError as e:
            _raise('ValueError', str(e))
        except TypeError as e:
            _raise('TypeError', str(e))
    kt = ops.known_type(E, v)
    if kt in ('int', 'bool'):
        return VI(E.as_z3_int(v))
    if kt == 'float':
        return VI(z3.ToInt(E.as_z3_real(v)))
    f = z3.Function('int_of', Val, z3.IntSort())
    if kt == 'str':
        # int(str): ValueError unless it is a numeral; digits-only strings convert exactly
        s = E.as_z3_str(v)
        ok = z3.Function('int_parses', z3.StringSort(), z3.BoolSort())
        if not E.branch(ok(s), 'int(str) parses'):
            _raise('ValueError', 'invalid literal for int()')
        g = z3.Function('int_of_str', z3.StringSort(), z3.IntSort())
        return VI(g(s))
    if isinstance(v, VO):
        ops.opaque_op_may_raise(E, 'int()')
        return VI(f(v.t))
    _raise('TypeError', 'int() argument must be a string or a number')


def bi_range(E, args, kwargs, node):
    if len(args) == 1:
        lo, hi, st = VC(0), args[0], VC(1)
    elif len(args) == 2:
        lo, hi, st = args[0], args[1], VC(1)
    else:
        lo, hi, st = args
    for x in (lo, hi, st):
        if ops.known_type(E, x) not in ('int', 'bool'):
            if ops.known_type(E, x) is None:
                ops.opaque_op_may_raise(E, 'range arg')
            else:
                _raise('TypeError', 'range() integer argument expected')
    return E.alloc(HObj(None, {'lo': lo, 'hi': hi, 'step': st}, name='range'))


def iter_items(E, v):
    return E.concrete_iter(v)


def bi_list(E, args, kwargs, node):
    if not args:
        return E.alloc(HList())
    (v,) = args
    if isinstance(v, VSeq):
        if v.ghost is not None:
            v.ghost['pulled'] = v.length
            v.ghost['len_called'] = True
        E.trace.append(('list-copy', v.name))
        return E.alloc(HList([], base=v))
    if isinstance(v, VRef) and isinstance(E.heap[v.addr], HList):
        h = E.heap[v.addr]
        return E.alloc(HList(h.items, h.base))
    if isinstance(v, VO):
        ops.opaque_op_may_raise(E, 'list()')
        nm = E.fresh('lst')
        sq = VSeq(nm, E.fresh_int('n' + nm))
        E.assume(sq.length >= 0)
        return E.alloc(HList([], base=sq))
    return E.alloc(HList(iter_items(E, v)))


def bi_tuple(E, args, kwargs, node):
    if not args:
        return VT([])
    (v,) = args
    if isinstance(v, VT):
        return v
    return VT(iter_items(E, v))


def bi_map(E, args, kwargs, node):
    fn = args[0]
    its = [iter_items(E, a) for a in args[1:]]
    out = [E.call(fn, list(xs)) for xs in zip(*its)]
    return E.alloc(HObj(None, {'items': out}, name='iter_list'))


def bi_filter(E, args, kwargs, node):
    fn, it = args
    out = []
    for x in iter_items(E, it):
        keep = E.truth(x if (isinstance(fn, VC) and fn.v is None) else E.call(fn, [x]), 'filter')
        if keep:
            out.append(x)
    return E.alloc(HObj(None, {'items': out}, name='iter_list'))


def bi_max(E, args, kwargs, node, is_max=True):
    if len(args) == 1:
        args = iter_items(E, args[0])
    acc = args[0]
    for x in args[1:]:
        if isinstance(acc, VC) and isinstance(x, VC):
            acc = VC(max(acc.v, x.v) if is_max else min(acc.v, x.v))
            continue
        a, b = E.as_z3_int(acc), E.as_z3_int(x)
        acc = VI(z3.If(a >= b, a, b) if is_max else z3.If(a <= b, a, b))
    return acc


def bi_next(E, args, kwargs, node):
    it = args[0]
    if isinstance(it, VRef):
        h = E.heap[it.addr]
        if isinstance(h, HObj) and h.name == 'ghost_iter':
            pos = h.fields['pos']
            src = h.fields['src']      # VSeq with the elements the iterator will produce
            E.trace.append(('next', src.name, pos))
            if src.ghost is not None and src.ghost.get('infinite'):
                more = True
            else:
                more = E.branch(pos < src.length, 'iterator has more')
            if not more:
                _raise('StopIteration')
            h.fields['pos'] = z3.simplify(pos + 1)
            return E.seq_elem(src, pos)
    if isinstance(it, VO):
        return E.opaque_call(VO_term(it.t, it.name + '.__next__'), [], {}, node, label='next')
    raise Unsupported('next on %r' % (it,))


def bi_chr(E, args, kwargs, node):
    (v,) = args
    if isinstance(v, VC):
        try:
            return VC(chr(v.v))
        except (ValueError, OverflowError) as e:
            _raise('ValueError', str(e))
    i = E.as_z3_int(v)
    if not E.branch(z3.And(i >= 0, i < 0x110000), 'chr range'):
        _raise('ValueError', 'chr() arg not in range(0x110000)')
    return VS(z3.StrFromCode(i))


def bi_ord(E, args, kwargs, node):
    (v,) = args
    if isinstance(v, VC):
        return VC(ord(v.v))
    return VI(z3.StrToCode(E.as_z3_str(v)))


def call_builtin(E, name, args, kwargs, node):
    if name == 'bytes.decode' and args and isinstance(args[0], VBy):
        from . import bytesmodel
        return bytesmodel.method(E, 'decode', args, kwargs)
    fn = TABLE.get(name)
    if fn is not None:
        return fn(E, args, kwargs, node)
    if name in EXC_PARENT:
        return VExc(exc_canon(name), args)
    if name.startswith('bytes.') and args and (isinstance(args[0], VBy) or (isinstance(args[0], VC) and isinstance(args[0].v, bytes))):
        from . import bytesmodel
        return bytesmodel.method(E, name[6:], args, kwargs)
    if name.startswith('str.'):
        from . import strings
        return strings.str_method(E, name[4:], args, kwargs)
    if name.startswith('list.'):
        return list_method(E, name[5:], args, kwargs)
    if name.startswith('dict.'):
        return dict_method(E, name[5:], args, kwargs)
    if name.startswith('spec.'):
        from . import spec
        return spec.call(E, name[5:], args, kwargs)
    if name.endswith('.__getattribute__') and len(args) == 2 and isinstance(args[1], VC):
        # ExtensionClass.Base.__getattribute__ / object.__getattribute__: plain lookup
        return ops.raw_getattr(E, args[0], args[1].v)
    from . import library
    return library.call(E, name, args, kwargs, node)


def list_method(E, m, args, kwargs):
    ref = args[0]
    h = E.heap[ref.addr]
    rest = args[1:]
    if m == 'append':
        h.items.append(rest[0])
        E.trace.append(('list_append', ref.addr, repr(rest[0]), rest[0]))
        return NONE
    if m == 'extend':
        h.items.extend(iter_items(E, rest[0]))
        return NONE
    if m == 'insert' and isinstance(rest[0], VC) and h.base is None:
        h.items.insert(rest[0].v, rest[1])
        return NONE
    if m == 'pop':
        if not rest:
            n = E.list_len(h)
            if h.items and not isinstance(h.items[-1], SymSeg):
                return h.items.pop()
            if isinstance(n, int) and n == 0:
                _raise('IndexError', 'pop from empty list')
        raise Unsupported('list.pop form')
    if m == 'reverse':
        if h.base is None and not any(isinstance(x, SymSeg) for x in h.items):
            h.items.reverse()
            return NONE
        E.lib_used.add('list.reverse on an abstract list: reversed view rev(S)[i] == S[n-1-i]')
        if h.base is not None and not h.items:
            old = h.base
            nm = E.fresh('rev')
            new = VSeq(nm, old.length)
            k = z3.Int('k!' + nm)
            E.assume(z3.ForAll([k], z3.Implies(z3.And(k >= 0, k < old.length),
                                               new.elem(k) == old.elem(old.length - 1 - k))))
            h.base = new
            E.ghost.setdefault('reversed_of', {})[new.name] = old.name
            return NONE
        raise Unsupported('list.reverse on mixed list')
    if m == 'sort':
        from . import library
        return library.list_sort(E, ref, h, kwargs)
    if m == 'copy':
        return E.alloc(HList(h.items, h.base))
    if m == 'clear':
        h.items = []
        h.base = None
        return NONE
    raise Unsupported('list.%s' % m)


def dict_method(E, m, args, kwargs):
    ref = args[0]
    d = E.heap[ref.addr]
    rest = args[1:]
    if m == 'get':
        default = rest[1] if len(rest) > 1 else NONE
        return ops.dict_get(E, d, rest[0], lambda: default)
    if m == '__contains__':
        return ops._wrapb(ops.dict_has(E, d, rest[0]))
    if m in ('keys', 'items', 'values'):
        if d.base is not None:
            raise Unsupported('dict.%s on dict with unknown base' % m)
        if m == 'keys':
            items = [k for k, v in d.entries]
        elif m == 'values':
            items = [v for k, v in d.entries]
        else:
            items = [VT([k, v]) for k, v in d.entries]
        return E.alloc(HObj(None, {'items': items}, name='iter_list'))
    if m == 'update':
        src = rest[0]
        if isinstance(src, VRef) and isinstance(E.heap[src.addr], HDict) and E.heap[src.addr].base is None:
            for k, v in E.heap[src.addr].entries:
                ops.dict_set(E, d, k, v)
            return NONE
        # update from a mapping of unknown contents: afterwards nothing is known about d
        if isinstance(src, VO):
            ops.opaque_op_may_raise(E, 'dict.update')
        d.entries = []
        d.base = E.fresh('dict')
        d.has_cache = {}
        d.val_cache = {}
        d.deleted = set()
        return NONE
    if m == 'copy':
        return E.alloc(d.clone())
    if m == 'setdefault':
        cur = ops.dict_get(E, d, rest[0], lambda: None)
        if cur is None:
            ops.dict_set(E, d, rest[0], rest[1] if len(rest) > 1 else NONE)
            return rest[1] if len(rest) > 1 else NONE
        return cur
    raise Unsupported('dict.%s' % m)


def bi_str(E, args, kwargs, node):
    if not args:
        return VC('')
    v = args[0]
    from . import tainted as _T
    if _T.is_tainted(E, v):
        return _T.raw(E, v)
    if isinstance(v, VRef):
        h = E.heap[v.addr]
        if isinstance(h, HObj) and isinstance(h.cls, VCls):
            m = h.cls.lookup('__str__')
            if m is not None:
                return E.call(m, [v])
        ops.opaque_op_may_raise(E, 'str()')
        return VS(z3.String(E.fresh('str')))
    if isinstance(v, VO) and not E.tfacts.get((v.name, 'str')):
        ops.opaque_op_may_raise(E, 'str()')
    return E.to_str(v)


def bi_callable(E, args, kwargs, node):
    (v,) = args
    if isinstance(v, (VFn, VBM, VBI, VCls)):
        return TRUE
    if isinstance(v, VO):
        f = z3.Function('callable_', Val, z3.BoolSort())
        return VB(f(v.t))
    if isinstance(v, (VC, VI, VS, VB, VT, VR)):
        return FALSE
    if isinstance(v, VRef):
        h = E.heap[v.addr]
        if isinstance(h, HObj) and isinstance(h.cls, VCls):
            return VC(h.cls.lookup('__call__') is not None)
        return FALSE
    raise Unsupported('callable(%r)' % (v,))


def bi_bool(E, args, kwargs, node):
    if not args:
        return FALSE
    return ops._wrapb(E.truth_term(args[0]))


def bi_dict(E, args, kwargs, node):
    d = HDict()
    r = E.alloc(d)
    if args:
        src = args[0]
        if isinstance(src, VRef) and isinstance(E.heap[src.addr], HDict):
            E.heap[r.addr] = E.heap[src.addr].clone()
            d = E.heap[r.addr]
        else:
            raise Unsupported('dict(x)')
    for k, v in kwargs.items():
        ops.dict_set(E, d, VC(k), v)
    return r


def bi_reversed(E, args, kwargs, node):
    (v,) = args
    if isinstance(v, VT):
        return E.alloc(HObj(None, {'items': list(reversed(v.items))}, name='iter_list'))
    if isinstance(v, VRef):
        h = E.heap[v.addr]
        if isinstance(h, HList) and h.base is None and not any(isinstance(x, SymSeg) for x in h.items):
            return E.alloc(HObj(None, {'items': list(reversed(h.items))}, name='iter_list'))
        if isinstance(h, HList):
            return E.alloc(HObj(None, {'seq': v}, name='reversed'))
    raise Unsupported('reversed(%r)' % (v,))


def bi_enumerate(E, args, kwargs, node):
    """enumerate(seq, start=0): pairs (start + k, seq[k]); a list of known length gives a concrete list of pairs, any other
    sequence an abstract sequence with that element model (the source object is read at iteration time, as in Python)"""
    seq = args[0]
    start = args[1] if len(args) > 1 else kwargs.get('start', VC(0))
    n, get = E.iter_model(seq)
    s0 = E.as_z3_int(start)
    nn = n if isinstance(n, int) else smt_as_int(n)
    if nn is not None:
        return E.alloc(HObj(None, {'items': [VT([VI(z3.simplify(s0 + k)) if not isinstance(start, VC) else VC(start.v + k), get(k)])
                                             for k in range(nn)]}, name='iter_list'))
    return VSeq(E.fresh('enum'), n, kind='iter', elem_fn=lambda E_, k: VT([VI(z3.simplify(s0 + k)), get(k)]))


def smt_as_int(t):
    from . import smt as _smt
    return _smt.as_py_int(t)


def bi_float(E, args, kwargs, node):
    (v,) = args
    if isinstance(v, VC):
        try:
            return VC(float(v.v))
        except (ValueError, TypeError) as e:
            _raise(type(e).__name__, str(e))
    kt = ops.known_type(E, v)
    if kt in ('int', 'bool', 'float'):
        return VR(E.as_z3_real(v))
    ops.opaque_op_may_raise(E, 'float()')
    return VR(as_real(E.to_val(v)))


def bi_object(E, args, kwargs, node):
    return E.fresh_opaque('object') if not E.mod_init else VO('object@%s' % (getattr(node, 'lineno', 0)))


def bi_iter(E, args, kwargs, node):
    (v,) = args
    if isinstance(v, VSeq):
        g = {'pos': I(0), 'src': v}
        return E.alloc(HObj(None, g, name='ghost_iter'))
    if isinstance(v, VO):
        ops.opaque_op_may_raise(E, 'iter()')
        return E.fresh_opaque('iter')
    return E.alloc(HObj(None, {'items': iter_items(E, v)}, name='iter_list'))


def bi_abs(E, args, kwargs, node):
    (v,) = args
    if isinstance(v, VC):
        return VC(abs(v.v))
    t = E.as_z3_int(v)
    return VI(z3.If(t >= 0, t, -t))


def bi_unsupported(name):
    def f(E, args, kwargs, node):
        raise Unsupported('builtin %s' % name)
    return f


def bi_print(E, args, kwargs, node):
    return NONE


def bi_id(E, args, kwargs, node):
    return VI(E.fresh_int('id'))


def bi_sum(E, args, kwargs, node):
    acc = args[1] if len(args) > 1 else VC(0)
    for x in iter_items(E, args[0]):
        acc = ops.binop(E, 'Add', acc, x)
    return acc


TABLE = {
    'isinstance': bi_isinstance,
    'len': bi_len,
    'getattr': bi_getattr,
    'hasattr': bi_hasattr,
    'setattr': bi_setattr,
    'type': bi_type,
    'int': lambda E, a, k, n: py_int(E, a[0]) if a else VC(0),
    'str': bi_str,
    'range': bi_range,
    'list': bi_list,
    'tuple': bi_tuple,
    'map': bi_map,
    'filter': bi_filter,
    'max': bi_max,
    'min': lambda E, a, k, n: bi_max(E, a, k, n, False),
    'next': bi_next,
    'chr': bi_chr,
    'ord': bi_ord,
    'callable': bi_callable,
    'bool': bi_bool,
    'dict': bi_dict,
    'reversed': bi_reversed,
    'float': bi_float,
    'object': bi_object,
    'iter': bi_iter,
    'abs': bi_abs,
    'print': bi_print,
    'id': bi_id,
    'sum': bi_sum,
    'exec': bi_unsupported('exec'),
    'eval': lambda E, a, k, n: __import__('pyvc.library', fromlist=['py_eval']).py_eval(E, a, k, n),
    'open': bi_unsupported('open'),
    'sorted': bi_unsupported('sorted'),
    'object.__str__': lambda E, a, k, n: E.to_str(a[0]),
}


def _range_attr(E, obj, h, name):
    raise Unsupported('range.' + name)


def _stringio_attr(E, obj, h, name):
    if name == 'getvalue':
        return VBM(VBI('io.StringIO.getvalue'), obj)
    raise Unsupported('StringIO.' + name)


PSEUDO_OBJ_ATTR = {'pyobj:StringIO': _stringio_attr}


# ------------------------------------------------------------------ regular expressions (library boundary)
ABSTRACT_TAG_MATCHER = '<<abstract tag matcher>>'


def _re_exec(E, args, kwargs, node, how):
    """pattern.match / pattern.search.  Concrete text: CPython's own ``re`` decides (exact).  Symbolic text: the generic
    assumed contract -- either None, or a match with pos <= start <= end <= len(text) and group(0) == text[start:end]
    (match: start == pos)."""
    import re as _re_
    pat = args[0]
    text = args[1]
    pos = args[2] if len(args) > 2 else VC(0)
    if isinstance(text, VC) and isinstance(text.v, str) and isinstance(pos, VC):
        rx = _re_.compile(pat.pattern, pat.flags)
        m = getattr(rx, how)(text.v, pos.v)
        if m is None:
            return NONE
        n = rx.groups
        spans = [m.span(i) for i in range(n + 1)]
        groups = [m.group(i) for i in range(n + 1)]
        return E.alloc(HObj(None, {'groups': [VC(g) for g in groups], 'spans': [(VC(a), VC(b)) for a, b in spans],
                                   'text': text}, name='match'))
    s = E.as_z3_str(text)
    abstract = pat.pattern == ABSTRACT_TAG_MATCHER
    rz = None if abstract else regex_to_z3(pat.pattern, pat.flags)
    E.lib_used.add('re %s on symbolic text: None, or pos <= start <= end <= len(text), group(0) == text[start:end]%s '
                   '(generic contract; what the pattern accepts is not modelled)' % (how, ', start == pos' if how == 'match' else ''))
    if E.decide(2, 're %s fails' % how) == 1:
        return NONE
    st, en = E.fresh_int('mstart'), E.fresh_int('mend')
    p = E.as_z3_int(pos)
    E.assume(z3.And(p <= st, st <= en, en <= z3.Length(s)))
    if how == 'match':
        E.assume(st == p)
    if abstract:
        # contract M of a tag matcher (proved for dtml_re_class.search; String.tagre starts with the literal '%('):
        # a match is never empty
        E.assume(en > st)
        grp = [VS(z3.SubString(s, st, en - st))] + [VS(z3.String(E.fresh('grp'))) for _ in range(3)]
        return E.alloc(HObj(None, {'groups': grp, 'spans': [(VI(st), VI(en))] * 4, 'text': text}, name='match'))
    import re as _re_
    n = _re_.compile(pat.pattern, pat.flags).groups
    if rz is not None:
        # the matched text belongs to the language of the pattern (which of several possible matches CPython
        # picks -- leftmost, greedy -- is not modelled: any match is allowed, an over-approximation)
        E.assume(z3.InRe(z3.SubString(s, st, en - st), rz))
        E.lib_used.add('re: the matched text is in the language of the pattern (z3 regular expression); leftmost/greedy choice not modelled')
    groups = [VS(z3.SubString(s, st, en - st))] + [VS(z3.String(E.fresh('grp'))) for _ in range(n)]
    spans = [(VI(st), VI(en))] + [(VI(E.fresh_int('gs')), VI(E.fresh_int('ge'))) for _ in range(n)]
    return E.alloc(HObj(None, {'groups': groups, 'spans': spans, 'text': text}, name='match'))


def match_group(E, obj, idxs):
    h = E.heap[obj.addr]
    out = []
    for i in (idxs or [VC(0)]):
        if not isinstance(i, VC):
            raise Unsupported('match.group(symbolic)')
        if isinstance(i.v, str):
            # a named group: some part of the text (not modelled further)
            out.append(VS(z3.String('group_%s_of_match%d' % (i.v, obj.addr))))
            continue
        try:
            out.append(h.fields['groups'][i.v])
        except IndexError:
            _raise('IndexError', 'no such group')
    return out[0] if len(out) == 1 else VT(out)


def _match_attr(E, obj, h, name):
    if name in ('group', 'start', 'end', 'groups', 'span'):
        return VBM(VBI('re.Match.' + name), obj)
    raise Unsupported('match.' + name)


def _match_method(name):
    def f(E, args, kwargs, node):
        obj = args[0]
        h = E.heap[obj.addr]
        rest = list(args[1:])
        if name == 'group':
            return match_group(E, obj, rest)
        if name == 'groups':
            return VT(h.fields['groups'][1:])
        i = rest[0].v if rest else 0
        a, b = h.fields['spans'][i]
        return a if name == 'start' else b if name == 'end' else VT([a, b])
    return f


PSEUDO_OBJ_ATTR['match'] = _match_attr
TABLE['re.Pattern.match'] = lambda E, a, k, n: _re_exec(E, a, k, n, 'match')
TABLE['re.Pattern.search'] = lambda E, a, k, n: _re_exec(E, a, k, n, 'search')
for _n in ('group', 'start', 'end', 'groups', 'span'):
    TABLE['re.Match.' + _n] = _match_method(_n)


def bytes_decode(E, args, kwargs, node):
    """bytes.decode(encoding): an uninterpreted function of (bytes value, encoding); may raise UnicodeDecodeError"""
    b = args[0]
    enc = args[1] if len(args) > 1 else kwargs.get('encoding', VC('utf-8'))
    E.lib_used.add('bytes.decode(encoding): uninterpreted function decode(b, encoding) -> str; may raise UnicodeDecodeError')
    E.trace.append(('decode', b, enc))
    if not E.spec_mode and E.decide(2, 'decode raises') == 1:
        _raise('ValueError', 'UnicodeDecodeError')
    f = z3.Function('decode', Val, Val, z3.StringSort())
    return VS(f(E.to_val(b), E.to_val(enc)))


TABLE['bytes.decode'] = bytes_decode


def bi_all_any(is_all):
    def f(E, args, kwargs, node):
        if isinstance(args[0], VGenAbs):
            E.lib_used.add('any() / all() of a generator expression over a sequence of unknown length: an unconstrained boolean '
                           '(over-approximation; the element expression is assumed not to raise)')
            return VB(z3.Bool(E.fresh('anyall')))
        items = iter_items(E, args[0]) if not (isinstance(args[0], VRef) and isinstance(E.heap[args[0].addr], HList)
                                               and E.heap[args[0].addr].base is None) else E.heap[args[0].addr].items
        for x in items:
            t = E.truth(x, 'all/any')
            if is_all and not t:
                return FALSE
            if not is_all and t:
                return TRUE
        return TRUE if is_all else FALSE
    return f


TABLE['enumerate'] = bi_enumerate
TABLE['all'] = bi_all_any(True)
TABLE['any'] = bi_all_any(False)


from . import tainted as _tainted  # noqa
PSEUDO_OBJ_ATTR['tainted'] = _tainted.attr
for _n in ('quoted', '__str__') + tuple('wrap.' + x for x in _tainted.WRAPPING) + tuple('cond.' + x for x in _tainted.CONDITIONAL):
    TABLE['tainted.' + _n] = (lambda E, a, k, n, _nm='tainted.' + _n: _tainted.call(E, _nm, a, k, n))


def _dictview_attr(E, obj, h, name):
    """obj.__dict__: items()/keys()/values()/get of a non-lazy object's attribute dictionary"""
    target = E.heap[h.fields['obj'].addr]
    if target.lazy:
        raise Unsupported('__dict__.%s of an object with unknown attributes' % name)
    if name in ('items', 'keys', 'values'):
        return VBM(VBI('dictview.' + name), obj)
    raise Unsupported('__dict__.' + name)


def _dictview_method(name):
    def f(E, args, kwargs, node):
        target = E.heap[E.heap[args[0].addr].fields['obj'].addr]
        if name == 'items':
            items = [VT([VC(k), v]) for k, v in target.fields.items()]
        elif name == 'keys':
            items = [VC(k) for k in target.fields]
        else:
            items = list(target.fields.values())
        return E.alloc(HObj(None, {'items': items}, name='iter_list'))
    return f


PSEUDO_OBJ_ATTR['dictview'] = _dictview_attr
for _n in ('items', 'keys', 'values'):
    TABLE['dictview.' + _n] = _dictview_method(_n)


def regex_to_z3(pattern, flags=0):
    """translate a Python regular expression of the simple class (literals, classes, ., repetition, alternation, groups;
    no anchors inside, no back-references, no look-around) to a z3 regular expression; None if outside that class"""
    import re as _re_
    try:
        import re._parser as sp
        import re._constants as sc
    except ImportError:          # pragma: no cover
        import sre_parse as sp
        import sre_constants as sc
    icase = bool(flags & _re_.I)
    Sre = z3.StringSort()

    def lit(c):
        ch = chr(c)
        if icase and ch.lower() != ch.upper():
            return z3.Union(z3.Re(z3.StringVal(ch.lower())), z3.Re(z3.StringVal(ch.upper())))
        return z3.Re(z3.StringVal(ch))

    def rng(a, b):
        r = z3.Range(z3.StringVal(chr(a)), z3.StringVal(chr(b)))
        if icase:
            la, lb = chr(a).lower(), chr(b).lower()
            ua, ub = chr(a).upper(), chr(b).upper()
            if la <= lb and (la, lb) != (chr(a), chr(b)):
                r = z3.Union(r, z3.Range(z3.StringVal(la), z3.StringVal(lb)))
            if ua <= ub and (ua, ub) != (chr(a), chr(b)):
                r = z3.Union(r, z3.Range(z3.StringVal(ua), z3.StringVal(ub)))
        return r
    anychar = z3.Range(z3.StringVal(chr(0)), z3.StringVal(chr(0x2FFFF)))

    def conv(items):
        parts = []
        for op, av in items:
            if op == sc.LITERAL:
                parts.append(lit(av))
            elif op == sc.NOT_LITERAL:
                parts.append(z3.Intersect(anychar, z3.Complement(lit(av))))
            elif op == sc.ANY:
                parts.append(z3.Intersect(anychar, z3.Complement(z3.Re(z3.StringVal(chr(10))))))
            elif op == sc.IN:
                neg = False
                alts = []
                for o2, a2 in av:
                    if o2 == sc.NEGATE:
                        neg = True
                    elif o2 == sc.LITERAL:
                        alts.append(lit(a2))
                    elif o2 == sc.RANGE:
                        alts.append(rng(a2[0], a2[1]))
                    else:
                        raise ValueError('class item')
                u = alts[0] if len(alts) == 1 else z3.Union(*alts)
                parts.append(z3.Intersect(anychar, z3.Complement(u)) if neg else u)
            elif op in (sc.MAX_REPEAT, sc.MIN_REPEAT):
                lo, hi, sub = av
                r = conv(sub)
                if hi == sc.MAXREPEAT:
                    rep = z3.Star(r) if lo == 0 else (z3.Plus(r) if lo == 1 else z3.Concat(*([r] * lo + [z3.Star(r)])))
                else:
                    rep = z3.Loop(r, lo, hi)
                parts.append(rep)
            elif op == sc.SUBPATTERN:
                parts.append(conv(av[3]))
            elif op == sc.BRANCH:
                parts.append(z3.Union(*[conv(b) for b in av[1]]))
            elif op == sc.AT and av in (sc.AT_END, sc.AT_END_STRING):
                raise ValueError('anchor')
            else:
                raise ValueError('unsupported regex op %s' % (op,))
        if not parts:
            return z3.Re(z3.StringVal(''))
        return parts[0] if len(parts) == 1 else z3.Concat(*parts)
    try:
        return conv(sp.parse(pattern, flags))
    except Exception:
        return None
