"""Native (CPython) evaluation of contract clauses for replay: the same clause
text the prover used, evaluated on real objects returned by the real code."""


class CountingSeq:
    """lazily produced sequence of known length (or unbounded) that records
    every probe; behaves like DT_Util.SequenceFromIter towards its caller"""

    def __init__(self, n=None, items=None):
        self.n = n
        self.items = items
        self.probes = []
        self.neg = []
        self.pulled = 0
        self.len_calls = 0
        self.failed = False
        self.len_before_failed = False

    def __getitem__(self, i):
        self.probes.append(i)
        if i < 0:
            self.neg.append(i)
            raise IndexError(i)
        if self.n is not None and i >= self.n:
            self.pulled = max(self.pulled, self.n)
            self.failed = True
            raise IndexError(i)
        self.pulled = max(self.pulled, i + 1)
        return self.items[i] if self.items is not None else i

    def __len__(self):
        self.len_calls += 1
        if not self.failed:
            self.len_before_failed = True
        if self.n is None:
            raise RuntimeError('len() of an unbounded sequence')
        self.pulled = self.n
        return self.n


def spec_env(extra=None):
    env = {
        'implies': lambda a, b: (not a) or b,
        'iff': lambda a, b: bool(a) == bool(b),
        'imax': max, 'imin': min,
        'len_of': lambda s: s.n if isinstance(s, CountingSeq) else len(s),
        'pulled': lambda s: s.pulled,
        'maxidx': lambda s: max(s.probes) if s.probes else -1,
        'len_called': lambda s: s.len_calls > 0,
        'failed_probe': lambda s: s.failed,
        'len_before_failed_probe': lambda s: s.len_before_failed,
        'neg_probes': lambda s: bool(s.neg),
        'finished': lambda s: s.n is not None and s.pulled >= s.n,
        'is_none': lambda x: x is None,
        'same': lambda a, b: a is b,
        'truthy_': bool,
        'strlen': len,
        'contains_': lambda c, x: x in c,
    }
    if extra:
        env.update(extra)
    return env


def eval_clause(clause, env, old=None):
    e = spec_env(env)
    e['old'] = lambda x: x   # callers pre-bind old values by name when needed
    return bool(eval(clause, {'__builtins__': {'min': min, 'max': max, 'len': len, 'abs': abs,
                                               'isinstance': isinstance, 'str': str, 'int': int,
                                               'tuple': tuple, 'True': True, 'False': False,
                                               'None': None}}, e))
