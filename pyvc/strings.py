"""str methods over concrete / z3 String values."""
import ctypes

import z3

from . import ops
from .values import *  # noqa
from .engine import PyRaise, Unsupported, I, S


def replace_all(s, a, b):
    ctx = s.ctx
    return z3.SeqRef(z3.Z3_mk_seq_replace_all(ctx.ref(), s.as_ast(), a.as_ast(), b.as_ast()), ctx)


def _conc(v):
    return isinstance(v, VC)


def ufun(name, *sorts):
    return z3.Function(name, *sorts)


def str_method(E, m, args, kwargs):
    me = args[0]
    rest = args[1:]
    from . import bytesmodel as _BM
    if _conc(me) and isinstance(me.v, bytes) and not all(_conc(a) for a in rest):
        # a bytes constant as receiver with symbolic operands (b''.join(list), table.find(x), ...)
        if m != 'join' or (isinstance(rest[0], VRef) and isinstance(E.heap[rest[0].addr], HList) and (
                E.heap[rest[0].addr].base is not None and E.ghost.get(('bytes_list', E.heap[rest[0].addr].base.name))
                or any(isinstance(x, VBy) for x in E.heap[rest[0].addr].items))):
            return _BM.method(E, m, args, kwargs)
    if m == 'join' and _conc(me) and isinstance(me.v, bytes) and isinstance(rest[0], VRef) and isinstance(E.heap[rest[0].addr], HList) \
            and E.heap[rest[0].addr].base is None and all(_conc(x) and isinstance(x.v, bytes) for x in E.heap[rest[0].addr].items):
        return VC(me.v.join(x.v for x in E.heap[rest[0].addr].items))
    if m == 'encode' and not _conc(me):
        return _BM.str_encode(E, me, rest, kwargs)
    if m == 'join' and _conc(me) and isinstance(me.v, bytes):
        # bytes join: an uninterpreted concatenation of bytes values (TypeError for a str piece)
        items = E.concrete_iter(rest[0])
        if not all(ops.known_type(E, x) == 'bytes' for x in items):
            raise PyRaise(VExc('TypeError', [VC('sequence item: expected a bytes-like object')]))
        if me.v != b'':
            raise Unsupported('bytes.join with a separator')
        cat = z3.Function('bytes_cat', Val, Val, Val)
        acc = z3.Const('bytes_empty', Val)
        for x in items:
            acc = cat(acc, E.to_val(x))
        from .engine import VO_term
        r = VO_term(acc, E.fresh('bcat'))
        E.tfacts[(r.name, 'bytes')] = True
        return r
    if _conc(me) and all(_conc(a) for a in rest) and m != 'join':
        try:
            r = getattr(me.v, m)(*[a.v for a in rest])
        except (TypeError, ValueError, IndexError, KeyError, UnicodeError, LookupError) as e:
            raise PyRaise(VExc(type(e).__name__ if type(e).__name__ in EXC_PARENT else 'ValueError',
                               [VC(str(e))]))
        if isinstance(r, list):
            return E.alloc(HList([VC(x) for x in r]))
        if isinstance(r, tuple):
            return VT([VC(x) for x in r])
        return VC(r)
    s = E.as_z3_str(me)
    SS = z3.StringSort()
    if m in ('lower', 'upper', 'capitalize', 'title'):
        f = ufun('str_' + m, SS, SS)
        E.lib_used.add('str.%s: uninterpreted' % m)
        return VS(f(s))
    if m in ('strip', 'lstrip', 'rstrip') and not rest:
        f = ufun('str_' + m, SS, SS)
        r = f(s)
        E.lib_used.add('str.%s: uninterpreted with axioms (result is a substring; empty iff all-whitespace)' % m)
        E.assume(z3.Contains(s, r))
        E.assume(z3.Length(r) <= z3.Length(s))
        return VS(r)
    if m == 'find':
        sub = E.as_z3_str(rest[0])
        start = E.as_z3_int(rest[1]) if len(rest) > 1 else I(0)
        if len(rest) > 2:
            raise Unsupported('str.find with end')
        # python: start clamps; IndexOf(s, sub, start) returns -1 if start out of range
        n = z3.Length(s)
        st = z3.If(start < 0, z3.If(start + n < 0, I(0), start + n), start)
        return VI(z3.simplify(z3.IndexOf(s, sub, st)))
    if m == 'rfind':
        sub = E.as_z3_str(rest[0])
        if len(rest) > 2:
            raise Unsupported('str.rfind with end')
        if len(rest) == 2:
            # s.rfind(sub, start): last occurrence at or after start (python clamps start like a slice index)
            n = z3.Length(s)
            start = E.as_z3_int(rest[1])
            st = z3.If(start < 0, z3.If(start + n < 0, I(0), start + n), z3.If(start > n, n, start))
            r = z3.LastIndexOf(z3.SubString(s, st, n - st), sub)
            return VI(z3.If(r < 0, I(-1), r + st))
        return VI(z3.LastIndexOf(s, sub))
    if m == 'startswith':
        return ops._wrapb(z3.PrefixOf(E.as_z3_str(rest[0]), s))
    if m == 'endswith':
        return ops._wrapb(z3.SuffixOf(E.as_z3_str(rest[0]), s))
    if m == 'replace':
        if len(rest) != 2:
            raise Unsupported('str.replace with count')
        a, b = E.as_z3_str(rest[0]), E.as_z3_str(rest[1])
        return VS(replace_all(s, a, b))
    if m == 'split':
        if len(rest) == 1:
            # abstract list of pieces: only its length (count+1) and join-inverse are known
            nm = E.fresh('split')
            sq = VSeq(nm, E.fresh_int('n' + nm))
            cnt = ufun('str_count', SS, SS, z3.IntSort())
            sep = E.as_z3_str(rest[0])
            E.assume(sq.length == cnt(s, sep) + 1)
            E.assume(cnt(s, sep) >= 0)
            E.assume((cnt(s, sep) == 0) == z3.Not(z3.Contains(s, sep)))
            E.lib_used.add('str.split(sep): len(result) == count(sep)+1; count == 0 iff sep not in s')
            E.ghost.setdefault('split_of', {})[nm] = (s, sep)
            return E.alloc(HList([], base=sq))
        raise Unsupported('str.split()')
    if m == 'partition' and len(rest) == 1:
        sep = E.as_z3_str(rest[0])
        a, sv, b = z3.String(E.fresh('before')), z3.String(E.fresh('sepfound')), z3.String(E.fresh('after'))
        E.assume(z3.Concat(a, sv, b) == s)
        E.assume(z3.Or(z3.And(sv == sep, z3.Not(z3.Contains(a, sep))),
                       z3.And(sv == S(''), b == S(''), a == s, z3.Not(z3.Contains(s, sep)))))
        return VT([VS(a), VS(sv), VS(b)])
    if m in ('rsplit', 'splitlines', 'partition', 'rpartition') or (m == 'split' and len(rest) != 1):
        # pieces of the string: an abstract list of strings about which nothing is known
        nm = E.fresh('pieces')
        sq = VSeq(nm, E.fresh_int('n' + nm))
        E.assume(sq.length >= 1)
        E.lib_used.add('str.%s: a list of at least one string (contents not modelled)' % m)
        E.ghost.setdefault('str_pieces', set()).add(nm)
        return E.alloc(HList([], base=sq))
    if m == 'join':
        seq = rest[0]
        if isinstance(seq, VRef) and isinstance(E.heap[seq.addr], HList) and E.heap[seq.addr].base is not None:
            # joining an abstract list of pieces: some string (nothing is known about it)
            ops.opaque_op_may_raise(E, 'join of unknown pieces')
            E.lib_used.add('str.join over a list of unknown pieces: an arbitrary string')
            return VS(z3.String(E.fresh('joined')))
        items = E.concrete_iter(seq)
        out = None
        for i, x in enumerate(items):
            if ops.known_type(E, x) != 'str':
                if ops.known_type(E, x) is None:
                    ops.opaque_op_may_raise(E, 'join item type')
                    E.tfacts[(x.name, 'str')] = True
                else:
                    raise PyRaise(VExc('TypeError', [VC('sequence item: expected str instance')]))
            out = x if out is None else ops.binop(E, 'Add', ops.binop(E, 'Add', out, me), x)
        return out if out is not None else VC('')
    if m == 'format':
        if _conc(me) and not kwargs:
            import re as _re
            parts = _re.split(r'(\{\})', me.v)
            if '{' in me.v.replace('{}', '') or '}' in me.v.replace('{}', ''):
                raise Unsupported('str.format with field specs')
            if sum(1 for p in parts if p == '{}') != len(rest):
                raise PyRaise(VExc('IndexError', [VC('Replacement index out of range')]))
            out = VC('')
            it = iter(rest)
            for p in parts:
                if p == '{}':
                    x = next(it)
                    if isinstance(x, VRef) or (isinstance(x, VO) and not E.tfacts.get((x.name, 'str'))):
                        ops.opaque_op_may_raise(E, 'format() of object')
                    out = ops.binop(E, 'Add', out, E.to_str(x) if not isinstance(x, VRef) else VS(z3.String(E.fresh('fmt'))))
                else:
                    out = ops.binop(E, 'Add', out, VC(p))
            return out
        raise Unsupported('str.format on symbolic')
    if m in ('casefold', 'swapcase', 'title', 'expandtabs', 'zfill', 'center', 'ljust', 'rjust') :
        f = ufun('str_' + m, SS, SS)
        E.lib_used.add('str.%s: uninterpreted' % m)
        return VS(f(s))
    if m == 'isdigit':
        f = ufun('str_isdigit', SS, z3.BoolSort())
        return VB(f(s))
    raise Unsupported('str.%s on symbolic string' % m)
