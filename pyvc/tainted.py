"""Library model of AccessControl.tainted.TaintedString (assumed contract, taken from the class source and exercised
natively): a wrapper object around a raw string value.

  isinstance(t, TaintedString)            True (and not a str)
  str(t), t._value                        the raw value
  len(t), bool(t), t == o                 those of the raw value
  t.quoted(), t.__untaint__()             html.escape(raw, quote=True)
  t[a:b], t.replace(..), t.translate(..)  a TaintedString iff the result contains '<', else the plain result
  t + o, o + t, t % o, t.lower() / upper() / capitalize() / title() / swapcase() / strip() ...   TaintedString of the result
  any other str method (find, rfind, split is special-cased away, ...)   that of the raw value
"""
import z3

from . import ops
from .values import *  # noqa
from .engine import PyRaise, Unsupported, I, S

NAME = 'AccessControl.tainted.TaintedString'
WRAPPING = ('capitalize', 'lower', 'swapcase', 'title', 'upper', 'strip', 'lstrip', 'rstrip', 'expandtabs')
CONDITIONAL = ('replace', 'translate')


def is_tainted(E, v):
    return isinstance(v, VRef) and isinstance(E.heap.get(v.addr), HObj) and E.heap[v.addr].cls is None and E.heap[v.addr].name == 'tainted'


def raw(E, v):
    return E.heap[v.addr].fields['value']


def make(E, value):
    r = E.alloc(HObj(None, {'value': value}, name='tainted'))
    E.trace.append(('taint-wrap', r, value))
    E.lib_used.add('AccessControl TaintedString: wrapper contract of pyvc/tainted.py (from the class source; assumed, exercised natively)')
    return r


def maybe(E, value):
    """what __getitem__/replace/translate do: keep the mark iff '<' is still there"""
    s = E.as_z3_str(value)
    if E.branch(z3.Contains(s, S('<')), 'still tainted'):
        return make(E, value)
    return value


def attr(E, obj, h, name):
    if name in ('quoted', '__untaint__'):
        return VBM(VBI('tainted.quoted'), obj)
    if name == '_value':
        return h.fields['value']
    if name in WRAPPING:
        return VBM(VBI('tainted.wrap.' + name), obj)
    if name in CONDITIONAL:
        return VBM(VBI('tainted.cond.' + name), obj)
    if name == '__str__':
        return VBM(VBI('tainted.__str__'), obj)
    if name in ('__class__',):
        return VBI(NAME)
    if hasattr(str, name):
        return VBM(VBI('str.' + name), h.fields['value'])       # __getattr__ delegates every other str attribute to the raw value
    raise PyRaise(VExc('AttributeError', [VC(name)]))


def call(E, name, args, kwargs, node):
    from . import strings
    obj = args[0]
    v = raw(E, obj)
    if name == 'tainted.quoted':
        from .library import html_escape_term
        E.trace.append(('quoted', obj))
        return VS(html_escape_term(E.as_z3_str(v)))
    if name == 'tainted.__str__':
        return v
    if name.startswith('tainted.wrap.'):
        return make(E, strings.str_method(E, name[13:], [v] + list(args[1:]), kwargs))
    if name.startswith('tainted.cond.'):
        return maybe(E, strings.str_method(E, name[13:], [v] + list(args[1:]), kwargs))
    raise Unsupported(name)
