"""SMT back ends: z3 (Python API) first, /usr/bin/cvc5 --strings-exp on the
SMT-LIB dump for queries z3 leaves unknown.  Results are cached by formula text
within a process.  Every call is accounted (count, back end, ms)."""
import os
import subprocess
import tempfile
import time

import z3

Z3_MS = int(os.environ.get('PYVC_Z3_MS', '5000'))
CVC5_MS = int(os.environ.get('PYVC_CVC5_MS', '20000'))
SEED = int(os.environ.get('VERIF_SEED', '0') or 0)



def _load_scale():
    """solver budgets are wall-clock; on an overloaded machine (more runnable processes than cores) a query gets only a
    share of a core, so the budgets are stretched by load/cores (at most x4) -- verdicts must not flip with load"""
    try:
        return max(1.0, min(4.0, os.getloadavg()[0] / (os.cpu_count() or 1)))
    except OSError:
        return 1.0


_cache = {}
stats = {'queries': 0, 'cache_hits': 0, 'z3_ms': 0.0, 'cvc5_ms': 0.0,
         'z3_decided': 0, 'cvc5_decided': 0, 'unknown': 0}


def _has_strings(fs):
    for f in fs:
        s = f.sexpr()
        if 'String' in s or 'str.' in s or 'seq.' in s:
            return True
    return False


def _cvc5(fs, want_model, fmf=False):
    s = z3.Solver()
    for f in fs:
        s.add(f)
    text = s.to_smt2()
    # z3 dumps (set-info ...) and uses logic-free text; cvc5 needs a logic
    head = '(set-logic ALL)\n'
    if want_model:
        head += '(set-option :produce-models true)\n'
    text = head + text
    if want_model:
        text += '\n(get-model)\n'
    with tempfile.NamedTemporaryFile('w', suffix='.smt2', delete=False) as fh:
        fh.write(text)
        path = fh.name
    t0 = time.time()
    sc = _load_scale()
    try:
        out = subprocess.run(
            ['/usr/bin/cvc5', '--strings-exp'] + (['--strings-fmf'] if fmf else []) +
            ['--tlimit=%d' % int((CVC5_MS // 2 if fmf else CVC5_MS) * sc), '--seed=%d' % SEED, path],
            capture_output=True, text=True, timeout=CVC5_MS * sc / 1000.0 + 5)
        res = out.stdout.strip().split('\n', 1)
        verdict = res[0].strip() if res else 'unknown'
        rest = res[1] if len(res) > 1 else ''
    except subprocess.TimeoutExpired:
        verdict, rest = 'unknown', ''
    finally:
        stats['cvc5_ms'] += (time.time() - t0) * 1000
        os.unlink(path)
    if verdict not in ('sat', 'unsat'):
        verdict = 'unknown'
    return verdict, rest


def _portfolio(fs, want_model):
    """last resort for a query every single attempt left unknown: the same SMT-LIB text given to several solver
    processes at once -- cvc5 with other seeds and a larger budget, and the two z3 command-line builds (4.8.12, 5.1) --
    first definite answer wins.  A verdict of either polarity from any of them is a real verdict (unsat: a proof; sat from
    cvc5: a counter-model that is replayed natively; sat from a z3 CLI is not used, its model is not read back)."""
    s = z3.Solver()
    for f in fs:
        s.add(f)
    body = s.to_smt2()
    t0 = time.time()
    budget_ms = int(CVC5_MS * 3 * _load_scale())
    files, procs = [], []
    try:
        def launch(cmd, text, kind):
            fh = tempfile.NamedTemporaryFile('w', suffix='.smt2', delete=False)
            fh.write(text)
            fh.close()
            files.append(fh.name)
            try:
                procs.append((kind, subprocess.Popen(cmd + [fh.name], stdout=subprocess.PIPE, stderr=subprocess.DEVNULL, text=True)))
            except OSError:
                pass
        ctext = '(set-logic ALL)\n' + ('(set-option :produce-models true)\n' if want_model else '') + body + ('\n(get-model)\n' if want_model else '')
        for sd in [x for x in (0, 1, 2, 3) if x != SEED][:3]:
            launch(['/usr/bin/cvc5', '--strings-exp', '--tlimit=%d' % budget_ms, '--seed=%d' % sd], ctext, 'cvc5')
        for exe in ('/usr/bin/z3', 'z3-new'):
            launch([exe, '-T:%d' % (budget_ms // 1000)], body, 'z3cli')
        deadline = time.time() + budget_ms / 1000.0 + 5
        pending = list(procs)
        while pending and time.time() < deadline:
            for kind, pr in list(pending):
                if pr.poll() is None:
                    continue
                pending.remove((kind, pr))
                out = (pr.stdout.read() or '').strip().split('\n', 1)
                v = out[0].strip() if out else ''
                if v == 'unsat' or (v == 'sat' and kind == 'cvc5'):
                    return v, (out[1] if len(out) > 1 else ''), ('cvc5' if kind == 'cvc5' else 'z3-cli')
            time.sleep(0.05)
        return 'unknown', '', None
    finally:
        for _k, pr in procs:
            if pr.poll() is None:
                pr.kill()
            try:
                pr.wait(timeout=5)
            except Exception:  # noqa
                pass
        for f in files:
            try:
                os.unlink(f)
            except OSError:
                pass
        stats['portfolio_ms'] = stats.get('portfolio_ms', 0.0) + (time.time() - t0) * 1000


def check(fs, want_model=False, strings_fallback=True, timeout_ms=None):
    """return (verdict, model_or_None, backend).  model is a z3 ModelRef (z3) or
    the raw cvc5 model text."""
    fs = [f for f in fs if not z3.is_true(f)]
    for f in fs:
        if z3.is_false(f):
            return 'unsat', None, 'syntactic'
    # z3 terms are hash-consed: the AST id identifies the formula while it is alive; the cache
    # keeps a reference to the formulas so ids cannot be recycled
    key = (tuple(sorted(f.get_id() for f in fs)), want_model)
    stats['queries'] += 1
    if key in _cache:
        stats['cache_hits'] += 1
        return _cache[key][0]
    s = z3.Solver()
    # obligation queries get the load-stretched budget; path-feasibility queries (strings_fallback=False) routinely end in
    # "unknown" (= keep the path) and would only make every path slower
    s.set('timeout', int((timeout_ms or Z3_MS) * (_load_scale() if strings_fallback else 1.0)))
    s.set('random_seed', SEED)
    for f in fs:
        s.add(f)
    t0 = time.time()
    r = s.check()
    stats['z3_ms'] += (time.time() - t0) * 1000
    if r == z3.unsat:
        stats['z3_decided'] += 1
        out = ('unsat', None, 'z3')
    elif r == z3.sat:
        stats['z3_decided'] += 1
        out = ('sat', s.model() if want_model else None, 'z3')
    else:
        out = ('unknown', None, 'z3')
        if strings_fallback and _has_strings(fs):
            v, rest = _cvc5(fs, want_model)
            be = 'cvc5'
            if v == 'unknown' and want_model:
                # finite-model finding for strings: only ever answers sat (a counter-model), which is replayed natively.
                # Its answer is labelled: a refutation that rests on the bounded model finder alone and does not fail on the
                # real code is reported as undecided, never as a violation (run.py)
                v2, rest2 = _cvc5(fs, want_model, fmf=True)
                if v2 == 'sat':
                    v, rest, be = v2, rest2, 'cvc5-fmf'
            if v != 'unknown':
                stats['cvc5_decided'] += 1
                out = (v, rest if v == 'sat' else None, be)
        if out[0] == 'unknown' and strings_fallback and want_model:
            # (obligation queries only: a validity probe that stays unknown is handled conservatively by the engine)
            # verdicts must not flip with machine load or solver seed: before giving up, z3 again with other
            # seeds and a growing budget (a verdict of either polarity from any attempt is a real verdict)
            for k in (1, 2):
                s2 = z3.Solver()
                s2.set('timeout', int((timeout_ms or Z3_MS) * (2 * k + 1) * _load_scale()))
                s2.set('random_seed', SEED + 7919 * k)
                for f in fs:
                    s2.add(f)
                t0 = time.time()
                r2 = s2.check()
                stats['z3_ms'] += (time.time() - t0) * 1000
                stats['retries'] = stats.get('retries', 0) + 1
                if r2 == z3.unsat:
                    out = ('unsat', None, 'z3')
                    break
                if r2 == z3.sat:
                    out = ('sat', s2.model() if want_model else None, 'z3')
                    break
        # (obligation queries only -- they ask for a model; validity probes made while exploring a path routinely end in
        # unknown, are handled conservatively, and must not pay for a portfolio each)
        if out[0] == 'unknown' and strings_fallback and want_model and _has_strings(fs):
            v, rest, be = _portfolio(fs, want_model)
            stats['portfolio'] = stats.get('portfolio', 0) + 1
            if v != 'unknown':
                out = (v, rest if v == 'sat' else None, be)
        if out[0] == 'unknown':
            stats['unknown'] += 1
    _cache[key] = (out, fs)
    return out


def simp(t):
    return z3.simplify(t)


def as_py_int(t):
    """concrete int of a z3 term after simplification, or None"""
    t = z3.simplify(t)
    if z3.is_int_value(t):
        return t.as_long()
    return None
