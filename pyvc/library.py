"""Library boundary: functions outside /repo (DESIGN.md 2.7).  Exact models
where Python's behaviour is simple, assumed contracts (recorded in
E.lib_used) otherwise."""
import z3

from . import ops
from .values import *  # noqa
from .engine import PyRaise, Unsupported, I, S, VO_term


def _raise(cls, *args):
    raise PyRaise(VExc(cls, [VC(a) if not isinstance(a, V) else a for a in args]))


def call(E, name, args, kwargs, node):
    fn = TABLE.get(name)
    if fn is not None:
        return fn(E, args, kwargs, node)
    raise Unsupported('library function %s' % name)


def re_compile(E, args, kwargs, node):
    pat = args[0]
    flags = args[1] if len(args) > 1 else VC(0)
    if not isinstance(pat, VC):
        if E.mod_init:
            raise Unsupported('re.compile of symbolic pattern')
        ops.opaque_op_may_raise(E, 're.compile')
        return E.fresh_opaque('regex')
    fl = flags.v if isinstance(flags, VC) else 0
    return VRe(pat.v, fl)


def list_sort(E, ref, h, kwargs):
    raise Unsupported('list.sort')


def _const(v):
    def f(E, args, kwargs, node):
        return v
    return f


TABLE = {
    're.compile': re_compile,
    're.I': None,
}
del TABLE['re.I']
