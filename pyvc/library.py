"""Library boundary: functions outside /repo (DESIGN.md 2.7).  Exact models
where Python's behaviour is simple, assumed contracts (recorded in
E.lib_used) otherwise."""
import z3

from . import ops
from .values import *  # noqa
from .engine import PyRaise, Unsupported, I, S, VO_term


def _raise(cls, *args):
    raise PyRaise(VExc(cls, [VC(a) if not isinstance(a, V) else a for a in args]))


def call(E, name, args, kwargs, node):
    from . import bytesmodel
    if name in bytesmodel.LIB and not E.mod_init:
        return bytesmodel.LIB[name](E, args, kwargs, node)
    fn = TABLE.get(name)
    if fn is not None:
        return fn(E, args, kwargs, node)
    if E.mod_init:
        raise Unsupported('library function %s' % name)
    # a library function without a model: an opaque call (any result, may raise, does not touch the modelled heap)
    E.lib_used.add('unmodelled library function %s: treated as an opaque call' % name)
    return E.opaque_call(VO('lib:' + name), list(args), dict(kwargs), node, label='library ' + name)


def re_compile(E, args, kwargs, node):
    pat = args[0]
    flags = args[1] if len(args) > 1 else VC(0)
    if not isinstance(pat, VC):
        if E.mod_init:
            raise Unsupported('re.compile of symbolic pattern')
        ops.opaque_op_may_raise(E, 're.compile')
        return E.fresh_opaque('regex')
    fl = flags.v if isinstance(flags, VC) else 0
    return VRe(pat.v, fl)


def list_sort(E, ref, h, kwargs):
    """list.sort(key=...): assumed library contract -- the list becomes a stable ascending (by key) permutation of
    itself; the call may raise what the key function / comparisons raise.  The call and its arguments are recorded
    on the ghost trace so that contracts can pin down what exactly was sorted and by which key."""
    _assumed(E, 'list.sort(key=f): stable ascending permutation by f (ties keep their relative order); reverse=True reverses '
                'the order of unequal keys but also keeps ties in original order')
    n = E.list_len(h)
    E.trace.append(('list_sort', ref.addr, dict(kwargs), repr(h.base), len(h.items)))
    ops.opaque_op_may_raise(E, 'list.sort comparisons')
    nm = E.fresh('sorted')
    new = VSeq(nm, n if not isinstance(n, int) else I(n), shape=getattr(h.base, 'shape', None) if h.base is not None and not h.items else None)
    E.ghost.setdefault('sorted_of', {})[nm] = (h.base.name if h.base is not None else None)
    h.base = new
    h.items = []
    return NONE


def math_sqrt(E, args, kwargs, node):
    """math.sqrt over the reals: sqrt(x) >= 0 and sqrt(x)**2 == x for x >= 0, ValueError below 0"""
    x = E.as_z3_real(args[0])
    _assumed(E, 'math.sqrt over the reals: for x >= 0, sqrt(x) >= 0 and sqrt(x) * sqrt(x) == x; ValueError for x < 0 '
                '(floating point treated as real arithmetic)')
    if E.branch(x < 0, 'sqrt domain'):
        _raise('ValueError', 'math domain error')
    f = z3.Function('sqrt', z3.RealSort(), z3.RealSort())
    E.assume(f(x) >= 0)
    E.assume(f(x) * f(x) == x)
    return VR(f(x))


def _urllib(fname):
    def f(E, args, kwargs, node):
        _assumed(E, 'urllib.parse.%s: a function of its argument (uninterpreted); unquote(quote(x)) == x and '
                    'unquote_plus(quote_plus(x)) == x are used as axioms where stated' % fname)
        x = args[0]
        if ops.known_type(E, x) != 'str':
            raise Unsupported('urllib.parse.%s of a non-str value' % fname)
        g = z3.Function('urllib.' + fname, z3.StringSort(), z3.StringSort())
        return VS(g(E.as_z3_str(x)))
    return f


def html_escape_term(s, quote=True):
    from .strings import replace_all
    for a, b in (('&', '&amp;'), ('<', '&lt;'), ('>', '&gt;')) + ((('"', '&quot;'), ("'", '&#x27;')) if quote else ()):
        s = replace_all(s, S(a), S(b))
    return s


def html_escape(E, args, kwargs, node):
    """html.escape(s, quote): the five str.replace calls of the stdlib implementation, as a term (not an assumption)"""
    v = args[0]
    q = args[1] if len(args) > 1 else kwargs.get('quote', VC(True))
    if not isinstance(q, VC):
        raise Unsupported('html.escape with symbolic quote flag')
    if isinstance(v, VC) and isinstance(v.v, str):
        import html as _h
        return VC(_h.escape(v.v, bool(q.v)))
    if ops.known_type(E, v) != 'str':
        raise Unsupported('html.escape of a non-str value')
    E.lib_used.add('html.escape(s, quote=True) == s.replace("&", "&amp;").replace("<", "&lt;").replace(">", "&gt;")'
                   '.replace(\'"\', "&quot;").replace("\'", "&#x27;") (stdlib source, inlined as a term)')
    return VS(html_escape_term(E.as_z3_str(v), bool(q.v)))


TAINTED = 'AccessControl.tainted.TaintedString'


def tainted_string(E, args, kwargs, node):
    """TaintedString(value): see pyvc/tainted.py"""
    from . import tainted
    v = args[0]
    if tainted.is_tainted(E, v):
        v = tainted.raw(E, v)
    if not E.is_strlike(v):
        raise Unsupported('TaintedString of a non-str value')
    return tainted.make(E, v)


def itemgetter(E, args, kwargs, node):
    return E.alloc(HObj(None, {'k': args[0]}, name='itemgetter'))


def cmp_to_key(E, args, kwargs, node):
    return E.alloc(HObj(None, {'f': args[0]}, name='cmp_to_key'))


def _const(v):
    def f(E, args, kwargs, node):
        return v
    return f


def _assumed(E, what):
    E.lib_used.add(what)


def sys_exc_info(E, args, kwargs, node):
    if not E.handling_stack:
        return VT([NONE, NONE, NONE])
    exc = E.handling_stack[-1]
    from .builtins_ import bi_type
    return VT([bi_type(E, [exc], {}, node), exc, E.fresh_opaque('tb')])


def stringio_new(E, args, kwargs, node):
    _assumed(E, 'io.StringIO(), .getvalue(), traceback.print_exc(): do not raise')
    return E.alloc(HObj(None, {}, name='pyobj:StringIO'))


def stringio_getvalue(E, args, kwargs, node):
    return VS(z3.String(E.fresh('sio')))


def print_exc(E, args, kwargs, node):
    _assumed(E, 'io.StringIO(), .getvalue(), traceback.print_exc(): do not raise')
    return NONE


def convert_exception_type(E, args, kwargs, node):
    _assumed(E, 'zExceptions.convertExceptionType(name): returns an exception class or None, does not raise')
    f = z3.Function('convertExceptionType', Val, Val)
    return VO_term(f(E.to_val(args[0])), E.fresh('exctype'))


def upgrade_exception(E, args, kwargs, node):
    _assumed(E, 'zExceptions.upgradeException(t, v): returns a pair (class, value), does not raise; '
                'for a class t returns (t, v) unchanged')
    t, v = args
    if isinstance(t, (VBI, VCls)):
        return VT([t, v])
    f = z3.Function('upgradeException_t', Val, Val)
    g = z3.Function('upgradeException_v', Val, Val, Val)
    return VT([VO_term(f(E.to_val(t)), E.fresh('uet')), VO_term(g(E.to_val(t), E.to_val(v)), E.fresh('uev'))])


def exc_ctor(name):
    def f(E, args, kwargs, node):
        return VExc(exc_canon(name), args)
    return f


def aq_base(E, args, kwargs, node):
    from . import tainted as _T
    if args and (_T.is_tainted(E, args[0]) or E.is_strlike(args[0])):
        return args[0]          # not an acquisition wrapper: aq_base is the identity
    _assumed(E, 'Acquisition.aq_base(x): returns the unwrapped object, does not raise, calls nothing')
    f = z3.Function('aq_base', Val, Val)
    return VO_term(f(E.to_val(args[0])), E.fresh('aqbase'))


def py_eval(E, args, kwargs, node):
    # eval(code, globals): running compiled (restricted) code is an opaque call
    return E.opaque_call(VO('eval'), list(args), {}, node, label='eval(code)')


def roman_to_roman(E, args, kwargs, node):
    """roman.toRoman: uninterpreted on 1..4999 (assumed, exercised natively); raises outside that range"""
    n = E.as_z3_int(args[0])
    _assumed(E, 'roman.toRoman(n): a function of n for 1 <= n <= 4999, raises (OutOfRangeError) otherwise')
    if not E.branch(z3.And(n >= 1, n <= 4999), 'toRoman range'):
        _raise('ValueError', 'roman.OutOfRangeError')
    f = z3.Function('roman.toRoman', z3.IntSort(), z3.StringSort())
    return VS(f(n))


TABLE = {
    'html.escape': html_escape,
    'urllib.parse.quote': _urllib('quote'),
    'urllib.parse.quote_plus': _urllib('quote_plus'),
    'urllib.parse.unquote': _urllib('unquote'),
    'urllib.parse.unquote_plus': _urllib('unquote_plus'),
    'AccessControl.tainted.TaintedString': tainted_string,
    'math.sqrt': math_sqrt,
    'operator.itemgetter': itemgetter,
    'functools.cmp_to_key': cmp_to_key,
    'roman.toRoman': roman_to_roman,
    'Acquisition.aq_base': aq_base,
    'zExceptions.Unauthorized': exc_ctor('Unauthorized'),
    'sys.exc_info': sys_exc_info,
    'io.StringIO': stringio_new,
    'io.StringIO.getvalue': stringio_getvalue,
    'traceback.print_exc': print_exc,
    'zExceptions.convertExceptionType': convert_exception_type,
    'zExceptions.upgradeException': upgrade_exception,
    're.compile': re_compile,
    're.I': None,
}
del TABLE['re.I']
