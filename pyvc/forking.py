"""Process-forking path exploration.  At an undecided branch the engine fork()s: the child continues
the alternative from the *current* state (no re-execution of the prefix), the parent continues with the
first alternative.  A global slot semaphore bounds the number of live processes; when no slot is free the
alternative is queued as a decision vector and re-executed later by the same process (the original
scheme).  Cut-point memoisation is shared through O_EXCL files, so a state reached by two processes is
continued by exactly one.  Every process dumps the obligations it generated; the root merges them."""
import hashlib
import os
import pickle
import shutil
import tempfile


class ForkCtl:
    def __init__(self, sem):
        self.sem = sem
        self.dir = tempfile.mkdtemp(prefix='pyvc_fork_')
        self.root_pid = os.getpid()
        self.children = []
        self.is_child = False
        self.n_forks = 0

    def try_fork(self, E):
        if self.sem is None or not self.sem.acquire(block=False):
            return None
        pid = os.fork()
        if pid:
            self.children.append(pid)
            self.n_forks += 1
            return 'parent'
        # child
        self.is_child = True
        self.children = []
        self.n_forks = 0
        E.on_fork_child()
        return 'child'

    def cut_first(self, key, idx, sig, here):
        h = hashlib.sha1(('%s|%d|' % (key, idx)).encode() + sig.encode()).hexdigest()
        path = os.path.join(self.dir, 'cut_' + h)
        try:
            fd = os.open(path, os.O_CREAT | os.O_EXCL | os.O_WRONLY)
            os.write(fd, repr(here).encode())
            os.close(fd)
            return here
        except FileExistsError:
            for _ in range(200):
                with open(path) as fh:
                    txt = fh.read()
                if txt:
                    return eval(txt)
                import time
                time.sleep(0.005)
            return None

    def wait_children(self):
        ok = True
        for pid in self.children:
            try:
                _, st = os.waitpid(pid, 0)
                if st != 0:
                    ok = False
            except ChildProcessError:
                pass
        self.children = []
        return ok

    def dump(self, payload):
        with open(os.path.join(self.dir, 'res_%d_%d.pkl' % (os.getpid(), id(payload) % 100000)), 'wb') as fh:
            pickle.dump(payload, fh)

    def collect(self):
        out = []
        for f in sorted(os.listdir(self.dir)):
            if f.startswith('res_'):
                with open(os.path.join(self.dir, f), 'rb') as fh:
                    out.append(pickle.load(fh))
        return out

    def cleanup(self):
        shutil.rmtree(self.dir, ignore_errors=True)
