"""Value model of pyvc (see DESIGN.md 2.2).

Concrete Python constants stay concrete (VC) as long as possible; symbolic
scalars carry a z3 term; containers and instances live on a per-path heap and
are referenced through VRef.  Anything the engine has no structural model for is
a VO: a constant of the uninterpreted sort ``Val`` with uninterpreted observers.
"""
import z3

Val = z3.DeclareSort('Val')

# uninterpreted observers on opaque values
truthy = z3.Function('truthy', Val, z3.BoolSort())
as_int = z3.Function('as_int', Val, z3.IntSort())
as_str = z3.Function('as_str', Val, z3.StringSort())
as_real = z3.Function('as_real', Val, z3.RealSort())
py_eq = z3.Function('py_eq', Val, Val, z3.BoolSort())
box_int = z3.Function('box_int', z3.IntSort(), Val)
box_str = z3.Function('box_str', z3.StringSort(), Val)
len_of = z3.Function('len_of', Val, z3.IntSort())


class V:
    __slots__ = ()


class VC(V):
    """concrete constant: int, bool, str, bytes, float, None, Ellipsis"""
    __slots__ = ('v',)

    def __init__(self, v):
        self.v = v

    def __repr__(self):
        return 'VC(%r)' % (self.v,)


NONE = VC(None)
TRUE = VC(True)
FALSE = VC(False)


class VI(V):
    __slots__ = ('t',)

    def __init__(self, t):
        self.t = t

    def __repr__(self):
        return 'VI(%s)' % self.t


class VB(V):
    __slots__ = ('t',)

    def __init__(self, t):
        self.t = t

    def __repr__(self):
        return 'VB(%s)' % self.t


class VS(V):
    __slots__ = ('t',)

    def __init__(self, t):
        self.t = t

    def __repr__(self):
        return 'VS(%s)' % self.t


class VBy(V):
    """symbolic bytes: a z3 String whose characters are the byte values (see pyvc/bytesmodel.py)"""
    __slots__ = ('t',)

    def __init__(self, t):
        self.t = t

    def __repr__(self):
        return 'VBy(%s)' % self.t


class VR(V):
    """float, modelled as a mathematical real (assumption, C16 only)"""
    __slots__ = ('t',)

    def __init__(self, t):
        self.t = t

    def __repr__(self):
        return 'VR(%s)' % self.t


class VT(V):
    __slots__ = ('items',)

    def __init__(self, items):
        self.items = list(items)

    def __repr__(self):
        return 'VT(%r)' % (self.items,)


class VRef(V):
    __slots__ = ('addr',)

    def __init__(self, addr):
        self.addr = addr

    def __repr__(self):
        return 'VRef(%d)' % self.addr


class VO(V):
    """opaque value; ``kind`` is a free-text hint, ``types`` known type facts
    live on the path (engine.tfacts), not here."""
    __slots__ = ('t', 'name', 'proto')

    def __init__(self, name, proto=None):
        self.name = name
        self.t = z3.Const(name, Val)
        self.proto = proto

    def __repr__(self):
        return 'VO(%s)' % self.name


class VSeq(V):
    """abstract immutable sequence of unknown length: len is a z3 Int,
    elements are opaque ``name[i]``.  ``lazy`` marks a lazily produced
    sequence with ghost pull accounting (C12)."""
    __slots__ = ('name', 'length', 'elem', 'kind', 'ghost', 'shape', 'elem_fn')

    def __init__(self, name, length, kind='list', ghost=None, shape=None, elem_fn=None):
        self.elem_fn = elem_fn  # callable(E, k) -> value: a structured element model (contract-supplied), else opaque elem(k)
        self.name = name
        self.length = length
        self.elem = z3.Function('elem_' + name, z3.IntSort(), Val)
        self.kind = kind
        self.ghost = ghost
        self.shape = shape      # n: every element is an n-tuple (established by a checked loop clause)

    def __repr__(self):
        return 'VSeq(%s)' % self.name


class VFn(V):
    __slots__ = ('node', 'mod', 'qual', 'defaults', 'kwdefaults', 'closure', 'cls')

    def __init__(self, node, mod, qual, defaults, kwdefaults, closure=None, cls=None):
        self.node = node
        self.mod = mod
        self.qual = qual
        self.defaults = defaults
        self.kwdefaults = kwdefaults
        self.closure = closure
        self.cls = cls

    def __repr__(self):
        return 'VFn(%s)' % self.qual


class VCls(V):
    __slots__ = ('name', 'mod', 'node', 'bases', 'attrs', 'qual', 'exc_base')

    def __init__(self, name, mod, node, bases, qual):
        self.name = name
        self.mod = mod
        self.node = node
        self.bases = bases
        self.attrs = {}
        self.qual = qual
        self.exc_base = None

    def mro(self):
        out = [self]
        for b in self.bases:
            if isinstance(b, VCls):
                for c in b.mro():
                    if c not in out:
                        out.append(c)
        return out

    def lookup(self, name):
        for c in self.mro():
            if name in c.attrs:
                return c.attrs[name]
        return None

    def __repr__(self):
        return 'VCls(%s)' % self.qual


class VGenAbs(V):
    """generator expression over an iterable of unknown length; only any() / all() consume it (result: an
    unconstrained boolean -- an over-approximation, so proofs stay sound and refutations are replayed)"""
    __slots__ = ('node', 'why')

    def __init__(self, node, why):
        self.node = node
        self.why = why

    def __repr__(self):
        return 'VGenAbs(line %s)' % getattr(self.node, 'lineno', '?')


class VBI(V):
    """builtin / library function or type, identified by dotted name"""
    __slots__ = ('name',)

    def __init__(self, name):
        self.name = name

    def __repr__(self):
        return 'VBI(%s)' % self.name


class VBM(V):
    """bound method"""
    __slots__ = ('fn', 'self')

    def __init__(self, fn, self_):
        self.fn = fn
        self.self = self_

    def __repr__(self):
        return 'VBM(%r,%r)' % (self.fn, self.self)


class VMod(V):
    __slots__ = ('name',)

    def __init__(self, name):
        self.name = name

    def __repr__(self):
        return 'VMod(%s)' % self.name


class VExc(V):
    """exception instance.  ``cls`` is a class name in the modelled hierarchy.
    A symbolic exception (raised by an opaque call) has sym=True: its class is
    some (unknown) subclass of ``cls`` that is not a subclass of any name in
    ``neg``."""
    __slots__ = ('cls', 'args', 'sym', 'neg', 'fields', 'uid')

    def __init__(self, cls, args=(), sym=False, uid=None):
        self.cls = cls
        self.args = list(args)
        self.sym = sym
        self.neg = set()
        self.fields = {}
        self.uid = uid

    def __repr__(self):
        return 'VExc(%s%s,%r)' % (self.cls, '*' if self.sym else '', self.args)


class VRe(V):
    __slots__ = ('pattern', 'flags')

    def __init__(self, pattern, flags=0):
        self.pattern = pattern
        self.flags = flags

    def __repr__(self):
        return 'VRe(%r)' % self.pattern


# ---------------------------------------------------------------- heap objects

class HList:
    """list = optional abstract prefix (base: VSeq) + concrete suffix items.
    An item may be a SymSeg pseudo-item standing for a run of unknown length."""
    __slots__ = ('base', 'items')

    def __init__(self, items=(), base=None):
        self.base = base
        self.items = list(items)

    def clone(self):
        return HList(self.items, self.base)


class SymSeg:
    """run of ``length`` elements inside an HList (ghost segment)"""
    __slots__ = ('name', 'length', 'kind')

    def __init__(self, name, length, kind=''):
        self.name = name
        self.length = length
        self.kind = kind

    def __repr__(self):
        return 'SymSeg(%s,%s)' % (self.name, self.length)


class HDict:
    """dict: ordered write log of (key, value) with concrete or symbolic keys,
    plus an optional unknown base (name) whose membership/values are
    uninterpreted per concrete key (cached)."""
    __slots__ = ('entries', 'base', 'has_cache', 'val_cache', 'deleted')

    def __init__(self, base=None):
        self.entries = []      # list of [kV, vV]
        self.base = base
        self.has_cache = {}
        self.val_cache = {}
        self.deleted = set()

    def clone(self):
        d = HDict(self.base)
        d.entries = [list(e) for e in self.entries]
        d.has_cache = dict(self.has_cache)
        d.val_cache = dict(self.val_cache)
        d.deleted = set(self.deleted)
        return d


class HObj:
    __slots__ = ('cls', 'fields', 'lazy', 'name', 'prov', 'maybe', 'absent')

    def __init__(self, cls, fields=None, lazy=False, name='', prov='fresh', maybe=()):
        self.cls = cls
        self.fields = dict(fields or {})
        self.lazy = lazy
        self.name = name
        self.prov = prov
        self.maybe = set(maybe)     # attributes of a lazy object that may be absent
        self.absent = set()         # ... decided absent on this path

    def clone(self):
        o = HObj(self.cls, self.fields, self.lazy, self.name, self.prov, self.maybe)
        o.absent = set(self.absent)
        return o


# ---------------------------------------------------------------- exceptions

EXC_PARENT = {
    'BaseException': None,
    'Exception': 'BaseException',
    'KeyboardInterrupt': 'BaseException',
    'LookupError': 'Exception',
    'KeyError': 'LookupError',
    'IndexError': 'LookupError',
    'TypeError': 'Exception',
    'ValueError': 'Exception',
    'UnicodeError': 'ValueError',
    'AttributeError': 'Exception',
    'NameError': 'Exception',
    'SyntaxError': 'Exception',
    'ArithmeticError': 'Exception',
    'ZeroDivisionError': 'ArithmeticError',
    'OverflowError': 'ArithmeticError',
    'SystemError': 'Exception',
    'RuntimeError': 'Exception',
    'StopIteration': 'Exception',
    'AssertionError': 'Exception',
    'ImportError': 'Exception',
    'ModuleNotFoundError': 'ImportError',
    'OSError': 'Exception',
    # repo / dependency classes
    'ParseError': 'Exception',
    'DTReturn': 'Exception',
    'Unauthorized': 'Exception',          # zExceptions.Unauthorized (= ValidationError)
    'ValidationError': 'Exception',       # alias resolved in engine
    'InvalidErrorTypeExpression': 'Exception',
    'HTTPException': 'Exception',
}
EXC_ALIAS = {'ValidationError': 'Unauthorized'}


def exc_canon(name):
    return EXC_ALIAS.get(name, name)


def exc_is_sub(a, b):
    """is class a a (non-strict) subclass of class b in the modelled tree"""
    a, b = exc_canon(a), exc_canon(b)
    while a is not None:
        if a == b:
            return True
        a = EXC_PARENT.get(a)
    return False
