"""Contracts (sidecar data), symbolic instantiation of parameters, the
per-function verification driver and contract application at call sites."""
import ast
import time

import z3

from . import smt, ops
from .values import *  # noqa
from .engine import (Engine, Env, PyRaise, Unsupported, PathAbort, PathLimit, _Return, I, S, BudgetExceeded)
import os as _os_

FUNC_BUDGET_S = float(_os_.environ.get('PYVC_FUNC_BUDGET_S', '600'))

REGISTRY = {}


# ---------------------------------------------------------------- param specs
class Spec:
    pass


class Int(Spec):
    """``assumed=True`` (only meaningful in a cut abstraction): a value of unknown type is
    *assumed* to be an int there (recorded as an assumption)"""

    def __init__(self, assumed=False):
        self.assumed = assumed


class Bool(Spec):
    pass


class Str(Spec):
    pass


class Bytes(Spec):
    pass


class Real(Spec):
    pass


class Opaque(Spec):
    def __init__(self, types=None):
        self.types = types or {}


class NoneV(Spec):
    pass


class Const(Spec):
    def __init__(self, v):
        self.v = v


class Default(Spec):
    """use the function's own default-argument value"""


class Seq(Spec):
    """abstract sequence; lazy=True adds ghost pull accounting, kind 'lazy'
    models SequenceFromIter-style (negative index -> IndexError)"""

    def __init__(self, lazy=False, kind='list', infinite=False):
        self.lazy = lazy
        self.kind = kind
        self.infinite = infinite


class Obj(Spec):
    def __init__(self, cls, fields=None, lazy=True, prov='self-compiled', maybe=()):
        self.cls = cls
        self.fields = fields or {}
        self.lazy = lazy
        self.prov = prov
        self.maybe = maybe


TD_PROTECTED = ('_push', '_pop', '_data', '_dict', 'level', 'getitem', '__getitem__', '__contains__', 'has_key',
                '__call__', '__class__', '__dict__', 'namespace', 'render', 'taintWrapper')


class TD(Spec):
    """a TemplateDict with an abstract entry stack S0 and symbolic level"""

    def __init__(self, items=0):
        self.items = items


class DictS(Spec):
    """dict of unknown contents; ``types`` gives type facts for the values of some keys"""

    def __init__(self, types=None):
        self.types = types or {}


class ListS(Spec):
    """list of unknown contents (abstract base)"""


class TupleS(Spec):
    def __init__(self, *items):
        self.items = items


class Fn(Spec):
    """a value of the repo by qualified name"""

    def __init__(self, qual):
        self.qual = qual


class GhostIter(Spec):
    """iterator producing the elements of an abstract sequence (finite or not)"""

    def __init__(self, infinite=False):
        self.infinite = infinite


def instantiate(E, name, spec):
    if isinstance(spec, Int):
        return VI(z3.Int(name))
    if isinstance(spec, Bool):
        return VB(z3.Bool(name))
    if isinstance(spec, Str):
        return VS(z3.String(name))
    if isinstance(spec, Real):
        return VR(z3.Real(name))
    if isinstance(spec, Bytes):
        return VBy(z3.String(name))
    if isinstance(spec, NoneV):
        return NONE
    if isinstance(spec, Const):
        return VC(spec.v)
    if isinstance(spec, Opaque):
        o = VO(name)
        for t, b in spec.types.items():
            E.tfacts[(name, t)] = b
        return o
    if isinstance(spec, Seq):
        ln = z3.Int('len_' + name)
        ghost = None
        if spec.lazy:
            p0 = z3.Int('pulled0_' + name)
            E.assume(p0 >= 0)
            if not spec.infinite:
                E.assume(p0 <= ln)
            ghost = {'pulled': p0, 'maxidx': p0 - 1, 'infinite': spec.infinite, 'pulled_initial': p0}
        sq = VSeq(name, ln, spec.kind, ghost)
        E.assume(ln >= 0)
        return sq
    if isinstance(spec, Obj):
        cls = E.lookup_qual(spec.cls) if isinstance(spec.cls, str) else spec.cls
        name = name if spec.cls is not None or not name else name
        ref = E.alloc(HObj(cls, {}, lazy=spec.lazy, name=name, prov=spec.prov, maybe=spec.maybe))
        for f, fs in spec.fields.items():
            E.heap[ref.addr].fields[f] = instantiate(E, '%s.%s' % (name, f), fs)
        return ref
    if isinstance(spec, TD):
        cls = E.lookup_qual('DocumentTemplate._DocumentTemplate.TemplateDict')
        s0 = VSeq('S0_' + name, z3.Int('len_S0_' + name))
        E.assume(s0.length >= 0)
        items = [VO('%s_top%d' % (name, i)) for i in range(spec.items)]
        data = E.alloc(HList(items, base=s0))
        dh = HDict(base='dict_' + name)
        # assumption (listed): the namespace's own attribute dictionary does not shadow the
        # TemplateDict machinery itself
        dh.deleted = set(TD_PROTECTED)
        E.assumptions_used.add('TemplateDict._dict (attributes set on the namespace) does not shadow the namespace\'s own '
                               'methods/fields: ' + ', '.join(sorted(TD_PROTECTED)))
        # namespace invariant established by String.__call__ (proved there) and inherited by
        # sub-templates and <dtml-with only>: both guard attributes are set (possibly to None)
        dh.entries.append([VC('guarded_getattr'), VO(name + '.guarded_getattr')])
        dh.entries.append([VC('guarded_getitem'), VO(name + '.guarded_getitem')])
        E.assumptions_used.add('a namespace (TemplateDict) reaching a render function has guarded_getattr and guarded_getitem '
                               'set (possibly None): established by String.__call__ for namespaces it creates')
        dct = E.alloc(dh)
        lvl = VI(z3.Int('level_' + name))
        ref = E.alloc(HObj(cls, {'_data': data, '_dict': dct, 'level': lvl}, name=name, prov='caller-data'))
        E.ghost[('td_entry', ref.addr)] = {'data_addr': data.addr, 'base': s0, 'items': list(items),
                                          'level': lvl}
        return ref
    if isinstance(spec, DictS):
        d = HDict(base='dict_' + name)
        for k, t in spec.types.items():
            o = VO('%s[%r]' % (d.base, k))
            d.val_cache[k] = o
            E.tfacts[(o.name, t)] = True
        return E.alloc(d)
    if isinstance(spec, ListS):
        sq = VSeq('L0_' + name, z3.Int('len_L0_' + name))
        E.assume(sq.length >= 0)
        return E.alloc(HList([], base=sq))
    if isinstance(spec, TupleS):
        return VT([instantiate(E, '%s_%d' % (name, i), s) for i, s in enumerate(spec.items)])
    if isinstance(spec, Fn):
        return E.lookup_qual(spec.qual)
    if isinstance(spec, GhostIter):
        src = VSeq('src_' + name, z3.Int('len_src_' + name), 'iter', {'infinite': spec.infinite})
        E.assume(src.length >= 0)
        return E.alloc(HObj(None, {'pos': z3.Int('pos0_' + name), 'src': src}, name='ghost_iter'))
    raise Unsupported('param spec %r' % (spec,))


def abstract_value(E, cur, spec, name):
    """replace ``cur`` by a fresh value of the declared shape; the shape must be an
    over-approximation of cur (conformance), otherwise Unsupported"""
    if spec == 'same' or spec is None:
        return cur
    if isinstance(spec, Opaque):
        return instantiate(E, name, spec)
    if isinstance(spec, Int):
        if not E.is_intlike(cur):
            if spec.assumed and isinstance(cur, VO):
                E.assumptions_used.add('value abstracted at a cut is assumed to be an int: ' + name.split('_', 1)[-1])
                return instantiate(E, name, spec)
            raise Unsupported('cut: %s is not int-like (%r)' % (name, cur))
        return instantiate(E, name, spec)
    if isinstance(spec, Str):
        if not E.is_strlike(cur):
            raise Unsupported('cut: %s is not str-like (%r)' % (name, cur))
        return instantiate(E, name, spec)
    if isinstance(spec, Seq):
        ok = isinstance(cur, VSeq) or (isinstance(cur, VRef) and isinstance(E.heap[cur.addr], HList))
        if not ok:
            raise Unsupported('cut: %s is not a sequence (%r)' % (name, cur))
        if isinstance(cur, VSeq) and cur.kind == 'lazy' and spec.kind != 'lazy' and spec.kind != 'any':
            raise Unsupported('cut: lazy sequence abstracted as %s' % spec.kind)
        return instantiate(E, name, spec)
    if isinstance(spec, ListS):
        if not (isinstance(cur, VRef) and isinstance(E.heap[cur.addr], HList)):
            raise Unsupported('cut: %s is not a list (%r)' % (name, cur))
        return instantiate(E, name, spec)
    if isinstance(spec, DictS):
        if not (isinstance(cur, VRef) and isinstance(E.heap[cur.addr], HDict)):
            raise Unsupported('cut: %s is not a dict (%r)' % (name, cur))
        return instantiate(E, name, spec)
    raise Unsupported('cut: abstraction spec %r' % (spec,))


def _rename_text(text, amap):
    """rename identifiers (not attribute names, not string contents) in a fragment of source text"""
    import re as _re
    for old, new in amap.items():
        text = _re.sub(r'''(?<![\.\w'"])%s(?![\w'"])''' % _re.escape(old), new, text)
    return text


def _translate_cut(cut, amap):
    out = dict(cut)
    out['before'] = _rename_text(cut['before'], amap)
    if 'abstract' in cut:
        out['abstract'] = {amap.get(k, k): v for k, v in cut['abstract'].items()}
    for key in ('live', 'havoc_heap'):
        if key in cut:
            out[key] = [amap.get(x, x) if isinstance(x, str) and x.isidentifier() else x for x in cut[key]]
    return out


# ---------------------------------------------------------------- contracts
class Contract:
    def __init__(self, func, params, requires=(), ensures=None, exc_ensures=None,
                 raises=None, raises_any=False, invariants=None, uses=(), returns=None,
                 effects=None, concretize=None, native=None, pre_hook=None, post_hook=None,
                 notes='', propagate_opaque=True, max_paths=None, exit_hook=None, variant=None, cuts=None, call_hook=None, lazy_len=False, model_not_callable=False, numeric_split=False, noreturn=False, measure=None, exc_hook=None):
        self.func = func
        self.exc_hook = exc_hook      # callable(E, env_locals, exc): refine the exception a call raises (assumed exceptional postcondition)
        self.measure = measure        # termination measure of a recursive function: int expression over the parameters
        self.params = params
        self.requires = list(requires)
        self.ensures = dict(ensures or {})
        self.exc_ensures = dict(exc_ensures or {})
        self.raises = raises          # None = unconstrained; list of names = only these may escape
        self.raises_any = raises_any  # at call sites: may raise any Exception
        self.invariants = invariants or {}
        self.uses = set(uses)
        self.returns = returns
        self.effects = effects        # callable(E, env_locals) applied at call sites
        self.concretize = concretize
        self.native = native
        self.pre_hook = pre_hook
        self.post_hook = post_hook
        self.exit_hook = exit_hook    # callable(E, outcome, value, env) -> extra obligations
        self.notes = notes
        self.propagate_opaque = propagate_opaque
        self.max_paths = max_paths
        self._depth0 = 1
        self.variant = variant
        self.cuts = list(cuts or [])
        self.lazy_len = lazy_len
        self.model_not_callable = model_not_callable
        self.numeric_split = numeric_split
        self.noreturn = noreturn          # the function never returns normally (always raises one of ``raises``)
        self.call_hook = call_hook    # callable(E, env_locals) -> value | None (None: use the generic rule)
        self._cut_nodes = {}
        self.key = func if not variant else '%s#%s' % (func, variant)
        REGISTRY[self.key] = self


def contract(func, **kw):
    return Contract(func, **kw)


class FnResult:
    def __init__(self, c):
        self.contract = c
        self.paths = 0
        self.normal = 0
        self.exceptional = 0
        self.aborted = 0
        self.unsupported = []
        self.wall = 0.0
        self.src = None


def _collect_old(E, clause_nodes, env):
    stash = {}
    for node in clause_nodes:
        for n in ast.walk(node):
            if isinstance(n, ast.Call) and isinstance(n.func, ast.Name) and n.func.id == 'old':
                key = ast.dump(n.args[0])
                if key not in stash:
                    stash[key] = E.eval_spec(n.args[0], env)
    return stash


def _parse(expr):
    return ast.parse(expr.strip(), mode='eval').body


def verify(E, c, verbose=False):
    """prove every clause of contract c on the real body of c.func"""
    res = FnResult(c)
    t0 = time.time()
    try:
        fn = E.lookup_qual(c.func)
    except (PyRaise, Unsupported, KeyError):
        fn = None
    if isinstance(fn, VBM):
        fn = fn.fn
    if not isinstance(fn, VFn):
        # the function this contract is written for does not exist (any more) in the source: nothing can be proved about
        # it -- undecided, never a silent pass and not a checker crash
        res.unsupported.append('the function %s under contract does not exist in the source tree' % c.func)
        res.src = ('<missing>', 0, '')
        return res
    res.src = (fn.mod.path, fn.node.lineno, ast.dump(fn.node))
    ens_nodes = {k: _parse(v) for k, v in c.ensures.items()}
    exc_nodes = {k: _parse(v) for k, v in c.exc_ensures.items()}
    c._cut_nodes = {}
    from .aliases import alias_map, AliasDict
    amap = alias_map(fn.qual, fn.node)
    c._alias = amap
    if amap and not getattr(c, '_cuts_written', None):
        c._cuts_written = list(c.cuts)
    if getattr(c, '_cuts_written', None) is not None:
        # locals renamed in the source: cut locators, abstracted / live variables are translated to the current spelling
        c.cuts = [_translate_cut(cut, amap) for cut in c._cuts_written]
    for ci, cut in enumerate(c.cuts):
        want = ' '.join(cut['before'].split())
        hits = [n for n in ast.walk(fn.node) if isinstance(n, ast.stmt)
                and ' '.join(ast.unparse(n).split()).startswith(want)]
        # nested statements of a matching compound statement do not count
        if len(hits) != 1:
            res.unsupported.append('cut %d: locator %r matches %d statements of %s' % (ci, cut['before'], len(hits), c.func))
        else:
            c._cut_nodes[id(hits[0])] = ci
            # liveness (sound over-approximation): every name read at or after the cut in source
            # order, plus every name read anywhere inside a loop that encloses the cut
            node = hits[0]
            names = set()
            for n in ast.walk(fn.node):
                if isinstance(n, ast.Name) and isinstance(n.ctx, ast.Load) and n.lineno >= node.lineno:
                    names.add(n.id)
            for loop in ast.walk(fn.node):
                if isinstance(loop, (ast.For, ast.While)) and any(x is node for x in ast.walk(loop)):
                    for n in ast.walk(loop):
                        if isinstance(n, ast.Name) and isinstance(n.ctx, ast.Load):
                            names.add(n.id)
            cut['_auto_live'] = names
    work = [[]]
    E.work = work
    E.cur_res = res
    limit = c.max_paths or E.max_paths
    prefix = c.key
    if E.deadline is None:
        from pyvc.smt import _load_scale
        E.deadline = t0 + FUNC_BUDGET_S * _load_scale()
    # make sure every declared clause shows up as an obligation even if no path reaches it
    while work:
        dec = work.pop()
        res.paths += 1
        if res.paths > limit:
            res.unsupported.append('path limit %d exceeded' % limit)
            break
        E.reset_path(dec)
        E.cur_contract = c
        try:
            env = Env(fn.mod, closure=None, fn=fn)
            env.locals = AliasDict(amap)
            args = {}
            a = fn.node.args
            names = [x.arg for x in a.posonlyargs + a.args] + [x.arg for x in a.kwonlyargs]
            if a.vararg:
                names.append(a.vararg.arg)
            if a.kwarg:
                names.append(a.kwarg.arg)
            nd = len(fn.defaults)
            pos = [x.arg for x in a.posonlyargs + a.args]
            for i, nm in enumerate(names):
                sp = c.params.get(nm, Default())
                if isinstance(sp, Default):
                    if nm in pos and i - (len(pos) - nd) >= 0:
                        args[nm] = fn.defaults[i - (len(pos) - nd)]
                    elif nm in fn.kwdefaults:
                        args[nm] = fn.kwdefaults[nm]
                    elif a.vararg and nm == a.vararg.arg:
                        args[nm] = VT([])
                    elif a.kwarg and nm == a.kwarg.arg:
                        args[nm] = E.alloc(HDict())
                    else:
                        raise Unsupported('no spec for parameter %s of %s' % (nm, c.func))
                else:
                    args[nm] = instantiate(E, nm, sp)
            env.locals.update(args)
            if c.pre_hook:
                c.pre_hook(E, env)
            for r in c.requires:
                E.assume(E.as_z3_bool(E.eval_spec(r, env, E.ghost_env(env))))
            if not E.feasible(z3.BoolVal(True)):
                raise PathAbort()
            entry = dict(env.locals)
            E.entry_measure = E.as_z3_int(E.eval_spec(c.measure, env, E.ghost_env(env))) if c.measure else None
            spec_env = Env(fn.mod, closure=None, fn=fn)
            spec_env.locals = AliasDict(amap)
            spec_env.locals.update(entry)
            old = _collect_old(E, list(ens_nodes.values()) + list(exc_nodes.values()), spec_env)
            E.old_stash = old
            outcome = 'normal'
            value = NONE
            E.depth = 1
            try:
                E.exec_block(fn.node.body, env)
            except _Return as r:
                value = r.v
            except PyRaise as pr:
                outcome = 'raise'
                value = pr.exc
            finally:
                E.depth = 0
            E.old_stash = old
            if outcome == 'normal':
                res.normal += 1
                spec_env.locals['result'] = value
                for k, node in ens_nodes.items():
                    v = E.eval_spec(node, spec_env, E.ghost_env(spec_env))
                    E.oblige('%s::ensures.%s' % (prefix, k), E.as_z3_bool(v), 'post', c.ensures[k])
            else:
                res.exceptional += 1
                spec_env.locals['exc'] = value
                for k, node in exc_nodes.items():
                    v = E.eval_spec(node, spec_env, E.ghost_env(spec_env))
                    E.oblige('%s::exc_ensures.%s' % (prefix, k), E.as_z3_bool(v), 'exc_post',
                             c.exc_ensures[k])
                if c.raises is not None:
                    ok = any(exc_is_sub(value.cls, n) for n in c.raises)
                    if value.sym and not ok:
                        # exception propagated from an opaque callee / declared raises_any callee
                        ok = c.propagate_opaque
                    E.oblige('%s::raises_only' % prefix, bool(ok), 'exc_closure',
                             'escaping %s not in %s' % (value.cls, c.raises))
            if c.exit_hook:
                spec_env.final = AliasDict(amap, env.locals)     # the activation's locals at exit (entry values are spec_env.locals)
                c.exit_hook(E, outcome, value, spec_env, prefix)
            if verbose:
                print('  path %d: %s %r' % (res.paths, outcome, value))
        except PathAbort:
            res.aborted += 1
        except Unsupported as u:
            msg = str(u)
            if msg not in res.unsupported:
                res.unsupported.append(msg)
        except RecursionError:
            res.unsupported.append('recursion limit')
        except BudgetExceeded:
            res.unsupported.append('time budget of %ds for this function exceeded (undecided, not a verdict)' % FUNC_BUDGET_S)
            del work[:]
            E.pending = []
        except MemoryError:
            res.unsupported.append('memory limit reached while exploring this function (undecided, not a verdict)')
            del work[:]
            E.pending = []
        except (PyRaise, _Return):
            raise
        except Exception as ex:  # engine defect on this path: undecided, never a verdict
            import traceback as _tb
            msg = 'engine error: %r at %s' % (ex, _tb.format_exc().strip().splitlines()[-3].strip())
            if msg not in res.unsupported:
                res.unsupported.append(msg)
        work.extend(E.pending)
    ctl = E.fork_ctl
    if ctl is not None:
        import os as _os
        ctl.wait_children()
        if ctl.is_child:
            try:
                ctl.dump(dict(obligations=E.obligations, paths=res.paths, normal=res.normal, exceptional=res.exceptional,
                              aborted=res.aborted, unsupported=res.unsupported, assumptions=E.assumptions_used,
                              inlined=E.inlined, lib=E.lib_used, cut_stats=E.cut_stats))
            finally:
                try:
                    ctl.sem.release()
                except Exception:
                    pass
                _os._exit(0)
        for d in ctl.collect():
            res.paths += d['paths']
            res.normal += d['normal']
            res.exceptional += d['exceptional']
            res.aborted += d['aborted']
            for u in d['unsupported']:
                if u not in res.unsupported:
                    res.unsupported.append(u)
            E.assumptions_used |= d['assumptions']
            E.inlined |= d['inlined']
            E.lib_used |= d['lib']
            for k2, v2 in d['cut_stats'].items():
                E.cut_stats[k2] = E.cut_stats.get(k2, 0) + v2
            for oid, ob in d['obligations'].items():
                mine = E.obligations.get(oid)
                if mine is None:
                    E.obligations[oid] = ob
                    continue
                mine.paths += ob.paths
                mine.ms += ob.ms
                mine.backends |= ob.backends
                rank = {'discharged': 0, 'undecided': 1, 'refuted': 2}
                if mine.kind == 'cover':
                    if rank[ob.status] < rank[mine.status]:
                        mine.status, mine.detail = ob.status, ob.detail
                    continue
                if rank[ob.status] > rank[mine.status]:
                    mine.status, mine.model, mine.detail, mine.havoced, mine.path = ob.status, ob.model, ob.detail, ob.havoced, ob.path
        ctl.cleanup()
    if c.raises is not None and (prefix + '::raises_only') not in E.obligations and not res.unsupported:
        from .engine import Obligation
        ob = E.obligations[prefix + '::raises_only'] = Obligation(prefix + '::raises_only', 'exc_closure')
        ob.backends.add('path-enumeration')
        ob.detail = 'no exceptional exit on any of %d paths (allowed: %s)' % (res.paths, c.raises)
    for ci, cut in enumerate(c.cuts):
        for nm, ex in cut.get('cover', {}).items():
            oid = '%s::cut_%s.cover.%s' % (prefix, cut.get('name', ci), nm)
            if oid not in E.obligations:
                from .engine import Obligation as _Ob
                ob = E.obligations[oid] = _Ob(oid, 'cover')
                ob.status = 'undecided'
                ob.detail = 'cut %s never reached (vacuity guard): %s' % (cut.get('name', ci), ex)
    # declared clauses must exist as obligations (vacuity guard)
    for k in c.ensures:
        oid = '%s::ensures.%s' % (prefix, k)
        if oid not in E.obligations:
            ob = E.obligations[oid] = __import__('pyvc.engine', fromlist=['Obligation']).Obligation(oid, 'post')
            ob.status = 'undecided'
            ob.detail = 'no normal exit reached (vacuous)'
    if res.unsupported:
        for oid, ob in E.obligations.items():
            if oid.startswith(prefix + '::') and ob.status == 'discharged':
                ob.status = 'undecided'
                ob.detail = 'UNSUPPORTED: ' + '; '.join(res.unsupported)[:500]
        for k in list(c.ensures) + ['exc_ensures.' + k for k in c.exc_ensures]:
            pass
    res.wall = time.time() - t0
    return res


# ---------------------------------------------------------------- call sites
def apply_contract(E, c, fn, args, kwargs, node):
    """replace a call by its contract: assert requires, havoc effects,
    assume ensures; fork declared exceptional outcomes"""
    env = Env(fn.mod, closure=None, fn=fn)
    E.bind_params(fn, args, kwargs, env)
    caller = E.cur_contract.key
    site = '%s::call.%s' % (caller, c.func.split('.')[-1])
    # ghost entry snapshots of namespace arguments are relative to *this* call
    saved_snaps = {}
    for v in env.locals.values():
        if isinstance(v, VRef) and isinstance(E.heap[v.addr], HObj):
            h = E.heap[v.addr]
            if isinstance(h.cls, VCls) and h.cls.name == 'TemplateDict' and isinstance(h.fields.get('_data'), VRef):
                k = ('td_entry', v.addr)
                saved_snaps[k] = E.ghost.get(k)
                lst = E.heap[h.fields['_data'].addr]
                E.ghost[k] = {'data_addr': h.fields['_data'].addr, 'base': lst.base, 'items': list(lst.items),
                              'level': h.fields.get('level')}
    try:
        return _apply_contract(E, c, fn, args, kwargs, node, env, site)
    finally:
        for k, v in saved_snaps.items():
            if v is None:
                E.ghost.pop(k, None)
            else:
                E.ghost[k] = v


def _undeclared_params_defaulted(E, c, fn, env, site):
    """A contract is verified with every parameter it does not declare at its default value (verify() above): that is an
    implicit precondition.  A call that hands another value to such a parameter is outside the contract: obligation at
    the call site; and what the callee does with a mutable object received that way is unknown (havoc)."""
    a = fn.node.args
    pos = [x.arg for x in a.posonlyargs + a.args]
    nd = len(fn.defaults)
    for i, nm in enumerate(pos + [x.arg for x in a.kwonlyargs]):
        if not isinstance(c.params.get(nm, Default()), Default):
            continue
        if nm in pos and i - (len(pos) - nd) >= 0:
            dflt = fn.defaults[i - (len(pos) - nd)]
        elif nm in fn.kwdefaults:
            dflt = fn.kwdefaults[nm]
        else:
            continue
        got = env.locals.get(nm)
        if got is dflt:
            continue
        try:
            same = ops.identical(E, got, dflt)
        except Unsupported:
            same = False
        if same is True:
            continue
        cond = same if not isinstance(same, bool) else z3.BoolVal(same)
        E.oblige('%s.undeclared_parameter_%s_has_its_default' % (site, nm), cond, 'coverage',
                 'the contract of %s is verified with parameter %s at its default value; this call passes another value, so '
                 'the contract does not cover it' % (c.func, nm))
        if isinstance(got, VRef) and isinstance(E.heap[got.addr], (HList, HDict)):
            E.havoc_heap(got)


def _apply_contract(E, c, fn, args, kwargs, node, env, site):
    _undeclared_params_defaulted(E, c, fn, env, site)
    cur = E.cur_contract
    if cur is not None and cur.measure and c.func == cur.func and getattr(E, 'entry_measure', None) is not None:
        # recursive call: the termination measure is non-negative at entry and strictly smaller for the callee
        m1 = E.as_z3_int(E.eval_spec(cur.measure, env))
        E.oblige('%s::recursion.decreases' % cur.key, z3.And(E.entry_measure >= 0, m1 < E.entry_measure), 'termination',
                 'recursive call: %s decreases' % cur.measure)
    for i, r in enumerate(c.requires):
        v = E.eval_spec(r, env)
        E.oblige('%s.requires%d' % (site, i), E.as_z3_bool(v), 'call_pre', r)
    ens_nodes = {k: _parse(v) for k, v in c.ensures.items()}
    exc_nodes = {k: _parse(v) for k, v in c.exc_ensures.items()}
    saved_old = getattr(E, 'old_stash', {})
    old = _collect_old(E, list(ens_nodes.values()) + list(exc_nodes.values()), env)
    snap = {}
    for pn, pv in env.locals.items():
        if isinstance(pv, VRef) and isinstance(E.heap[pv.addr], HObj):
            hh = E.heap[pv.addr]
            if isinstance(hh.cls, VCls) and hh.cls.name == 'TemplateDict' and isinstance(hh.fields.get('_data'), VRef):
                snap[pn] = list(E.heap[hh.fields['_data'].addr].items)
    E.trace.append(('contract-call', c.func, dict(env.locals), snap))
    E.havoced = True

    def raise_with(cls):
        if c.effects:
            c.effects(E, env.locals, 'raise')
        exc = VExc(cls, [], sym=True, uid=E.fresh('exc'))
        if cls == 'ParseError':
            # every ParseError of the package carries (message, tag): AST obligation C06.structural.parse_errors_have_message_and_tag
            exc = VExc(cls, [VS(z3.String(E.fresh('message'))), VS(z3.String(E.fresh('tagtext')))], sym=False, uid=E.fresh('exc'))
        if c.exc_hook:
            c.exc_hook(E, env.locals, exc)
        E.trace.append(('contract-raise', c.func, exc))
        env.locals['exc'] = exc
        E.old_stash = old
        for k, nd in exc_nodes.items():
            E.assume(E.as_z3_bool(E.eval_spec(nd, env)))
        if not E.feasible(z3.BoolVal(True)):
            raise PathAbort()
        raise PyRaise(exc)
    try:
        # exceptional outcomes
        if c.raises_any:
            if E.decide(2, 'call %s raises' % c.func) == 1:
                raise_with('Exception')
        elif c.raises:
            if c.noreturn:
                k = 1 + E.decide(len(c.raises), 'call %s raises which' % c.func) if len(c.raises) > 1 else 1
            else:
                k = E.decide(len(c.raises) + 1, 'call %s raises' % c.func)
            if k > 0:
                raise_with(exc_canon(c.raises[k - 1]))
        if c.effects:
            c.effects(E, env.locals, 'normal')
        hooked = c.call_hook(E, env.locals) if c.call_hook else None
        result = hooked if hooked is not None else instantiate(E, E.fresh('ret_' + c.func.split('.')[-1]), c.returns) if c.returns else E.fresh_opaque('ret')
        env.locals['result'] = result
        E.trace.append(('contract-ret', c.func, result))
        E.old_stash = old
        for k, nd in ens_nodes.items():
            try:
                E.assume(E.as_z3_bool(E.eval_spec(nd, env)))
            except Unsupported:
                pass    # a clause that cannot be evaluated here is simply not assumed (sound)
        if not E.feasible(z3.BoolVal(True)):
            raise PathAbort()
        return result
    finally:
        E.old_stash = saved_old
