"""pyvc engine: path-based symbolic execution of the real source (DESIGN.md 2).

Paths are explored by re-execution under a decision vector (no state copying):
every undetermined branch / may-raise point asks ``decide``; alternatives are
queued and the function is re-run from its entry for each.  Fresh names are
numbered per path, so a shared prefix yields identical terms.
"""
import ast
import os
import sys

import z3

from . import smt
from .values import *  # noqa

REPO_SRC = os.environ.get('PYVC_REPO_SRC', '/repo/src')


class Unsupported(Exception):
    pass


class PathAbort(Exception):
    """path condition became infeasible"""


class PyRaise(Exception):
    def __init__(self, exc):
        self.exc = exc


class _Return(Exception):
    def __init__(self, v):
        self.v = v


class _Break(Exception):
    pass


class _Continue(Exception):
    pass


class PathLimit(Exception):
    pass


class BudgetExceeded(BaseException):
    """wall-clock budget of the function under verification is used up: everything still open is
    undecided (never a verdict).  BaseException so that no handler of the engine swallows it."""


def I(x):
    return z3.IntVal(x)


def S(x):
    return z3.StringVal(x)


# ------------------------------------------------------------------ modules

class ModuleInfo:
    def __init__(self, name, path):
        self.name = name
        self.path = path
        with open(path) as fh:
            self.src = fh.read()
        self.tree = ast.parse(self.src, path)
        self.globals = None     # filled by Engine.init_module


class Env:
    """function activation: locals + enclosing closure + module"""
    __slots__ = ('locals', 'closure', 'mod', 'fn', 'handling', 'loop_ord', 'final')

    def __init__(self, mod, closure=None, fn=None):
        self.locals = {}
        self.closure = closure
        self.mod = mod
        self.fn = fn
        self.handling = []   # stack of exceptions being handled
        self.loop_ord = 0


class Obligation:
    def __init__(self, oid, kind):
        self.oid = oid
        self.kind = kind
        self.paths = 0
        self.status = 'discharged'   # discharged | refuted | undecided
        self.model = None
        self.havoced = False
        self.path = None
        self.detail = ''
        self.backends = set()
        self.ms = 0.0


class Engine:
    def __init__(self, registry=None, max_paths=20000, inline_depth=40):
        self.registry = registry or {}
        self.mods = {}
        self.max_paths = max_paths
        self.inline_depth = inline_depth
        self.obligations = {}
        self.assumptions_used = set()
        self.inlined = set()
        self.lib_used = set()
        self.unsupported = []
        self.mod_init = False
        self.fork_ctl = None       # process-forking path exploration (pyvc.forking), optional
        self.static_heap = {}      # objects allocated while evaluating module top levels (persist across paths)
        self.static_next = -1
        self.cut_memo = {}
        self.cut_stats = {}
        self.deadline = None       # wall-clock budget per function under verification (set by contracts.verify)
        self.cur_env = None
        self.reset_path([])

    # ---------------------------------------------------------- path state
    def reset_path(self, dec):
        self.dec = list(dec)
        self.dpos = 0
        self.pending = []
        self.pc = []
        self.heap = {a: h.clone() for a, h in self.static_heap.items()}
        self.next_addr = 1
        self.fresh_n = 0
        self.tfacts = {}
        self.trace = []
        self.ghost = {}
        self.depth = 0
        self.spec_mode = False
        self.cur_contract = None
        self.havoced = False
        self.handling_stack = []
        self.trace_truncated = False
        self.loop_pc_mark = None

    def on_fork_child(self):
        """bookkeeping reset in a forked child: it reports only what it generates itself"""
        self.obligations = {}
        self.pending = []
        del self.work[:]
        r = self.cur_res
        r.paths, r.normal, r.exceptional, r.aborted, r.unsupported = 1, 0, 0, 0, []
        self.cut_stats = {}

    def fresh(self, hint='v'):
        self.fresh_n += 1
        return '%s!%d' % (hint, self.fresh_n)

    def fresh_int(self, hint='i'):
        return z3.Int(self.fresh(hint))

    def fresh_opaque(self, hint='o', proto=None):
        return VO(self.fresh(hint), proto)

    def alloc(self, h):
        if self.mod_init:
            a = self.static_next
            self.static_next -= 1
            self.static_heap[a] = h
            self.heap[a] = h
            return VRef(a)
        a = self.next_addr
        self.next_addr += 1
        self.heap[a] = h
        return VRef(a)

    def assume(self, c):
        if isinstance(c, bool):
            if not c:
                raise PathAbort()
            return
        c = z3.simplify(c)
        if z3.is_true(c):
            return
        if z3.is_false(c):
            raise PathAbort()
        self.pc.append(c)

    def feasible(self, c):
        # path feasibility: z3 only (an undecided query keeps the path -- sound); cvc5 is reserved for obligations
        v, _, _ = smt.check(self.pc + [c], strings_fallback=False)
        return v != 'unsat'

    def valid(self, c):
        """is c valid under the path condition (unknown -> False)"""
        if isinstance(c, bool):
            return c
        c = z3.simplify(c)
        if z3.is_true(c):
            return True
        if z3.is_false(c):
            return False
        v, _, _ = smt.check(self.pc + [z3.Not(c)])
        return v == 'unsat'

    def decide(self, k, label=''):
        if self.mod_init:
            raise Unsupported('fork during module init: ' + label)
        i = self.dpos
        self.dpos += 1
        if i < len(self.dec):
            return self.dec[i]
        for j in range(1, k):
            who = self.fork_ctl.try_fork(self) if self.fork_ctl is not None else None
            if who == 'child':
                # continue this very path with alternative j (no re-execution of the prefix)
                self.dec.append(j)
                return j
            if who == 'parent':
                continue            # a child explores alternative j
            self.pending.append(self.dec[:i] + [j])
        self.dec.append(0)
        return 0

    def branch(self, c, label=''):
        if isinstance(c, bool):
            return c
        c = z3.simplify(c)
        if z3.is_true(c):
            return True
        if z3.is_false(c):
            return False
        t_ok = self.feasible(c)
        f_ok = self.feasible(z3.Not(c))
        if t_ok and not f_ok:
            return True
        if f_ok and not t_ok:
            return False
        if not t_ok and not f_ok:
            raise PathAbort()
        if self.decide(2, label) == 0:
            self.pc.append(c)
            return True
        self.pc.append(z3.Not(c))
        return False

    # ------------------------------------------------------------ obligations
    def oblige(self, oid, cond, kind='post', detail=''):
        """assert cond under the current path condition.  Postconditions are
        checked independently of each other (not assumed afterwards); call-site
        preconditions, invariants and safety conditions are assumed after the
        check, as usual, so one failure is reported once."""
        assume_after = kind not in ('post', 'exc_post', 'exc_closure')
        ob = self.obligations.get(oid)
        if ob is None:
            ob = self.obligations[oid] = Obligation(oid, kind)
        ob.paths += 1
        if isinstance(cond, bool):
            if cond:
                ob.backends.add('syntactic')
                return True
            cond = z3.BoolVal(False)
        cond = z3.simplify(cond)
        if z3.is_true(cond):
            ob.backends.add('syntactic')
            return True
        import time
        t0 = time.time()
        v, m, be = smt.check(self.pc + [z3.Not(cond)], want_model=True)
        ob.ms += (time.time() - t0) * 1000
        ob.backends.add(be)
        if v == 'unsat':
            if assume_after:
                self.pc.append(cond)
            return True
        if v == 'sat':
            if ob.status != 'refuted':
                ob.status = 'refuted'
                ob.model = self.model_to_dict(m)
                ob.detail = detail or str(cond)
                ob.havoced = self.havoced
                ob.path = list(self.dec[:self.dpos])
            if assume_after:
                self.pc.append(cond)
                if not self.feasible(z3.BoolVal(True)):
                    raise PathAbort()
            return False
        if ob.status == 'discharged':
            ob.status = 'undecided'
            ob.detail = 'solver unknown: ' + (detail or str(cond))[:300]
        if assume_after:
            self.pc.append(cond)
        return False

    def model_to_dict(self, m):
        out = {}
        if m is None:
            return out
        if isinstance(m, str):
            out['__cvc5_model__'] = m
            return out
        for d in m.decls():
            if d.arity() == 0:
                try:
                    val = m[d]
                    if z3.is_int_value(val):
                        out[d.name()] = val.as_long()
                    elif z3.is_string_value(val):
                        out[d.name()] = val.as_string()
                    elif z3.is_true(val) or z3.is_false(val):
                        out[d.name()] = z3.is_true(val)
                    else:
                        out[d.name()] = str(val)
                except Exception:
                    out[d.name()] = '?'
        return out

    def cur_obl_prefix(self):
        return self.cur_contract.key if self.cur_contract else '<none>'

    # -------------------------------------------------------------- modules
    def load_module(self, name):
        if name in self.mods:
            return self.mods[name]
        rel = name.replace('.', '/')
        for cand in (os.path.join(REPO_SRC, rel + '.py'),
                     os.path.join(REPO_SRC, rel, '__init__.py')):
            if os.path.exists(cand):
                mi = ModuleInfo(name, cand)
                self.mods[name] = mi
                self.init_module(mi)
                return mi
        return None

    def init_module(self, mi):
        """evaluate the module top level with concrete values only; a statement
        that cannot be evaluated leaves its targets opaque"""
        mi.globals = g = {}
        env = Env(mi)
        env.locals = g
        saved = self.mod_init
        self.mod_init = True
        try:
            for st in mi.tree.body:
                try:
                    self.exec_stmt(st, env)
                except (Unsupported, PyRaise, PathAbort, _Return, _Break, _Continue) as e:
                    for n in ast.walk(st):
                        if isinstance(n, ast.Name) and isinstance(n.ctx, ast.Store):
                            if n.id not in g:
                                g[n.id] = VO('%s.%s' % (mi.name, n.id))
        finally:
            self.mod_init = saved

    def resolve_import(self, mi, node):
        """ImportFrom / Import -> bindings"""
        out = {}
        if isinstance(node, ast.Import):
            for a in node.names:
                nm = a.asname or a.name.split('.')[0]
                target = a.name if a.asname else a.name.split('.')[0]
                if self._is_repo_module(target):
                    out[nm] = VMod(target)
                else:
                    out[nm] = VMod(target)
            return out
        base = mi.name.split('.')
        if node.level:
            is_pkg = mi.path.endswith('__init__.py')
            pkg = base if is_pkg else base[:-1]
            if node.level > 1:
                pkg = pkg[:-(node.level - 1)]
            modname = '.'.join(pkg + ([node.module] if node.module else []))
        else:
            modname = node.module
        for a in node.names:
            nm = a.asname or a.name
            if self._is_repo_module(modname + '.' + a.name):
                out[nm] = VMod(modname + '.' + a.name)
            elif self._is_repo_module(modname):
                out[nm] = VLazy(modname, a.name)
            else:
                out[nm] = VBI(modname + '.' + a.name)
        return out

    def _is_repo_module(self, name):
        rel = name.replace('.', '/')
        return (os.path.exists(os.path.join(REPO_SRC, rel + '.py'))
                or os.path.exists(os.path.join(REPO_SRC, rel, '__init__.py')))

    def module_attr(self, modname, name):
        if self._is_repo_module(modname):
            mi = self.load_module(modname)
            if name in mi.globals:
                v = mi.globals[name]
                if isinstance(v, VLazy):
                    v = self.module_attr(v.mod, v.name)
                return v
            if self._is_repo_module(modname + '.' + name):
                return VMod(modname + '.' + name)
            raise Unsupported('no attr %s in module %s' % (name, modname))
        return VBI(modname + '.' + name)

    def lookup_qual(self, qual):
        """'pkg.mod.Class.method' -> value"""
        parts = qual.split('.')
        for i in range(len(parts), 0, -1):
            mname = '.'.join(parts[:i])
            if self._is_repo_module(mname):
                v = VMod(mname)
                for p in parts[i:]:
                    v = self.getattr_(v, p)
                return v
        raise Unsupported('cannot resolve ' + qual)

    # ------------------------------------------------------------ name lookup
    def lookup_name(self, name, env):
        e = env
        if name in e.locals:
            v = e.locals[name]
            if isinstance(v, VLazy):
                v = self.module_attr(v.mod, v.name)
            return v
        c = e.closure
        while c is not None:
            if name in c.locals:
                v = c.locals[name]
                if isinstance(v, VLazy):
                    v = self.module_attr(v.mod, v.name)
                return v
            c = c.closure
        g = env.mod.globals
        if g is not None and name in g and g is not e.locals:
            v = g[name]
            if isinstance(v, VLazy):
                v = self.module_attr(v.mod, v.name)
            return v
        from . import builtins_ as B
        if name in B.BUILTIN_NAMES:
            return VBI(name)
        if name in EXC_PARENT:
            return VBI(name)
        if self.spec_mode:
            from . import spec as _spec
            if name in B.SPEC_FUNCS or name in _spec.EXTRA:
                return VBI('spec.' + name)
            # a clause names a local that was renamed in the source (pyvc/aliases.py)
            c = env
            while c is not None:
                al = getattr(c.locals, 'alias', None)
                if al and name in al and al[name] in c.locals:
                    return c.locals[al[name]]
                c = c.closure
        raise Unsupported('unbound name %r' % name)

    # ------------------------------------------------------------ statements
    def exec_block(self, stmts, env):
        c = self.cur_contract
        if c is not None and c.cuts and not self.mod_init and env.fn is not None \
                and self.depth == c._depth0 and env.fn.qual == c.func:
            for st in stmts:
                ci = c._cut_nodes.get(id(st))
                if ci is not None:
                    self.do_cut(c.cuts[ci], ci, env)
                self.exec_stmt(st, env)
            return
        for st in stmts:
            self.exec_stmt(st, env)

    def exec_stmt(self, st, env):
        self.cur_env = env
        dl = self.deadline
        if dl is not None:
            import time as _t
            if _t.time() > dl:
                raise BudgetExceeded('time budget for this function exceeded')
        m = getattr(self, 'st_' + type(st).__name__, None)
        if m is None:
            raise Unsupported('statement %s at line %d' % (type(st).__name__, st.lineno))
        return m(st, env)

    def st_Pass(self, st, env):
        pass

    def st_Global(self, st, env):
        pass

    def st_Expr(self, st, env):
        if isinstance(st.value, ast.Constant):
            return
        self.eval(st.value, env)

    def st_Import(self, st, env):
        env.locals.update(self.resolve_import(env.mod, st))

    def st_ImportFrom(self, st, env):
        env.locals.update(self.resolve_import(env.mod, st))

    def st_Assign(self, st, env):
        if (len(st.targets) == 1 and isinstance(st.targets[0], ast.Name)
                and st.targets[0].id == '__traceback_info__'):
            return
        v = self.eval(st.value, env)
        for t in st.targets:
            self.assign(t, v, env)

    def st_AnnAssign(self, st, env):
        if st.value is not None:
            self.assign(st.target, self.eval(st.value, env), env)

    def st_AugAssign(self, st, env):
        load = ast.copy_location(_as_load(st.target), st.target)
        cur = self.eval(load, env)
        v = self.binop(type(st.op).__name__, cur, self.eval(st.value, env))
        self.assign(st.target, v, env)

    def st_Delete(self, st, env):
        for t in st.targets:
            if isinstance(t, ast.Subscript):
                obj = self.eval(t.value, env)
                idx = self.eval_index(t.slice, env)
                self.delitem(obj, idx)
            elif isinstance(t, ast.Name):
                env.locals.pop(t.id, None)
            else:
                raise Unsupported('del target')

    def st_Return(self, st, env):
        raise _Return(self.eval(st.value, env) if st.value is not None else NONE)

    def st_Break(self, st, env):
        raise _Break()

    def st_Continue(self, st, env):
        raise _Continue()

    def st_If(self, st, env):
        if self.truth(self.eval(st.test, env), 'if@%d' % st.lineno):
            self.exec_block(st.body, env)
        else:
            self.exec_block(st.orelse, env)

    def st_Assert(self, st, env):
        if not self.truth(self.eval(st.test, env), 'assert'):
            raise PyRaise(VExc('AssertionError'))

    def st_Raise(self, st, env):
        if st.exc is None:
            if not env.handling:
                raise Unsupported('bare raise outside handler')
            raise PyRaise(env.handling[-1])
        v = self.eval(st.exc, env)
        raise PyRaise(self.as_exception(v))

    def as_exception(self, v):
        if isinstance(v, VExc):
            return v
        if isinstance(v, VBI) and v.name in EXC_PARENT:
            return VExc(exc_canon(v.name))
        if isinstance(v, VCls) and v.exc_base:
            return VExc(v.name)
        if isinstance(v, VO):
            # raising an unknown object/class: some exception
            return VExc('BaseException', [], sym=True, uid=self.fresh('exc'))
        raise Unsupported('raise of %r' % (v,))

    def st_FunctionDef(self, st, env):
        env.locals[st.name] = self.make_function(st, env, closure=env if env.fn else None)

    def st_ClassDef(self, st, env):
        bases = [self.eval(b, env) for b in st.bases]
        qual = env.mod.name + '.' + st.name
        c = VCls(st.name, env.mod, st, bases, qual)
        for b in bases:
            if isinstance(b, VBI) and b.name in EXC_PARENT:
                c.exc_base = b.name
            elif isinstance(b, VCls) and b.exc_base:
                c.exc_base = b.name
        if c.exc_base and st.name not in EXC_PARENT:
            EXC_PARENT[st.name] = exc_canon(c.exc_base)
        cenv = Env(env.mod, closure=None, fn=None)
        for s in st.body:
            if isinstance(s, ast.FunctionDef):
                f = self.make_function(s, env, closure=None, cls=c, defaults_env=cenv)
                cenv.locals[s.name] = f
                continue
            try:
                # class-body names shadow module names during the body
                saved = cenv.closure
                cenv.closure = _ModClosure(env)
                self.exec_stmt(s, cenv)
                cenv.closure = saved
            except (Unsupported, PyRaise, PathAbort):
                cenv.closure = None
                for n in ast.walk(s):
                    if isinstance(n, ast.Name) and isinstance(n.ctx, ast.Store):
                        cenv.locals.setdefault(n.id, VO('%s.%s' % (qual, n.id)))
        c.attrs = cenv.locals
        env.locals[st.name] = c

    def make_function(self, node, env, closure=None, cls=None, defaults_env=None):
        denv = env
        if defaults_env is not None:
            denv = Env(env.mod, closure=_ModClosure(env))
            denv.locals = defaults_env.locals
        defaults = []
        for d in node.args.defaults:
            try:
                defaults.append(self.eval(d, denv))
            except Unsupported:
                defaults.append(VO('default@%d' % d.lineno))
        kwdefaults = {}
        for a, d in zip(node.args.kwonlyargs, node.args.kw_defaults):
            if d is not None:
                kwdefaults[a.arg] = self.eval(d, denv)
        base = (cls.qual if cls else env.mod.name)
        if env.fn is not None and cls is None:
            base = env.fn.qual + '.<locals>'
        return VFn(node, env.mod, base + '.' + node.name, defaults, kwdefaults, closure, cls)

    def st_While(self, st, env):
        env.loop_ord += 1
        ordn = env.loop_ord
        inv = self.loop_invariant(env, ordn, st)
        if inv is not None:
            return self.cut_loop(st, env, inv, ordn, kind='while')
        n = 0
        while True:
            n += 1
            if n > 200:
                raise Unsupported('while loop without invariant does not terminate symbolically (line %d)' % st.lineno)
            if not self.truth(self.eval(st.test, env), 'while@%d' % st.lineno):
                self.exec_block(st.orelse, env)
                return
            if not self.mod_init and not _is_const_true(st.test) and n > 64:
                raise Unsupported('while loop unrolled > 64 times without invariant (line %d)' % st.lineno)
            try:
                self.exec_block(st.body, env)
            except _Break:
                return
            except _Continue:
                continue

    def st_For(self, st, env):
        env.loop_ord += 1
        ordn = env.loop_ord
        it = self.eval(st.iter, env)
        inv = self.loop_invariant(env, ordn, st)
        if inv is not None:
            return self.cut_loop(st, env, inv, ordn, kind='for', iterable=it)
        items = self.concrete_iter(it, st)
        for x in items:
            self.assign(st.target, x, env)
            try:
                self.exec_block(st.body, env)
            except _Break:
                return
            except _Continue:
                continue
        self.exec_block(st.orelse, env)

    def concrete_iter(self, it, st=None):
        """elements of an iterable of concrete length (complete unrolling)"""
        if isinstance(it, VT):
            return list(it.items)
        if isinstance(it, VC) and isinstance(it.v, (str, bytes)):
            if isinstance(it.v, str):
                return [VC(c) for c in it.v]
            return [VC(c) for c in it.v]
        if isinstance(it, VRef):
            h = self.heap[it.addr]
            if isinstance(h, HList) and h.base is None and not any(isinstance(x, SymSeg) for x in h.items):
                return list(h.items)
            if isinstance(h, HDict) and h.base is None:
                return [k for k, v in h.entries]
            if isinstance(h, HObj) and h.cls is None and h.name == 'range':
                lo, hi, step = h.fields['lo'], h.fields['hi'], h.fields['step']
                if all(isinstance(x, VC) for x in (lo, hi, step)):
                    return [VC(i) for i in range(lo.v, hi.v, step.v)]
            if isinstance(h, HObj) and h.name == 'iter_list':
                return h.fields['items']
        raise Unsupported('loop over %r without invariant (line %s)' % (it, getattr(st, 'lineno', '?')))

    def loop_invariant(self, env, ordn, st):
        c = self.cur_contract
        if c is None or env.fn is None:
            return None
        if self.depth != c._depth0 or env.fn.qual != c.func:
            # a loop inside an inlined helper (a function without a contract of its own).  When the loop was MOVED there from
            # the function under contract (helper extraction: its header is one the sidecar has an invariant for, and the
            # function under contract itself no longer contains a loop with that header), the invariant written for it
            # still applies -- it is checked like any other (entry / preserved obligations), so a wrong guess proves nothing.
            if env.fn.qual == c.func or not c.invariants:
                return None
            hdr = _loop_header(st)
            own = getattr(c, '_own_headers', None)
            if own is None:
                fn0 = self.lookup_qual(c.func) if hasattr(self, 'lookup_qual') else None
                node0 = getattr(fn0, 'node', None)
                own = c._own_headers = ({_norm(_loop_header(n)) for n in ast.walk(node0) if isinstance(n, (ast.For, ast.While))}
                                        if node0 is not None else None)
            if own is None or _norm(hdr) in own:
                return None
            cand = [inv for inv in c.invariants.values() if inv.get('header') and _norm(inv['header']) == _norm(hdr)]
            return cand[0] if len(cand) == 1 else None
        hdr = _loop_header(st)
        _am = getattr(c, '_alias', None) or {}
        if _am:
            # locals renamed in the source: the headers written in the sidecar are compared in the current spelling
            from .contracts import _rename_text
            for inv in c.invariants.values():
                if inv.get('header') and '_header_written' not in inv:
                    inv['_header_written'] = inv['header']
                if inv.get('_header_written'):
                    inv['header'] = _rename_text(inv['_header_written'], _am)
        # 1. an invariant written for exactly this header (robust against loops added/removed before it)
        same = [(o, inv) for o, inv in c.invariants.items() if inv.get('header') and _norm(inv['header']) == _norm(hdr)]
        if len(same) == 1:
            return same[0][1]
        if len(same) > 1:
            # several loops with the same header text (``while 1``): the ordinal decides among them
            for o, inv in same:
                if o == ordn:
                    return inv
            return None
        # 2. by ordinal, when the header it was written for no longer exists anywhere in the
        #    function (the loop itself was edited): the obligations decide
        inv = c.invariants.get(ordn)
        if inv is not None:
            all_hdrs = {_norm(_loop_header(n)) for n in ast.walk(env.fn.node) if isinstance(n, (ast.For, ast.While))}
            if not inv.get('header') or _norm(inv['header']) not in all_hdrs:
                return inv
        return None

    # loop cutting -----------------------------------------------------------
    def cut_loop(self, st, env, inv, ordn, kind, iterable=None):
        """inductive invariant: assert on entry, havoc assigned variables (and
        declared heap locations), assume invariant, one arbitrary iteration,
        assert invariant; after the loop: invariant and not guard."""
        fq = self.cur_contract.key
        hdr = ast.unparse(st.test) if kind == 'while' else (
            'for %s in %s' % (ast.unparse(st.target), ast.unparse(st.iter)))
        assigned = _assigned_names(st.body + ([] if kind == 'while' else [ast.Assign(targets=[st.target], value=None)]))
        ghost_vars = inv.get('ghost', {})
        # ghost variables initialised on entry
        genv = dict()
        for gname, gexpr in ghost_vars.items():
            genv[gname] = self.eval_spec(gexpr, env, genv)
        env.locals.update({'__g_' + k: v for k, v in genv.items()})

        def check_inv(tag):
            for nm, ex in inv['inv'].items():
                try:
                    v = self.as_z3_bool(self.eval_spec(ex, env, self.ghost_env(env)))
                except PyRaise as pr:
                    v = False
                    ex = '%s  (evaluation raised %s)' % (ex, pr.exc.cls)
                self.oblige('%s::loop%d.%s.%s' % (fq, ordn, nm, tag), v,
                            kind='invariant', detail='%s [%s]' % (ex, tag))

        def assume_inv():
            self.spec_assume_defined = True
            try:
                for nm, ex in inv['inv'].items():
                    v = self.eval_spec(ex, env, self.ghost_env(env))
                    self.assume(self.as_z3_bool(v))
            finally:
                self.spec_assume_defined = False

        # for-loop bookkeeping: index variable over the iterable
        if kind == 'for':
            seq_len, seq_get = self.iter_model(iterable)
            k0 = I(0)
            env.locals['__k_%d' % ordn] = VI(k0) if not isinstance(k0, int) else VC(0)
        check_inv('entry')
        entry_vals = dict(env.locals)
        # havoc
        self.havoced = True
        _al = getattr(env.locals, 'alias', None) or {}
        types = {_al.get(k, k) if k not in assigned else k: v for k, v in inv.get('types', {}).items()}
        self.havoc_text = env.locals.get(inv.get('text_var', 'text'))
        for nm in sorted(assigned):
            if nm in env.locals or nm in types:
                env.locals[nm] = self.havoc_like(env.locals.get(nm), types.get(nm), nm)
        for gname in ghost_vars:
            gt = inv.get('ghost_types', {}).get(gname)
            env.locals['__g_' + gname] = self.havoc_like(env.locals['__g_' + gname], gt, gname)
        heap_targets = _heap_targets(inv, st, env)
        for hx in heap_targets:
            self.havoc_heap(self.eval_spec(hx, env, self.ghost_env(env)))
        shaped = {}
        for hx, nshape in inv.get('elem_tuple', {}).items():
            # every element of this list is an n-tuple: assumed for the elements appended by earlier iterations,
            # checked for every append of the iteration at hand (obligation below)
            r = self.eval_spec(hx, env, self.ghost_env(env))
            hl = self.heap[r.addr]
            if not (isinstance(hl, HList) and hl.base is not None and not hl.items):
                raise Unsupported('elem_tuple: %s is not a havoced list' % hx)
            hl.base.shape = nshape
            shaped[r.addr] = (hx, nshape)
        for (ox, field, typ) in inv.get('havoc_fields', []):
            self.havoc_field(self.eval_spec(ox, env, self.ghost_env(env)), field, typ)
        for gx in inv.get('havoc_ghost', []):
            sq = self.eval_spec(gx, env, self.ghost_env(env))
            if isinstance(sq, VSeq) and sq.ghost is not None:
                self.havoc_seq_ghost(sq)
        for (ox, segname) in inv.get('havoc_stack', []):
            # the namespace stack grows by an unknown number of entries pushed by earlier iterations
            ref = self.eval_spec(ox, env, self.ghost_env(env))
            data = self.heap[ref.addr].fields['_data']
            n = self.fresh_int('n_' + segname)
            self.assume(n >= 0)
            self.heap[data.addr].items.append(SymSeg(self.fresh(segname), n, segname))
        if kind == 'for':
            k = self.fresh_int('k')
            self.assume(k >= 0)
            env.locals['__k_%d' % ordn] = VI(k)
        if inv.get('after_havoc'):
            inv['after_havoc'](self, env)
        assume_inv()
        for gname, gexpr in inv.get('snapshot', {}).items():
            # values at the head of the arbitrary iteration, for use by the per-iteration obligations
            env.locals['__g_' + gname] = self.eval_spec(gexpr, env, self.ghost_env(env))
        declared = set()
        for hx in heap_targets:
            r = self.eval_spec(hx, env, self.ghost_env(env))
            if isinstance(r, VRef):
                declared.add(r.addr)
        for (ox, segname) in inv.get('havoc_stack', []):
            r = self.eval_spec(ox, env, self.ghost_env(env))
            declared.add(self.heap[r.addr].fields['_data'].addr)
        for gx in inv.get('havoc_ghost', []):
            r = self.eval_spec(gx, env, self.ghost_env(env))
            if isinstance(r, VSeq):
                declared.add(('ghost', r.name))
        for (ox, field, typ) in inv.get('havoc_fields', []):
            r = self.eval_spec(ox, env, self.ghost_env(env))
            if isinstance(r, VRef):
                declared.add(('f', r.addr, field))
                fv = self.heap[r.addr].fields.get(field)
                if isinstance(fv, VRef):
                    declared.add(fv.addr)
        heap_snap = self.heap_snapshot(declared)
        same_vals = {nm: env.locals.get(nm) for nm in assigned if types.get(nm) == 'same'}
        self.loop_pc_mark = len(self.pc)
        self.trace.append(('loop_head', ordn))
        trace_mark = len(self.trace)
        # decide: one more iteration, or exit
        if kind == 'while':
            go = self.truth(self.eval(st.test, env), 'loop%d.guard' % ordn)
        else:
            go = self.branch(k < seq_len, 'loop%d.more' % ordn)
        if go:
            dec_expr = inv.get('decreases')
            if dec_expr:
                d0 = self.as_z3_int(self.eval_spec(dec_expr, env, self.ghost_env(env)))
            if kind == 'for':
                self.assign(st.target, seq_get(k), env)
            for hx in inv.get('hints', []):
                # instances of ASSUMED library axioms (spec functions named axiom_*), stated where the proof needs them
                if not hx.strip().startswith('axiom_'):
                    raise Unsupported('loop hint %r is not an axiom instance' % hx)
                self.assume(self.as_z3_bool(self.eval_spec(hx, env, self.ghost_env(env))))
            broke = False
            try:
                self.exec_block(st.body, env)
            except _Break:
                broke = True
            except _Continue:
                pass
            if broke:
                # leaves the loop with the state at the break
                self.trace.append(('loop_break', ordn))
                if inv.get('on_break'):
                    inv['on_break'](self, env, self.trace[trace_mark:], fq, ordn)
                return
            if kind == 'for':
                env.locals['__k_%d' % ordn] = VI(k + 1)
            for nm, hv in same_vals.items():
                if env.locals.get(nm) is not hv:
                    raise Unsupported('loop %d of %s: variable %s is declared unchanged ("same") but a completed '
                                      'iteration assigns it' % (ordn, fq, nm))
            if inv.get('on_iteration'):
                inv['on_iteration'](self, env, self.trace[trace_mark:], fq, ordn)
            changed = [a for a, txt in self.heap_snapshot(declared).items() if a in heap_snap and heap_snap[a] != txt]
            if changed:
                raise Unsupported('loop %d of %s modifies heap objects not declared in havoc_heap/havoc_fields: %s'
                                  % (ordn, fq, [heap_snap[a][:80] for a in changed][:3]))
            for addr, (hx, nshape) in shaped.items():
                apps = [t for t in self.trace[trace_mark:] if t[0] == 'list_append' and t[1] == addr]
                okk = all(isinstance(t[3], VT) and len(t[3].items) == nshape for t in apps)
                self.oblige('%s::loop%d.elem_shape.%s' % (fq, ordn, hx), bool(okk), kind='invariant',
                            detail='every element appended to %s is a %d-tuple' % (hx, nshape))
            check_inv('preserved')
            if dec_expr:
                d1 = self.as_z3_int(self.eval_spec(dec_expr, env, self.ghost_env(env)))
                self.oblige('%s::loop%d.decreases' % (fq, ordn), z3.And(d0 >= 0, d1 < d0),
                            kind='termination', detail=dec_expr)
            raise PathAbort()   # the arbitrary iteration ends here (cut)
        # exit path: invariant and not guard hold
        self.trace.append(('loop_exit', ordn))
        if kind == 'for':
            self.assume(k == seq_len)
        for hx in inv.get('exit_hints', []):
            if not hx.strip().startswith('axiom_'):
                raise Unsupported('loop hint %r is not an axiom instance' % hx)
            self.assume(self.as_z3_bool(self.eval_spec(hx, env, self.ghost_env(env))))
        self.exec_block(st.orelse, env)

    def heap_snapshot(self, declared):
        cn = _Canon(self, shallow=True)
        cn.skip_ghost = {d[1] for d in declared if isinstance(d, tuple) and d[0] == 'ghost'}
        out = {}
        for a, h in self.heap.items():
            if a in declared:
                continue
            if isinstance(h, HObj):
                flds = {k: v for k, v in h.fields.items() if ('f', a, k) not in declared
                        and not (h.lazy and isinstance(v, VO) and v.name == '%s.%s' % (h.name or ('obj%d' % a), k))}
                out[a] = 'Obj(%s|%s)' % (h.name, ','.join('%s=%s' % (k, cn.val(v)) for k, v in sorted(flds.items(), key=lambda kv: str(kv[0]))))
            else:
                out[a] = cn.heapobj(h)
        return out

    def ghost_env(self, env):
        return {k[4:]: v for k, v in env.locals.items() if k.startswith('__g_')}

    def iter_model(self, it):
        """(length term, getter(k)) for loop cutting over an iterable"""
        if isinstance(it, VSeq):
            return it.length, (lambda k: self.seq_elem(it, k))
        if isinstance(it, VRef):
            h = self.heap[it.addr]
            if isinstance(h, HObj) and h.name == 'range':
                lo = self.as_z3_int(h.fields['lo'])
                hi = self.as_z3_int(h.fields['hi'])
                st = h.fields['step']
                if isinstance(st, VC) and st.v == 1:
                    n = z3.If(hi > lo, hi - lo, I(0))
                    return n, (lambda k: VI(lo + k))
                if isinstance(st, VC) and st.v > 1:
                    s = st.v
                    n = z3.If(hi > lo, (hi - lo + (s - 1)) / s, I(0))
                    return n, (lambda k: VI(lo + k * s))
            if isinstance(h, HList):
                n = self.list_len(h)
                return n, (lambda k: self.list_get(h, k))
            if isinstance(h, HObj) and h.name == 'reversed':
                base = h.fields['seq']
                n, get = self.iter_model(base)
                return n, (lambda k: get(n - 1 - k))
        if isinstance(it, VO):
            nm = self.fresh('it')
            sq = VSeq(nm, self.fresh_int('n'), 'iter')
            self.assume(sq.length >= 0)
            return sq.length, (lambda k: self.seq_elem(sq, k))
        raise Unsupported('iter_model of %r' % (it,))

    def havoc_like(self, old, typ, name):
        if typ == 'tagmatch?':
            # result of a tag matcher: None, or a match object with a fresh non-empty span (facts about where it lies
            # come from the invariant)
            if self.decide(2, 'havoc %s is None' % name) == 1:
                return NONE
            st, en = self.fresh_int('mstart'), self.fresh_int('mend')
            self.assume(en > st)
            txt = self.havoc_text
            sz = self.as_z3_str(txt)
            self.assume(z3.And(st >= 0, en <= z3.Length(sz)))
            grp = [VS(z3.SubString(sz, st, en - st))] + [VS(z3.String(self.fresh('grp'))) for _ in range(3)]
            return self.alloc(HObj(None, {'groups': grp, 'spans': [(VI(st), VI(en))] * 4, 'text': txt}, name='match'))
        if typ in ('real?', 'opaque?', 'int?'):
            # None or a value of the type: decided by a fork (the invariant prunes impossible combinations)
            if self.decide(2, 'havoc %s is None' % name) == 1:
                return NONE
            typ = typ[:-1]
        if typ == 'int' or (typ is None and isinstance(old, VI)) or (
                typ is None and isinstance(old, VC) and type(old.v) is int):
            return VI(self.fresh_int(name))
        if typ == 'bool' or (typ is None and isinstance(old, (VB,))) or (
                typ is None and isinstance(old, VC) and type(old.v) is bool):
            return VB(z3.Bool(self.fresh(name)))
        if typ == 'str' or (typ is None and isinstance(old, VS)) or (
                typ is None and isinstance(old, VC) and type(old.v) is str):
            return VS(z3.String(self.fresh(name)))
        if typ == 'bytes' or (typ is None and isinstance(old, VBy)) or (
                typ is None and isinstance(old, VC) and type(old.v) is bytes):
            return VBy(z3.String(self.fresh(name)))
        if typ == 'real' or (typ is None and isinstance(old, VR)):
            return VR(z3.Real(self.fresh(name)))
        if typ == 'same' or (typ is None and isinstance(old, (VRef, VFn, VBM, VBI, VCls, VSeq))):
            return old
        if typ is None and isinstance(old, VC) and old.v is None:
            # a local that is None before the loop and assigned inside it, with no type declared in the sidecar (e.g. a
            # temporary added to the source): any value, None included (over-approximation)
            return self.fresh_opaque(name)
        return self.fresh_opaque(name)

    def havoc_seq_ghost(self, sq):
        """earlier iterations may have probed the lazily produced sequence"""
        g = sq.ghost
        p = self.fresh_int('pulled')
        self.assume(p >= g['pulled'])
        if not g.get('infinite'):
            self.assume(p <= sq.length)
        m = self.fresh_int('maxidx')
        self.assume(m >= g['maxidx'])
        g['pulled'] = p
        g['maxidx'] = m
        for flag in ('len_called', 'failed_probe', 'len_before_failed_probe', 'neg_probe'):
            g[flag] = None      # unknown after the havoc: spec accessors refuse to read it
        g['havoced'] = True

    def havoc_field(self, ref, field, typ):
        if not isinstance(ref, VRef) or not isinstance(self.heap[ref.addr], HObj):
            raise Unsupported('havoc_field of %r' % (ref,))
        h = self.heap[ref.addr]
        old = h.fields.get(field)
        if h.name == 'ghost_iter' and field == 'pos':
            p = self.fresh_int('pos')
            self.assume(p >= 0)
            h.fields['pos'] = p
            return
        if isinstance(old, VRef) and isinstance(self.heap[old.addr], (HList, HDict)):
            self.havoc_heap(old)
            return
        h.fields[field] = self.havoc_like(old, typ, field)

    def havoc_heap(self, v):
        if isinstance(v, VRef):
            h = self.heap[v.addr]
            if isinstance(h, HDict):
                nd = HDict(base=self.fresh('dict'))
                self.heap[v.addr] = nd
                return
            if isinstance(h, HList):
                nm = self.fresh('lst')
                sq = VSeq(nm, self.fresh_int('n' + nm))
                self.assume(sq.length >= 0)
                self.heap[v.addr] = HList([], base=sq)
                return
        raise Unsupported('havoc_heap of %r' % (v,))

    # try / with ---------------------------------------------------------------
    def st_Try(self, st, env):
        def run_finally():
            if st.finalbody:
                self.exec_block(st.finalbody, env)

        try:
            try:
                self.exec_block(st.body, env)
            except PyRaise as pr:
                exc = pr.exc
                for h in st.handlers:
                    if h.type is None:
                        names = ['BaseException']
                    else:
                        names = self.handler_names(h.type, env)
                    if self.exc_matches(exc, names):
                        if h.name:
                            env.locals[h.name] = exc
                        env.handling.append(exc)
                        self.handling_stack.append(exc)
                        try:
                            self.exec_block(h.body, env)
                        finally:
                            env.handling.pop()
                            self.handling_stack.pop()
                        break
                else:
                    raise
            else:
                self.exec_block(st.orelse, env)
        except (PyRaise, _Return, _Break, _Continue):
            # pending control flow continues after finally unless finally
            # itself transfers control (its exception propagates instead)
            run_finally()
            raise
        else:
            run_finally()

    def handler_names(self, node, env):
        v = self.eval(node, env)
        vs = v.items if isinstance(v, VT) else [v]
        out = []
        for x in vs:
            if isinstance(x, VBI) and x.name in EXC_PARENT:
                out.append(exc_canon(x.name))
            elif isinstance(x, VBI) and x.name.split('.')[-1] in EXC_PARENT:
                out.append(exc_canon(x.name.split('.')[-1]))
            elif isinstance(x, VCls) and x.exc_base:
                out.append(exc_canon(x.name))
            else:
                raise Unsupported('except clause naming %r' % (x,))
        return out

    def exc_matches(self, e, names):
        for n in names:
            if exc_is_sub(e.cls, n):
                return True
        if e.sym:
            for n in names:
                if exc_is_sub(n, e.cls) and not any(exc_is_sub(n, g) for g in e.neg):
                    if self.decide(2, 'exc isa ' + n) == 0:
                        e.cls = exc_canon(n)
                        return True
                    e.neg.add(exc_canon(n))
        return False

    def st_With(self, st, env):
        for item in st.items:
            cm = self.eval(item.context_expr, env)
            if item.optional_vars is not None:
                self.assign(item.optional_vars, cm, env)
            self.ghost.setdefault('locks', []).append(cm)
            self.trace.append(('lock_acquire', repr(cm)))
        try:
            self.exec_block(st.body, env)
        finally:
            for item in st.items:
                self.ghost['locks'].pop()
                self.trace.append(('lock_release',))

    # ------------------------------------------------------------ assignment
    def assign(self, target, v, env):
        if isinstance(target, ast.Name):
            env.locals[target.id] = v
        elif isinstance(target, (ast.Tuple, ast.List)):
            items = self.unpack(v, len(target.elts))
            for t, x in zip(target.elts, items):
                self.assign(t, x, env)
        elif isinstance(target, ast.Attribute):
            obj = self.eval(target.value, env)
            self.setattr_(obj, target.attr, v)
        elif isinstance(target, ast.Subscript):
            obj = self.eval(target.value, env)
            if isinstance(target.slice, ast.Slice):
                lo = self.eval(target.slice.lower, env) if target.slice.lower else None
                hi = self.eval(target.slice.upper, env) if target.slice.upper else None
                self.setslice(obj, lo, hi, v)
            else:
                self.setitem(obj, self.eval(target.slice, env), v)
        else:
            raise Unsupported('assignment target %s' % type(target).__name__)

    def unpack(self, v, n):
        if isinstance(v, VT):
            if len(v.items) != n:
                raise PyRaise(VExc('ValueError', [VC('unpack length')]))
            return v.items
        if isinstance(v, VRef):
            h = self.heap[v.addr]
            if isinstance(h, HList) and h.base is None:
                if len(h.items) != n:
                    raise PyRaise(VExc('ValueError', [VC('unpack length')]))
                return list(h.items)
        if isinstance(v, VO) and self.tfacts.get((v.name, 'tuple')) and self.valid(len_of(v.t) == n):
            f = z3.Function('titem', Val, z3.IntSort(), Val)
            return [VO_term(f(v.t, I(i)), '%s[%d]' % (v.name, i)) for i in range(n)]
        if isinstance(v, VO):
            # unpacking an unknown object: may fail with TypeError/ValueError
            if self.decide(2, 'unpack') == 1:
                raise PyRaise(VExc('Exception', [], sym=True, uid=self.fresh('exc')))
            return [self.fresh_opaque('%s.%d' % (v.name, i)) for i in range(n)]
        if isinstance(v, VExc):
            raise PyRaise(VExc('TypeError', [VC('cannot unpack non-iterable exception object')]))
        raise Unsupported('unpack of %r' % (v,))

    # ------------------------------------------------------------ expressions
    def eval(self, node, env):
        m = getattr(self, 'ex_' + type(node).__name__, None)
        if m is None:
            raise Unsupported('expression %s at line %d' % (type(node).__name__, node.lineno))
        return m(node, env)

    def ex_Constant(self, node, env):
        return VC(node.value)

    def ex_Name(self, node, env):
        return self.lookup_name(node.id, env)

    def ex_Tuple(self, node, env):
        out = []
        for e in node.elts:
            if isinstance(e, ast.Starred):
                out.extend(self.concrete_iter(self.eval(e.value, env)))
            else:
                out.append(self.eval(e, env))
        return VT(out)

    def ex_List(self, node, env):
        out = []
        for e in node.elts:
            if isinstance(e, ast.Starred):
                out.extend(self.concrete_iter(self.eval(e.value, env)))
            else:
                out.append(self.eval(e, env))
        return self.alloc(HList(out))

    def ex_Dict(self, node, env):
        d = HDict()
        r = self.alloc(d)
        for k, v in zip(node.keys, node.values):
            if k is None:
                raise Unsupported('dict unpacking')
            self.setitem(r, self.eval(k, env), self.eval(v, env))
        return r

    def ex_Set(self, node, env):
        raise Unsupported('set literal')

    def ex_Lambda(self, node, env):
        fd = ast.FunctionDef(name='<lambda>', args=node.args,
                             body=[ast.Return(value=node.body, lineno=node.lineno, col_offset=0)],
                             decorator_list=[], lineno=node.lineno, col_offset=0)
        return self.make_function(fd, env, closure=env)

    def ex_IfExp(self, node, env):
        if self.spec_mode:
            c = self.as_z3_bool(self.eval(node.test, env))
            a = self.eval(node.body, env)
            b = self.eval(node.orelse, env)
            return self.ite(c, a, b)
        if self.truth(self.eval(node.test, env), 'ifexp'):
            return self.eval(node.body, env)
        return self.eval(node.orelse, env)

    def ite(self, c, a, b):
        if isinstance(c, bool):
            return a if c else b
        if z3.is_true(z3.simplify(c)):
            return a
        if z3.is_false(z3.simplify(c)):
            return b
        if self.is_intlike(a) and self.is_intlike(b):
            return VI(z3.If(c, self.as_z3_int(a), self.as_z3_int(b)))
        if self.is_boollike(a) and self.is_boollike(b):
            return VB(z3.If(c, self.as_z3_bool(a), self.as_z3_bool(b)))
        if self.is_strlike(a) and self.is_strlike(b):
            return VS(z3.If(c, self.as_z3_str(a), self.as_z3_str(b)))
        if isinstance(a, (VR,)) or isinstance(b, VR):
            return VR(z3.If(c, self.as_z3_real(a), self.as_z3_real(b)))
        if isinstance(a, VT) and isinstance(b, VT) and len(a.items) == len(b.items):
            return VT([self.ite(c, x, y) for x, y in zip(a.items, b.items)])
        raise Unsupported('ite over %r / %r' % (a, b))

    def ex_BoolOp(self, node, env):
        if self.spec_mode:
            vals = [self.as_z3_bool(self.eval(v, env)) for v in node.values]
            vals = [z3.BoolVal(x) if isinstance(x, bool) else x for x in vals]
            return VB(z3.And(*vals) if isinstance(node.op, ast.And) else z3.Or(*vals))
        is_and = isinstance(node.op, ast.And)
        v = None
        for i, sub in enumerate(node.values):
            v = self.eval(sub, env)
            if i == len(node.values) - 1:
                return v
            t = self.truth(v, 'boolop')
            if is_and and not t:
                return v
            if not is_and and t:
                return v
        return v

    def ex_UnaryOp(self, node, env):
        v = self.eval(node.operand, env)
        if isinstance(node.op, ast.Not):
            if self.spec_mode:
                b = self.as_z3_bool(v)
                return VB(z3.Not(b)) if not isinstance(b, bool) else VC(not b)
            return VC(not self.truth(v, 'not'))
        if isinstance(node.op, ast.USub):
            if isinstance(v, VC) and isinstance(v.v, (int, float)):
                return VC(-v.v)
            if isinstance(v, VR):
                return VR(-v.t)
            return VI(-self.as_z3_int(v))
        if isinstance(node.op, ast.UAdd):
            return v
        raise Unsupported('unary op')

    def ex_BinOp(self, node, env):
        a = self.eval(node.left, env)
        b = self.eval(node.right, env)
        return self.binop(type(node.op).__name__, a, b)

    def ex_Compare(self, node, env):
        left = self.eval(node.left, env)
        if self.spec_mode:
            conj = []
            for op, rn in zip(node.ops, node.comparators):
                right = self.eval(rn, env)
                r = self.compare(type(op).__name__, left, right)
                conj.append(self.as_z3_bool(r))
                left = right
            conj = [z3.BoolVal(x) if isinstance(x, bool) else x for x in conj]
            return VB(z3.And(*conj)) if len(conj) > 1 else VB(conj[0])
        res = None
        for op, rn in zip(node.ops, node.comparators):
            right = self.eval(rn, env)
            res = self.compare(type(op).__name__, left, right)
            if len(node.ops) > 1:
                if not self.truth(res, 'cmpchain'):
                    return FALSE
            left = right
        return res

    def ex_Attribute(self, node, env):
        return self.getattr_(self.eval(node.value, env), node.attr)

    def ex_Subscript(self, node, env):
        obj = self.eval(node.value, env)
        if isinstance(node.slice, ast.Slice):
            lo = self.eval(node.slice.lower, env) if node.slice.lower else None
            hi = self.eval(node.slice.upper, env) if node.slice.upper else None
            if node.slice.step is not None:
                raise Unsupported('slice step')
            return self.getslice(obj, lo, hi)
        idx = self.eval(node.slice, env)
        if self.spec_mode and env is getattr(self, 'spec_env', None):
            self.spec_lenient = True
            try:
                return self.getitem(obj, idx)
            finally:
                self.spec_lenient = False
        return self.getitem(obj, idx)

    def eval_index(self, sl, env):
        return self.eval(sl, env)

    def ex_JoinedStr(self, node, env):
        parts = []
        for v in node.values:
            if isinstance(v, ast.Constant):
                parts.append(VC(v.value))
            else:
                if v.format_spec is not None or v.conversion not in (-1, 115):
                    raise Unsupported('f-string format spec')
                parts.append(self.to_str(self.eval(v.value, env)))
        out = VC('')
        for p in parts:
            out = self.binop('Add', out, p)
        return out

    def ex_ListComp(self, node, env):
        if len(node.generators) != 1:
            raise Unsupported('nested comprehension')
        g = node.generators[0]
        items = self.concrete_iter(self.eval(g.iter, env))
        out = []
        sub = Env(env.mod, closure=env, fn=env.fn)
        for x in items:
            self.assign(g.target, x, sub)
            if all(self.truth(self.eval(c, sub), 'comp-if') for c in g.ifs):
                out.append(self.eval(node.elt, sub))
        return self.alloc(HList(out))

    def ex_GeneratorExp(self, node, env):
        # evaluated eagerly (sound for the side-effect free element expressions of this code base; the consumer --
        # tuple(), list(), join, any/all -- iterates it completely and at once)
        if len(node.generators) == 1 and not self.spec_mode:
            it = self.eval(node.generators[0].iter, env)
            try:
                self.concrete_iter(it)
            except Unsupported as u:
                # iterable of unknown length: an abstract generator that only any() / all() accept
                return VGenAbs(node, str(u))
        return self.ex_ListComp(node, env)

    def ex_Call(self, node, env):
        if self.spec_mode and isinstance(node.func, ast.Name) and node.func.id == 'old':
            key = ast.dump(node.args[0])
            st = getattr(self, 'old_stash', {})
            if key not in st:
                raise Unsupported('old(%s) not pre-evaluated' % ast.unparse(node.args[0]))
            return st[key]
        fn = self.eval(node.func, env)
        args = []
        for a in node.args:
            if isinstance(a, ast.Starred):
                args.extend(self.concrete_iter(self.eval(a.value, env)))
            else:
                args.append(self.eval(a, env))
        kwargs = {}
        for k in node.keywords:
            if k.arg is None:
                d = self.eval(k.value, env)
                if isinstance(d, VRef) and isinstance(self.heap[d.addr], HDict) and self.heap[d.addr].base is None:
                    for kk, vv in self.heap[d.addr].entries:
                        kwargs[kk.v] = vv
                else:
                    raise Unsupported('**kwargs of unknown dict')
            else:
                kwargs[k.arg] = self.eval(k.value, env)
        return self.call(fn, args, kwargs, node)

    # ---------------------------------------------------------------- calls
    def call(self, fn, args, kwargs=None, node=None):
        kwargs = kwargs or {}
        if isinstance(fn, VBM):
            return self.call(fn.fn, [fn.self] + list(args), kwargs, node)
        if isinstance(fn, VFn):
            c = self.registry.get(fn.qual)
            cur = self.cur_contract
            if cur is not None:
                # a caller may name a specific variant of the callee's contract ('qual#variant') in its uses
                for u in cur.uses:
                    if u.startswith(fn.qual + '#') and u in self.registry and not (fn.qual == cur.func and self.depth == 0):
                        return self.apply_contract(self.registry[u], fn, args, kwargs, node)
            if c is not None and self.use_contract_for(fn):
                return self.apply_contract(c, fn, args, kwargs, node)
            return self.inline(fn, args, kwargs)
        if isinstance(fn, VBI):
            from . import builtins_ as B
            return B.call_builtin(self, fn.name, args, kwargs, node)
        if isinstance(fn, VCls):
            return self.instantiate(fn, args, kwargs)
        if isinstance(fn, VO):
            return self.opaque_call(fn, args, kwargs, node)
        if isinstance(fn, VRef):
            h = self.heap[fn.addr]
            if isinstance(h, HObj) and isinstance(h.cls, VCls):
                m = h.cls.lookup('__call__')
                if m is not None:
                    return self.call(m, [fn] + list(args), kwargs, node)
            if isinstance(h, HObj) and h.name in ('itemgetter',):
                return self.getitem(args[0], h.fields['k'])
            if isinstance(h, HObj) and h.lazy:
                return self.opaque_call(self.fresh_opaque('callobj'), args, kwargs, node)
        if isinstance(fn, (VC, VI, VS, VB, VT, VR)):
            raise PyRaise(VExc('TypeError', [VC('object is not callable')]))
        raise Unsupported('call of %r' % (fn,))

    def use_contract_for(self, fn):
        c = self.cur_contract
        if c is None:
            return False
        if fn.qual == c.func and self.depth == 0:
            return False
        return fn.qual in c.uses or fn.qual == c.func

    def opaque_call(self, fn, args, kwargs, node, label=None):
        """call of an unknown callable: fresh result, may raise any Exception;
        frame assumption A-frame: the modelled heap is unchanged"""
        self.assumptions_used.add(
            'opaque callables (namespace values, compiled blocks, expressions) may raise any '
            'Exception subclass, return anything, and leave the namespace stack/level and the '
            'modelled heap as they found them (protocol proved for the repo\'s own render functions)')
        lbl = label or ('call %s' % getattr(fn, 'name', '?'))
        self.trace.append(('call', getattr(fn, 'name', repr(fn)), tuple(_tr(a) for a in args), fn, list(args)))
        if callable(getattr(fn, 'proto', None)):
            # a contract-supplied abstract behaviour for this callable, exceptional outcomes included (recorded on the
            # trace like any other call)
            try:
                r = fn.proto(self, fn, list(args))
            except PyRaise:
                self.trace.append(('raised-by', getattr(fn, 'name', repr(fn))))
                raise
            self.trace.append(('returned', getattr(fn, 'name', repr(fn)), getattr(r, 'name', repr(r)), r))
            return r
        nm = getattr(fn, 'name', None)
        model_nc = (getattr(self.cur_contract, 'model_not_callable', False) and isinstance(fn, VO) and label is None
                    and getattr(fn, 'proto', None) is None)
        if model_nc:
            # the value called may not be callable at all: TypeError, decided by the observer callable_(v)
            cal = z3.Function('callable_', Val, z3.BoolSort())(fn.t)
            if not self.branch(cal, lbl + ' callable'):
                self.trace.append(('raised-by', nm, 'not-callable'))
                raise PyRaise(VExc('TypeError', [VC('object is not callable')]))
        if self.decide(2, lbl + ' raises') == 1:
            e = VExc('Exception', [], sym=True, uid=self.fresh('exc'))
            self.trace.append(('raised-by', getattr(fn, 'name', repr(fn))))
            raise PyRaise(e)
        r = self.fresh_opaque('ret')
        if getattr(fn, 'proto', None) == 'int-valued':
            self.tfacts[(r.name, 'int')] = True
            self.assumptions_used.add('comparison functions named in a sort option return integers')
        self.trace.append(('returned', getattr(fn, 'name', repr(fn)), r.name, r))
        return r

    def inline(self, fn, args, kwargs):
        if self.depth >= self.inline_depth:
            raise Unsupported('inline depth exceeded at ' + fn.qual)
        if self.depth > 0 or self.cur_contract is None or fn.qual != self.cur_contract.func:
            self.inlined.add(fn.qual)
        env = Env(fn.mod, closure=fn.closure, fn=fn)
        self.bind_params(fn, args, kwargs, env)
        self.depth += 1
        try:
            self.exec_block(fn.node.body, env)
        except _Return as r:
            return r.v
        finally:
            self.depth -= 1
        return NONE

    def bind_params(self, fn, args, kwargs, env):
        a = fn.node.args
        names = [x.arg for x in a.posonlyargs + a.args]
        kwargs = dict(kwargs)
        nd = len(fn.defaults)
        for i, nm in enumerate(names):
            if i < len(args):
                env.locals[nm] = args[i]
            elif nm in kwargs:
                env.locals[nm] = kwargs.pop(nm)
            else:
                di = i - (len(names) - nd)
                if di < 0:
                    raise PyRaise(VExc('TypeError', [VC('missing argument ' + nm)]))
                env.locals[nm] = fn.defaults[di]
        extra = args[len(names):]
        if a.vararg:
            env.locals[a.vararg.arg] = VT(extra)
        elif extra:
            raise PyRaise(VExc('TypeError', [VC('too many positional arguments')]))
        for ka in a.kwonlyargs:
            if ka.arg in kwargs:
                env.locals[ka.arg] = kwargs.pop(ka.arg)
            elif ka.arg in fn.kwdefaults:
                env.locals[ka.arg] = fn.kwdefaults[ka.arg]
            else:
                raise PyRaise(VExc('TypeError', [VC('missing kw-only argument')]))
        if a.kwarg:
            d = HDict()
            r = self.alloc(d)
            for k, v in kwargs.items():
                d.entries.append([VC(k), v])
            env.locals[a.kwarg.arg] = r
        elif kwargs:
            raise PyRaise(VExc('TypeError', [VC('unexpected keyword argument')]))

    def instantiate(self, cls, args, kwargs):
        if cls.exc_base:
            e = VExc(cls.name, args)
            init = cls.lookup('__init__')
            if init is not None:
                # exception classes of the repo with their own __init__ (DTReturn)
                ref = self.alloc(HObj(cls, {}, name='excinit'))
                self.call(init, [ref] + list(args), kwargs)
                e.fields = dict(self.heap[ref.addr].fields)
            return e
        ref = self.alloc(HObj(cls, {}))
        init = cls.lookup('__init__')
        if init is None and any(isinstance(b, VBI) and b.name.endswith('RestrictionCapableEval') for c in cls.mro() for b in c.bases):
            # library contract (assumed): RestrictionCapableEval(expr) compiles the expression text and raises
            # SyntaxError for text that is not a valid (restricted) Python expression
            self.lib_used.add('RestrictionCapableEval(expr): returns an expression object or raises SyntaxError(message)')
            if not self.mod_init and self.decide(2, 'Eval() syntax error') == 1:
                raise PyRaise(VExc('SyntaxError', [VS(z3.String(self.fresh('syntaxmsg')))]))
            h = self.heap[ref.addr]
            h.lazy = True
            h.fields['expr'] = args[0] if args else NONE
            return ref
        if init is not None:
            self.call(init, [ref] + list(args), kwargs)
        elif args or kwargs:
            if not any(isinstance(b, (VBI, VO)) for c in cls.mro() for b in c.bases):
                raise PyRaise(VExc('TypeError', [VC('object() takes no arguments')]))
        return ref

    # contracts at call sites -----------------------------------------------
    def apply_contract(self, c, fn, args, kwargs, node):
        from .contracts import apply_contract
        return apply_contract(self, c, fn, args, kwargs, node)

    # ------------------------------------------------------------ truthiness
    def truth(self, v, label=''):
        t = self.truth_term(v)
        return self.branch(t, label)

    def truth_term(self, v):
        if isinstance(v, VC):
            return bool(v.v)
        if isinstance(v, VB):
            return v.t
        if isinstance(v, VI):
            return v.t != 0
        if isinstance(v, VR):
            return v.t != 0
        if isinstance(v, VS) or isinstance(v, VBy):
            return z3.Length(v.t) > 0
        if isinstance(v, VT):
            return len(v.items) > 0
        if isinstance(v, VO):
            if self.tfacts.get((v.name, 'str')):
                return z3.Length(as_str(v.t)) > 0
            if self.tfacts.get((v.name, 'int')):
                return as_int(v.t) != 0
            return truthy(v.t)
        if isinstance(v, VSeq):
            if v.ghost is not None and not self.spec_mode:
                # truth value of a sequence object without __bool__ is len(obj) != 0: for a lazily produced sequence that
                # is a call of its (exhausting) __len__, accounted like len() itself (C12)
                v.ghost['len_called'] = True
                v.ghost['len_calls'] = v.ghost.get('len_calls', 0) + 1
                if not v.ghost.get('failed_probe'):
                    v.ghost['len_before_failed_probe'] = True
                v.ghost['pulled'] = v.length
                self.trace.append(('len', v.name))
            return v.length > 0
        if isinstance(v, (VFn, VBM, VBI, VCls, VMod, VExc, VRe)):
            return True
        if isinstance(v, VRef):
            h = self.heap[v.addr]
            if isinstance(h, HObj) and h.cls is None and h.name == 'tainted':
                return self.truth_term(h.fields['value'])      # __len__ of the raw value
            if isinstance(h, HList):
                return self.list_len(h) > 0
            if isinstance(h, HDict):
                if h.base is None:
                    if all(isinstance(k, VC) for k, _ in h.entries) or not h.entries:
                        return len(h.entries) > 0
                    return True if h.entries else False
                if h.entries:
                    return True
                return z3.Bool('nonempty_%s' % h.base)
            if isinstance(h, HObj):
                if isinstance(h.cls, VCls):
                    ln = h.cls.lookup('__len__')
                    bl = h.cls.lookup('__bool__')
                    if bl is not None:
                        return self.truth_term(self.call(bl, [v]))
                    if ln is not None:
                        return self.truth_term(self.call(ln, [v]))
                    return True
                if h.name == 'range':
                    return self.as_z3_int(h.fields['hi']) > self.as_z3_int(h.fields['lo'])
                return True
        raise Unsupported('truth of %r' % (v,))

    # ------------------------------------------------------------ conversions
    def is_intlike(self, v):
        return isinstance(v, VI) or (isinstance(v, VC) and type(v.v) in (int, bool)) or isinstance(v, VB)

    def is_boollike(self, v):
        return isinstance(v, VB) or (isinstance(v, VC) and type(v.v) is bool)

    def is_strlike(self, v):
        return isinstance(v, VS) or (isinstance(v, VC) and type(v.v) is str) or (
            isinstance(v, VO) and self.tfacts.get((v.name, 'str')))

    def as_z3_int(self, v):
        if isinstance(v, VI):
            return v.t
        if isinstance(v, VC) and type(v.v) in (int, bool):
            return I(int(v.v))
        if isinstance(v, VB):
            return z3.If(v.t, I(1), I(0))
        if isinstance(v, VO):
            return as_int(v.t)
        if isinstance(v, int):
            return I(v)
        raise Unsupported('not an int: %r' % (v,))

    def as_z3_real(self, v):
        if isinstance(v, VR):
            return v.t
        if isinstance(v, VC) and type(v.v) in (int, bool, float):
            return z3.RealVal(v.v)
        if isinstance(v, VI):
            return z3.ToReal(v.t)
        if isinstance(v, VO):
            if self.tfacts.get((v.name, 'int')):
                return z3.ToReal(as_int(v.t))
            return as_real(v.t)
        raise Unsupported('not a real: %r' % (v,))

    def as_z3_bool(self, v):
        if isinstance(v, bool):
            return v
        if isinstance(v, VB):
            return v.t
        if isinstance(v, VC):
            return bool(v.v)
        t = self.truth_term(v)
        return t

    def as_z3_str(self, v):
        if isinstance(v, VS):
            return v.t
        if isinstance(v, VC) and type(v.v) is str:
            return S(v.v)
        if isinstance(v, VO):
            return as_str(v.t)
        raise Unsupported('not a str: %r' % (v,))

    def to_str(self, v):
        """str(v) for formatting purposes"""
        if isinstance(v, VRef) and isinstance(self.heap[v.addr], HObj) and self.heap[v.addr].cls is None \
                and self.heap[v.addr].name == 'tainted':
            return self.to_str(self.heap[v.addr].fields['value'])
        if isinstance(v, VC):
            if isinstance(v.v, bytes):
                raise Unsupported('str(bytes)')
            return VC(str(v.v))
        if isinstance(v, VS):
            return v
        if isinstance(v, VI):
            return VS(z3.IntToStr(v.t)) if self.valid(v.t >= 0) else VS(
                z3.If(v.t >= 0, z3.IntToStr(v.t), z3.Concat(S('-'), z3.IntToStr(-v.t))))
        if isinstance(v, VO):
            if self.tfacts.get((v.name, 'str')):
                return VS(as_str(v.t))
            f = z3.Function('str_of', Val, z3.StringSort())
            return VS(f(v.t))
        if isinstance(v, VExc):
            f = z3.String(self.fresh('excstr'))
            return VS(f)
        if isinstance(v, VT):
            return VS(z3.String(self.fresh('strtuple')))      # repr-based text of a tuple: some string
        raise Unsupported('str() of %r' % (v,))

    def to_val(self, v):
        """box a value into the Val sort (for ghost sequences / uninterpreted functions)"""
        if isinstance(v, VO):
            return v.t
        if isinstance(v, VRef):
            return z3.Const('ref!%d' % v.addr, Val)
        if isinstance(v, VC) and v.v is None:
            return z3.Const('None', Val)
        if self.is_intlike(v):
            return box_int(self.as_z3_int(v))
        if isinstance(v, (VS,)) or (isinstance(v, VC) and isinstance(v.v, str)):
            return box_str(self.as_z3_str(v))
        if isinstance(v, VBy) or (isinstance(v, VC) and isinstance(v.v, bytes)):
            from . import bytesmodel
            return bytesmodel.box_bytes(bytesmodel.bz(self, v))
        if isinstance(v, VSeq):
            return z3.Const('seq!' + v.name, Val)
        if isinstance(v, (VFn, VCls, VBI)):
            return z3.Const('fn!' + (getattr(v, 'qual', None) or getattr(v, 'name')), Val)
        raise Unsupported('to_val of %r' % (v,))

    # ---------------------------------------------------------------- binop
    def binop(self, op, a, b):
        from . import ops
        return ops.binop(self, op, a, b)

    def compare(self, op, a, b):
        from . import ops
        return ops.compare(self, op, a, b)

    # ------------------------------------------------------- container access
    def list_len(self, h):
        n = I(0)
        conc = 0
        if h.base is not None:
            n = h.base.length
        for x in h.items:
            if isinstance(x, SymSeg):
                n = n + x.length
            else:
                conc += 1
        if h.base is None and conc == len(h.items):
            return conc
        return z3.simplify(n + conc)

    def seq_elem(self, sq, k):
        """element k of an abstract sequence (0 <= k < len assumed by caller)"""
        if isinstance(k, int):
            k = I(k)
        if getattr(sq, 'elem_fn', None):
            return sq.elem_fn(self, k)
        v = VO_term(sq.elem(k), '%s[%s]' % (sq.name, z3.simplify(k)))
        if getattr(sq, 'shape', None):
            self.tfacts[(v.name, 'tuple')] = True
            self.tfacts[(v.name, 'exact:tuple')] = True
            self.assume(len_of(v.t) == sq.shape)
        return v

    def list_get(self, h, idx):
        """h[idx] with idx a z3 Int / int known to be in range (non-negative)"""
        if isinstance(idx, int):
            idx = I(idx)
        off = idx
        if h.base is not None:
            if self.valid(idx < h.base.length):
                return self.seq_elem(h.base, idx)
            off = z3.simplify(idx - h.base.length)
        pos = I(0)
        for x in h.items:
            if isinstance(x, SymSeg):
                if self.valid(z3.And(off >= pos, off < pos + x.length)):
                    f = z3.Function('seg_' + x.name, z3.IntSort(), Val)
                    return VO_term(f(z3.simplify(off - pos)), '%s[%s]' % (x.name, off))
                pos = pos + x.length
            else:
                if self.valid(off == pos):
                    return x
                pos = pos + 1
        # position not decidable under the path condition: if-then-else over the alternatives
        from .spec import list_elem_term
        try:
            return VO_term(list_elem_term(self, h, idx), self.fresh('elem'))
        except Unsupported:
            raise Unsupported('cannot resolve list index %s' % idx)

    def getitem(self, obj, idx):
        from . import ops
        return ops.getitem(self, obj, idx)

    def getslice(self, obj, lo, hi):
        from . import ops
        return ops.getslice(self, obj, lo, hi)

    def setitem(self, obj, idx, v):
        from . import ops
        return ops.setitem(self, obj, idx, v)

    def setslice(self, obj, lo, hi, v):
        from . import ops
        return ops.setslice(self, obj, lo, hi, v)

    def delitem(self, obj, idx):
        from . import ops
        return ops.delitem(self, obj, idx)

    def getattr_(self, obj, name):
        from . import ops
        return ops.getattr_(self, obj, name)

    def setattr_(self, obj, name, v):
        from . import ops
        return ops.setattr_(self, obj, name, v)

    # ------------------------------------------------------------- spec eval
    def eval_spec(self, expr, env, extra=None):
        """evaluate a contract clause (Python expression text) in spec mode:
        no forks, no exceptions; boolean structure becomes a z3 formula"""
        if isinstance(expr, str):
            node = ast.parse(expr.strip(), mode='eval').body
        else:
            node = expr
        senv = Env(env.mod, closure=env, fn=env.fn)
        if extra:
            senv.locals.update(extra)
        saved = self.spec_mode
        saved_env = getattr(self, 'spec_env', None)
        self.spec_mode = True
        self.spec_env = senv
        try:
            return self.eval(node, senv)
        finally:
            self.spec_mode = saved
            self.spec_env = saved_env


class VLazy(V):
    __slots__ = ('mod', 'name')

    def __init__(self, mod, name):
        self.mod = mod
        self.name = name


class _ModClosure:
    """lets class bodies / defaults see module globals through the closure chain"""

    def __init__(self, env):
        self.locals = env.locals if env.fn is None else {}
        self.closure = env if env.fn is not None else None


def VO_term(term, name):
    v = VO.__new__(VO)
    v.t = term
    v.name = name
    v.proto = None
    return v


_MUTATORS = {'append', 'extend', 'insert', 'pop', 'remove', 'update', 'clear', 'sort', 'reverse', 'setdefault', 'popitem'}


def _heap_targets(inv, st, env):
    """the heap objects a cut loop havocs: the sidecar's ``havoc_heap`` entries.  An entry that is a bare local name which
    no longer exists (the local was renamed in the source) is replaced by the locals the loop body visibly mutates
    (``x[...] = ..``, ``del x[...]``, ``x.append(..)`` ...), so a renamed temporary does not make the proof undecided;
    the loop heap-write guard still rejects any write to an object that is not havoced."""
    out, missing = [], False
    for hx in inv.get('havoc_heap', []):
        if hx.isidentifier() and hx not in env.locals and hasattr(env.locals, 'resolve') and env.locals.resolve(hx) in env.locals:
            out.append(env.locals.resolve(hx))
        elif hx.isidentifier() and hx not in env.locals:
            missing = True
        else:
            out.append(hx)
    if missing:
        for n in ast.walk(ast.Module(body=list(st.body), type_ignores=[])):
            nm = None
            if isinstance(n, ast.Subscript) and isinstance(n.ctx, (ast.Store, ast.Del)) and isinstance(n.value, ast.Name):
                nm = n.value.id
            elif isinstance(n, ast.Call) and isinstance(n.func, ast.Attribute) and n.func.attr in _MUTATORS and isinstance(n.func.value, ast.Name):
                nm = n.func.value.id
            if nm and nm in env.locals and isinstance(env.locals[nm], VRef) and nm not in out:
                out.append(nm)
    return out


def _loop_header(st):
    if isinstance(st, ast.While):
        return ast.unparse(st.test)
    return 'for %s in %s' % (ast.unparse(st.target), ast.unparse(st.iter))


def _tr(v):
    return repr(v)


def _as_load(t):
    t2 = ast.parse(ast.unparse(t), mode='eval').body
    return t2


def _is_const_true(n):
    return isinstance(n, ast.Constant) and bool(n.value)


def _norm(s):
    return ' '.join(s.split())


def _assigned_names(stmts):
    out = set()
    for st in stmts:
        for n in ast.walk(st):
            if isinstance(n, ast.Name) and isinstance(n.ctx, ast.Store):
                out.add(n.id)
            elif isinstance(n, ast.ExceptHandler) and n.name:
                out.add(n.name)
            elif isinstance(n, ast.Assign):
                for t in n.targets:
                    for m in ast.walk(t):
                        if isinstance(m, ast.Name) and not isinstance(m.ctx, ast.Load):
                            out.add(m.id)
    for st in stmts:
        if isinstance(st, ast.Assign) and st.value is None:
            for t in st.targets:
                for m in ast.walk(t):
                    if isinstance(m, ast.Name):
                        out.add(m.id)
    return out


# ---------------------------------------------------------------- cut points
# A cut is a join point declared in the sidecar contract (DESIGN.md 2.4a): at a
# uniquely identified statement of the function under verification the engine
#   1. checks the cut's ``assume`` clauses as obligations on the current state,
#   2. replaces the variables listed in ``abstract`` by fresh values of the
#      declared shape (after a conformance check) and re-assumes the clauses,
#   3. deletes every local that is not declared ``live`` (a later read of a
#      deleted local is Unsupported -> undecided, never silently wrong),
#   4. drops path-condition conjuncts over symbols that are no longer reachable
#      (weakening the path condition is always sound for proving),
#   5. computes a canonical signature of the remaining state; if an earlier
#      path reached the same cut with an identical signature the path is
#      merged into it (its continuation would be identical).
import re as _re

_FRESH_RE = _re.compile(r"[A-Za-z_][\w.\[\]'\-]*![0-9]+(?:![0-9]+)*")
_REF_RE = _re.compile(r'ref!([0-9]+)')
_CUTNAME_RE = _re.compile(r'(^|_)cut[0-9]+_')


class _Canon:
    def __init__(self, E, shallow=False):
        self.E = E
        self.addr = {}
        self.names = {}
        self.out = []
        self.shallow = shallow

    def nm(self, s):
        if self.shallow:
            return s

        def sub(m):
            k = m.group(0)
            if k.startswith('ref!'):
                a = int(k[4:])
                return 'ref#%s' % self.addr.get(a, '?%d' % a)
            if k not in self.names:
                self.names[k] = '%s#%d' % (k.split('!')[0], len(self.names))
            return self.names[k]
        return _FRESH_RE.sub(sub, s)

    def term(self, t):
        if isinstance(t, (bool, int, str, float)) or t is None:
            return repr(t)
        if isinstance(t, z3.ExprRef):
            return self.nm(t.sexpr())
        return self.nm(repr(t))

    def val(self, v):
        E = self.E
        if isinstance(v, VRef):
            if self.shallow:
                return '@%d' % v.addr
            if v.addr in self.addr:
                return '@%d' % self.addr[v.addr]
            self.addr[v.addr] = len(self.addr)
            return '@%d=%s' % (self.addr[v.addr], self.heapobj(E.heap[v.addr]))
        if isinstance(v, VC):
            return 'C(%r:%s)' % (v.v, type(v.v).__name__)
        if isinstance(v, (VI, VB, VS, VR, VBy)):
            return '%s(%s)' % (type(v).__name__, self.term(v.t))
        if isinstance(v, VT):
            return 'T(%s)' % ','.join(self.val(x) for x in v.items)
        if isinstance(v, VO):
            return 'O(%s)' % self.term(v.t)
        if isinstance(v, VSeq):
            g = ''
            if v.ghost is not None and v.name not in getattr(self, 'skip_ghost', ()):
                g = '{%s}' % ','.join('%s:%s' % (k, self.term(x) if not isinstance(x, list) else [self.term(y) for y in x])
                                      for k, x in sorted(v.ghost.items()))
            return 'Seq(%s,%s,%s%s)' % (self.nm(v.name), self.term(v.length), v.kind, g)
        if isinstance(v, VFn):
            return 'Fn(%s)' % v.qual
        if isinstance(v, VCls):
            return 'Cls(%s)' % v.qual
        if isinstance(v, (VBI, VMod)):
            return '%s(%s)' % (type(v).__name__, v.name)
        if isinstance(v, VBM):
            return 'BM(%s,%s)' % (self.val(v.fn), self.val(v.self))
        if isinstance(v, VExc):
            return 'Exc(%s,%s,%s,%s,%s)' % (v.cls, v.sym, sorted(v.neg), [self.val(a) for a in v.args],
                                            sorted((k, self.val(x)) for k, x in v.fields.items()))
        if isinstance(v, VRe):
            return 'Re(%r,%r)' % (v.pattern, v.flags)
        if isinstance(v, z3.ExprRef):
            return self.term(v)
        if isinstance(v, (bool, int, str)) or v is None:
            return repr(v)
        if isinstance(v, list):
            return '[%s]' % ','.join(self.val(x) for x in v)
        if isinstance(v, dict):
            return '{%s}' % ','.join('%s:%s' % (k, self.val(x)) for k, x in sorted(v.items(), key=lambda kv: str(kv[0])))
        return self.nm(repr(v))

    def heapobj(self, h):
        if isinstance(h, HList):
            return 'L(%s|%s)' % (self.val(h.base) if h.base is not None else '', ','.join(
                self.val(x) if not isinstance(x, SymSeg) else 'Seg(%s,%s)' % (self.nm(x.name), self.term(x.length))
                for x in h.items))
        if isinstance(h, HDict):
            return 'D(%s|%s|%s|del=%s)' % (self.nm(h.base) if h.base else '',
                                           ','.join('%s=>%s' % (self.val(k), self.val(v)) for k, v in h.entries),
                                           '' if self.shallow else
                                           ','.join('%r=>%s' % (k, self.val(v)) for k, v in sorted(h.val_cache.items(), key=lambda kv: repr(kv[0]))),
                                           sorted(map(repr, h.deleted)))
        if isinstance(h, HObj):
            return 'Obj(%s,%s,%s,%s|%s)' % (h.cls.qual if isinstance(h.cls, VCls) else h.cls, h.lazy, self.nm(h.name), h.prov,
                                            ','.join('%s=%s' % (k, self.val(v)) for k, v in sorted(h.fields.items(), key=lambda kv: str(kv[0]))))
        return repr(h)


_SYMS_CACHE = {}


def _term_syms(t, acc):
    """names of uninterpreted constants / functions in a z3 term (cached per AST id)"""
    tid = t.get_id()
    hit = _SYMS_CACHE.get(tid)
    if hit is not None:
        acc |= hit[0]
        return
    mine = set()
    _term_syms_raw(t, mine)
    _SYMS_CACHE[tid] = (frozenset(mine), t)
    acc |= mine


def _term_syms_raw(t, acc):
    seen = set()
    stack = [t]
    while stack:
        x = stack.pop()
        if x.get_id() in seen:
            continue
        seen.add(x.get_id())
        if z3.is_app(x):
            if x.num_args() == 0 and x.decl().kind() == z3.Z3_OP_UNINTERPRETED:
                acc.add(x.decl().name())
            else:
                if x.decl().kind() == z3.Z3_OP_UNINTERPRETED:
                    acc.add(x.decl().name())
                stack.extend(x.children())
        elif z3.is_quantifier(x):
            stack.append(x.body())


def _dict_base(sym):
    """'dict!14['k']', 'has_dict!14['k']', 'val_dict!14' -> 'dict!14' (symbols that describe the contents of an abstract dict)"""
    for pre in ('has_', 'val_'):
        if sym.startswith(pre):
            sym = sym[len(pre):]
            break
    return sym.split('[', 1)[0]


def _engine_cut(self, cut, idx, env):
    c = self.cur_contract
    key = c.key
    genv = self.ghost_env(env)
    # 1. established
    for nm, ex in cut.get('assume', {}).items():
        try:
            v = self.as_z3_bool(self.eval_spec(ex, env, genv))
        except PyRaise as pr:
            # the clause is not even defined on this state (e.g. a variable it names is missing from a mapping)
            v = False
            ex = '%s  (evaluation raised %s)' % (ex, pr.exc.cls)
        self.oblige('%s::cut_%s.%s.established' % (key, cut.get('name', idx), nm), v, kind='invariant',
                    detail='%s [at cut %s]' % (ex, cut.get('name', idx)))
    for nm, ex in cut.get('check', {}).items():
        # obligations only (clauses about the ghost trace or about values that are abstracted next: never re-assumed)
        try:
            v = self.as_z3_bool(self.eval_spec(ex, env, genv))
        except PyRaise as pr:
            v = False
            ex = '%s  (evaluation raised %s)' % (ex, pr.exc.cls)
        self.oblige('%s::cut_%s.%s' % (key, cut.get('name', idx), nm), v, kind='invariant',
                    detail='%s [at cut %s]' % (ex, cut.get('name', idx)))
    # 2. abstraction
    from .contracts import abstract_value
    for var, spec in cut.get('abstract', {}).items():
        if var not in env.locals:
            raise Unsupported('cut %d: variable %s to abstract is not bound' % (idx, var))
        env.locals[var] = abstract_value(self, env.locals[var], spec, 'cut%d_%s' % (idx, var))
        self.havoced = True
    if cut.get('forget_iteration') and getattr(self, 'loop_pc_mark', None) is not None:
        # facts learned since the head of the enclosing loop iteration are dropped (weakening)
        self.pc = self.pc[:self.loop_pc_mark]
    for hx in cut.get('havoc_heap', []):
        self.havoc_heap(self.eval_spec(hx, env, self.ghost_env(env)))
        self.havoced = True
    for gx in cut.get('havoc_ghost', []):
        sq = self.eval_spec(gx, env, self.ghost_env(env))
        if isinstance(sq, VSeq) and sq.ghost is not None:
            self.havoc_seq_ghost(sq)
    self.spec_assume_defined = True
    try:
        for nm, ex in cut.get('assume', {}).items():
            self.assume(self.as_z3_bool(self.eval_spec(ex, env, self.ghost_env(env))))
    finally:
        self.spec_assume_defined = False
    for nm, ex in cut.get('cover', {}).items():
        # reachability canary (vacuity guard): some path must reach this cut with the condition satisfiable
        oid = '%s::cut_%s.cover.%s' % (key, cut.get('name', idx), nm)
        ob = self.obligations.get(oid)
        if ob is None:
            ob = self.obligations[oid] = Obligation(oid, 'cover')
            ob.status = 'undecided'
            ob.detail = 'no path reaches cut %s with: %s (vacuity guard)' % (cut.get('name', idx), ex)
        ob.paths += 1
        if ob.status != 'discharged':
            cv = self.as_z3_bool(self.eval_spec(ex, env, self.ghost_env(env)))
            cv = z3.BoolVal(cv) if isinstance(cv, bool) else cv
            if self.feasible(cv):
                ob.status = 'discharged'
                ob.detail = ex
                ob.backends.add('z3')
    for nm, ex in cut.get('suppose', {}).items():
        # a pure assumption (not checked): recorded in the evidence
        self.assumptions_used.add('assumed at a cut of %s: %s' % (c.func.split('.')[-1], ex))
        self.assume(self.as_z3_bool(self.eval_spec(ex, env, self.ghost_env(env))))
    # 3. liveness
    live = set(cut.get('live', ())) | set(cut.get('abstract', {})) | set(cut.get('_auto_live', ()))
    for k in list(env.locals):
        if (k not in live and not k.startswith('__g_')) or k in cut.get('drop', ()):
            del env.locals[k]
    if not cut.get('keep_trace'):
        # the ghost trace is forgotten at a cut; spec functions that read the trace refuse to
        # work on a truncated trace (Unsupported), so this cannot make a clause pass
        self.trace = []
        self.trace_truncated = True
    # canonical form of lazy objects: drop auto-materialised attribute values (a later read
    # re-creates the identical symbol)
    for a, h in self.heap.items():
        if isinstance(h, HObj) and h.lazy:
            for k in [k for k, v in h.fields.items()
                      if isinstance(v, VO) and v.name == '%s.%s' % (h.name or ('obj%d' % a), k)]:
                del h.fields[k]
    for (ox, field, typ) in cut.get('havoc_fields', []):
        ref = self.eval_spec(ox, env, self.ghost_env(env))
        hh = self.heap[ref.addr]
        hh.fields[field] = VO('cut%d_%s.%s' % (idx, hh.name, field))
    for gk in [g for g in self.ghost if isinstance(g, tuple) and g and g[0] in ('attr', 'hasattr')]:
        # per-path caches of uninterpreted observers: re-creation yields the same term / the
        # answer already fixed by the path condition
        del self.ghost[gk]
    forget = cut.get('forget', [])
    if forget:
        self.pc = [f for f in self.pc if not any(w in f.sexpr() for w in forget)]
        self.tfacts = {k: v for k, v in self.tfacts.items() if not any(w in str(k[0]) for w in forget)}
    # 4. + 5. signature
    cn = _Canon(self)
    parts = []
    for k in sorted(env.locals):
        parts.append('%s=%s' % (k, cn.val(env.locals[k])))
    parts.append('handling=%s' % [cn.val(x) for x in env.handling])
    for gk in sorted(self.ghost, key=repr):
        gv = self.ghost[gk]
        if isinstance(gk, tuple) and gk and gk[0] == 'td_entry':
            if gk[1] not in cn.addr:
                continue
            parts.append('ghost td_entry@%d=%s' % (cn.addr[gk[1]], cn.val({k: (VRef(v) if k == 'data_addr' else v) for k, v in gv.items()})))
        else:
            parts.append('ghost %s=%s' % (cn.nm(repr(gk)), cn.val(gv)))
    reach = set(cn.names)
    state_text = '\n'.join(parts)
    live_syms = set()
    for m in _re.finditer(r"[A-Za-z_][\w.\[\]'!\-]*", state_text):
        live_syms.add(m.group(0))
    newpc = []
    for f in self.pc:
        syms = set()
        _term_syms(f, syms)
        dead = [s for s in syms if (('!' in s and s not in reach and _dict_base(s) not in reach and not s.startswith('ref!'))
                                    or (_CUTNAME_RE.search(s) and s not in live_syms
                                        and not any(s in t for t in live_syms)))]
        if dead:
            continue
        newpc.append(f)
    self.pc = newpc
    pcs = sorted(cn.nm(f.sexpr()) for f in self.pc)
    def _tf_dead(k):
        n = str(k[0])
        return ('!' in n and n not in reach and _dict_base(n) not in reach) or (_CUTNAME_RE.search(n) and n not in live_syms
                                                 and not any(n in t for t in live_syms))
    self.tfacts = {k: v for k, v in self.tfacts.items() if not _tf_dead(k)}
    tf = sorted('%s=%s' % (cn.nm(repr(k)), v) for k, v in self.tfacts.items())
    sig = '\n'.join([state_text, 'PC', '\n'.join(pcs), 'TF', '\n'.join(tf), 'TRACE', cn.nm(repr(self.trace)),
                     'HAVOC %s' % self.havoced])
    here = tuple(self.dec[:self.dpos])
    if self.fork_ctl is not None:
        first = self.fork_ctl.cut_first(key, idx, sig, here)
        if first != here:
            self.cut_stats[(key, idx)] = self.cut_stats.get((key, idx), 0) + 1
            raise PathAbort()
        return
    memo = self.cut_memo.setdefault((key, idx), {})
    if sig in memo and memo[sig] != here:
        # an earlier path reached this cut in an identical state: its continuation covers ours
        self.cut_stats[(key, idx)] = self.cut_stats.get((key, idx), 0) + 1
        raise PathAbort()
    memo[sig] = here


Engine.do_cut = _engine_cut
